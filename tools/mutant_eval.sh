#!/bin/bash
# mutant_eval.sh <seeded-id> <property> [<property>...] : apply seeded/<id>/patch.diff to /repo, run the quick checks, revert.
ID=$1; shift
P=/verif/seeded/$ID/patch.diff
[ -f $P ] || P=/tmp/mut/out/${ID%-*}/${ID#*-}/patch.diff
if ! git -C /repo diff --quiet; then echo "/repo not clean"; exit 2; fi
git -C /repo apply $P || { echo "patch does not apply"; exit 2; }
for prop in "$@"; do
  TIER=${TIER:-quick}
  /verif/check $prop --tier $TIER > /tmp/meval_${ID}_$prop.log 2>&1; rc=$?
  echo "MUTANT $ID check $prop tier=$TIER rc=$rc : $(grep -c '^VIOLATION' /tmp/meval_${ID}_$prop.log) violation lines; $(grep -m1 -A1 '^VIOLATION' /tmp/meval_${ID}_$prop.log | tail -1 | cut -c1-300)"
done
git -C /repo checkout -- .
git -C /repo status --short | head -3
