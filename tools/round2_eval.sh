#!/bin/bash
HERE="$(cd "$(dirname "$0")/.." && pwd)"
cd $HERE
for p in C01 C02 C03 C04 C05 C06 C07 C08 C09 C10; do
  for m in m1 m2; do
    extra=""
    $HERE/tools/mutant_eval_wt.sh /tmp/mut2/out/$p/$m r2-$p-$m $p $extra
  done
done
