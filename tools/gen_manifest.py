#!/usr/bin/env python3
"""Regenerate /verif/MANIFEST.json from the table below (single source of truth)."""
import json

PROPS = [json.loads(l) for l in open("/verif/properties.jsonl")]

SEQ_TEXT = ("TLC explores the TLA+ mirror of the Sequence scheduler (spec/PulserSeq.tla) exhaustively over a bounded "
            "call lattice and evaluates the declarative predicates of spec/PulserProps.tla on every transition; every "
            "explored behaviour is replayed call by call on the working tree and the projected state compared with TLC's; "
            "behaviours where the tree differs are recorded and TLC (spec/PulserSeqTrace.tla) evaluates the same predicates "
            "on the real states. A violation is only reported for a predicate false on states produced by the real code.")
REC_TEXT = (" In addition (code -> spec from independent executions): long random programs (8-18 public calls, valid and "
            "invalid) on random devices with float-valued pulses are executed on the tree under a recorder, and TLC validates "
            "every recorded trace against the same model and predicates (both tiers; harness/randdriver.py); in the thorough "
            "tier the repository's own tests are recorded and validated the same way.")
SEQ_NOTE = ("bounded: call lattice, depth and device family of the configurations listed in the evidence; fall times and EOM "
            "off-detunings are numeric oracles read from the tree at start; trusted: TLC, the projection harness/project.py")

FUNC_TEXT = ("The pure function behind the property is transcribed into an explicit TLA+ reference over an exactly "
             "representable input lattice; TLC enumerates the lattice exhaustively, checks the laws of the reference "
             "itself as invariants and prints the expected result of every point; every enumerated point is then "
             "executed on the working tree and compared (one implementation test per TLC state).")
FUNC_NOTE = ("bounded: the lattice stated in the evidence (rule); trusted: TLC, the mapping from lattice integers to "
             "floats, numpy comparisons within the stated tolerances")

RECORDED_FOR = {"C01", "C02", "C03", "C07", "C09", "C10", "C13", "C15"}

CLAIMED = {
    "C19": dict(technique="TLA+ reference enumerated by TLC, every state executed on the implementation", ref="5 C19",
                text=FUNC_TEXT, note=FUNC_NOTE, engine="tlc-func"),
    "C01": dict(technique="TLA+ model checking (TLC) + spec-to-code replay + trace validation", ref="5 C01"),
    "C04": dict(technique="TLC-generated behaviours of the scheduler/template model replayed on the tree; encode/decode relation checked on every reached state", ref="5 C04",
                text="TLC explores the TLA+ model of Sequence (built and parametrized mode: every operation kind, protocols, EOM, DMM, SLM, XY, variables, array slices) over the rel_* configurations; every behaviour is replayed on the tree and, on every reached state that conforms to the model, the document of to_abstract_repr is validated against the published JSON schema with the harness's own jsonschema call, decoded, and the decoded sequence compared with the original (timeline, pulses, phase references, measurement; for parametrized sequences the built sequence for every assignment); the legacy _serialize/_deserialize pair likewise.",
                note="the round-trip relation itself is implementation-vs-implementation on model-generated programs; bounded by the call lattices of rel_core, rel_eom, rel_render_ising, rel_render_xy, rel_template, rel_typestate (depth 2-3 quick, 3-4 thorough); channel-table order and basis first-use order are not compared; JSON-schema validity is an observation from jsonschema"),
    "C11": dict(technique="TLA+ references (EmuBits, EmuTimes, EmuQubit) enumerated by TLC, every state executed on both emulators", ref="5 C11",
                text=FUNC_TEXT + " EmuQubit derives exact populations at Clifford points from the documented Hamiltonian; EmuTimes says which states the V2 backend must store; EmuBits the bit conventions and detection errors over exact rationals. Norm / trace / positivity are monitored observations.",
                note=FUNC_NOTE + "; V2-vs-legacy states compared within 5e-3", engine="tlc-func"),
    "C14": dict(technique="case lattice enumerated by TLC (Modulation.tla), measured on the tree, contracts over the quantised observations evaluated by TLC; modulated sampling decided on TLC-generated behaviours", ref="5 C14",
                text="The filter laws are real-analysis statements: Modulation.tla enumerates the case lattice (waveform class x duration x channel and EOM bandwidth x amplitude x the four modulate() modes) and states the contracts (one rise time per end, linearity, integral, non-negativity, no overshoot, half amplitude at the bandwidth, rise <= fall <= 2 rise, tail beyond the accounted fall time below max(0.01, 0.6% of the peak)) over integer observations; every case is measured on the working tree and TLC evaluates the contracts on every observation. 'Modulated sampling succeeds whenever plain sampling does and ends at duration + fall time' is decided on every state of the render configurations explored by TLC from the scheduler model.",
                note="the filter clauses are a monitor written in TLA+, not model checking (DESIGN 6); observations quantised to 1e-9 / 1e-6 rad/us; band of 1e-6 of the input maximum on the positivity/overshoot clauses", engine="tlc-func"),
    "C18": dict(technique="TLA+ model checking (TLC) + replay; switch_device results compared with the original (strict) and judged by TLC against the new device's limits (non-strict)", ref="5 C18",
                text="TLC explores programs on a base device; every behaviour is replayed on the tree and on every reached state the sequence is switched to 24 device variants (each differing in one channel/device parameter, or in channel order): strict=True must raise or return the identical timeline and samples; the result of strict=False is projected under the new device and TLC evaluates the state invariants of PulserProps (tiling, pulses within the new limits, sequence duration, retarget rules) on it, and it is compared with the model's replay of the recorded calls on that device (SwitchResult in PulserSeqMC.tla). switch_register(same register) is checked on every state of the rel_* configurations.",
                note="bounded: one base device, 24 variants, call lattice of 16 calls, depth 2 (quick) / 3 (thorough); the strict matching predicate itself is not modelled, only its guarantee is checked"),
    "C16": dict(technique="TLA+ reference (Waveforms.tla) enumerated by TLC, every state executed on the implementation", ref="5 C16",
                text=FUNC_TEXT + " Window areas / from_max_val / finiteness for all durations are contracts evaluated on the implementation's samples (monitored observations).",
                note=FUNC_NOTE, engine="tlc-func"),
    "C17": dict(technique="TLA+ models (Elision, NoiseTable, Aliasing) checked by TLC, every state / behaviour executed on the implementation", ref="5 C17",
                text=FUNC_TEXT + " Aliasing.tla is a state machine over a heap of live objects (construct, construct from shared arguments, decode, serialise, mutate) whose behaviours are replayed with deep snapshots of every other live object.",
                note=FUNC_NOTE, engine="tlc-func"),
    "C20": dict(technique="TLA+ references (QuditAlgebra, Observables, ObsResults) enumerated by TLC, every state / behaviour executed on the implementation", ref="5 C20",
                text=FUNC_TEXT + " QuditAlgebra.tla is a Gaussian-integer reference of operator / state representations, the matrix algebra and every default observable (kets, pure and mixed density matrices, 2-4 levels, 1-4 qudits); ObsResults.tla is the Results store as a state machine and the rule for which evaluation times each observable stores; stored values of QutipBackendV2 runs are compared with the definition evaluated on the state and Hamiltonian the backend handed to a spy observable.",
                note=FUNC_NOTE, engine="tlc-func"),
    "C05": dict(technique="TLA+ reference (Hamiltonian.tla structure + PulserRender.tla per-atom drive) checked by TLC, compared entrywise with QutipEmulator.get_hamiltonian on TLC-generated behaviours", ref="5 C05",
                text="TLC enumerates the matrix structure of the documented Hamiltonian (Hamiltonian.tla: which entry carries which term in the documented level order and register tensor order; Hermiticity, locality and counting laws checked by TLC) and, for every behaviour of the render configurations explored from the scheduler model, the per-atom Omega/delta/phi attribution (PulserRender.tla); the harness evaluates the terms numerically and compares QutipEmulator.get_hamiltonian(t) entry by entry at the segment boundaries of every reachable state.",
                note="bounded: 3 atoms, the render configurations (global/local/multi-target channels, DMM weights, SLM mask, XY with magnetic field), up to 10 sample times per state; trusted: the 20-line numeric evaluation of a term, qutip's full(); times where several pulses of different phase act on one atom and basis are not compared (not specified)"),
    "C06": dict(technique="TLA+ reference rendering (PulserRender.tla) checked by TLC, compared with sampler.sample at every ns on TLC-generated behaviours", ref="5 C06",
                text="For every behaviour TLC explores of the scheduler model, PulserRender.tla gives the reference rendering of the state (which slot plays at every ns of every channel, padding rules, per-atom attribution with DMM weights and XY SLM mask; well-formedness checked by TLC); the harness replays the behaviour on the tree and compares sampler.sample, extended sampling and to_nested_dict(all_local False/True) with the reference at every nanosecond.",
                note="bounded: render configurations (ising with DMM/SLM/multi-target local, XY with two channels and SLM, EOM with/without custom buffer), depth 3 (quick) / 4 (thorough); phase compared on real pulses only; padding of a channel left in EOM mode is a don't-care in the per-atom view"),
    "C08": dict(technique="TLA+ model of the parametrized (template) mode and of build() explored by TLC, replayed on the tree; build() compared with direct construction for every assignment", ref="5 C08",
                text="spec/PulserSeq.tla models the parametrized mode (verify_variable, light validation, stored calls) and spec/PulserSeqMC.tla the result of build() for every variable assignment of the configuration; TLC explores every sequence of concrete and variable-argument calls up to the depth bound; every behaviour is replayed on the tree (state of the template and TLC's predicted built sequence compared), and after every call the real build(**assignment) is compared with a direct construction from the evaluated calls, the template is compared before/after, and builds are repeated in another order.",
                note="bounded: the template configuration (3 channels + DMM, 8 variable-argument call shapes over 3 assignments of an int and a float variable, expressions x, 2x+4, x//2+1, (x//4)%3, 2y, -y), depth 3/4; mappable registers are exercised by C19 (build_register), not here"),
    "C12": dict(technique="TLA+ reference (Geometry.tla, DeviceCtor.tla) enumerated by TLC, every state executed on the implementation", ref="5 C12",
                text=FUNC_TEXT, note=FUNC_NOTE, engine="tlc-func"),
    "C07": dict(technique="TLA+ model checking (TLC) + spec-to-code replay + trace validation", ref="5 C07"),
    "C13": dict(technique="TLA+ model checking (TLC) + spec-to-code replay + trace validation", ref="5 C13"),
    "C15": dict(technique="TLA+ model checking (TLC) + spec-to-code replay + trace validation", ref="5 C15"),
    "C02": dict(technique="TLA+ model checking (TLC) + spec-to-code replay + trace validation", ref="5 C02"),
    "C03": dict(technique="TLA+ model checking (TLC) + spec-to-code replay + trace validation", ref="5 C03"),
    "C09": dict(technique="TLA+ model checking (TLC) + spec-to-code replay + trace validation", ref="5 C09"),
    "C10": dict(technique="TLA+ model checking (TLC) + spec-to-code replay + trace validation", ref="5 C10"),
}

checks = []
for pid, c in sorted(CLAIMED.items()):
    checks.append({
        "property_id": pid,
        "quick_cmd": f"./check {pid} --tier quick",
        "thorough_cmd": f"./check {pid} --tier thorough",
        "evidence_file": f"/verif/evidence/{pid}.json",
        "replay_cmd_template": f"./check {pid} --replay {{path}}",
        "engine": c.get("engine", "tlc-seq"),
        "level_claimed": {"category": "model_checking",
                          "text": c.get("text", SEQ_TEXT) + (REC_TEXT if pid in RECORDED_FOR else ""),
                          "design_ref": c["ref"]},
        "level_note": c.get("note", SEQ_NOTE),
        "technique": c["technique"],
    })

na = [{"property_id": p["id"], "reason": "check not built yet (build in progress, DESIGN.md section 9)"}
      for p in PROPS if p["id"] not in CLAIMED]

m = {
    "version": 1,
    "setup_cmd": "./setup.sh",
    "hooks": {"guard": "PULSER_VERIF",
              "enable": "no repository hooks are needed: checks import the working tree (PYTHONPATH=/repo/pulser-core:/repo/pulser-simulation) in a fresh interpreter and read the abstract state from the live objects",
              "baseline_off_cmd": "cd /repo && /venv/bin/python -m pytest -ra -q -p no:cacheprovider --timeout=900 --continue-on-collection-errors",
              "source_commits": [], "add_only": True},
    "engines": [{"name": "tlc-func", "path": "/verif/spec/Layout.tla",
                 "serves_properties": sorted(p for p, c in CLAIMED.items() if c.get("engine") == "tlc-func"),
                 "kind_free_text": "TLA+ reference functions enumerated by TLC over exact lattices; each TLC state becomes an implementation test"},
                {"name": "tlc-seq", "path": "/verif/spec/PulserSeq.tla",
                 "serves_properties": sorted(p for p, c in CLAIMED.items() if c.get("engine", "tlc-seq") == "tlc-seq"),
                 "kind_free_text": "explicit TLA+ specification checked by TLC, bound to the code by replay of TLC behaviours and TLC validation of recorded traces"}],
    "checks": checks,
    "notes": "see DESIGN.md; known findings in known_findings.json; seeded changes in seeded/",
    "not_applicable": na,
}
json.dump(m, open("/verif/MANIFEST.json", "w"), indent=1)
print("claimed", sorted(CLAIMED), "not_applicable", len(na))
