#!/bin/bash
# Runs every seeded change (seeded/Cxx-mN/patch.diff) against the check of its property (and listed extras)
# in a scratch worktree of /repo (VERIF_REPO), never touching /repo's working tree.
# Output: seeded/RESULTS.tsv.   JOBS=<n> mutants in parallel (default 4), TIER=quick|thorough.
HERE="$(cd "$(dirname "$0")/.." && pwd)"
cd "$HERE"
OUT=$HERE/seeded/RESULTS.tsv
TMP=$(mktemp -d /tmp/mm_XXXXXX)
one() {
  d=$1; id=$(basename $d); prop=${id%-*}
  extra=""
  case $id in C05-m1) extra="C06";; C08-m1) extra="C19";; C10-m1) extra="C03";; C08-m2) extra="C13";; C15-m2) extra="C14";; C20-m3) extra="C11";;
             C03-m6) extra="C07";; C06-m5) extra="C09";; C07-m6) extra="C06";; C09-m6) extra="C08";; esac
  WT=$TMP/wt_$id
  git -C /repo worktree add -q --detach $WT HEAD || { echo -e "$id\t$prop\t-\tNA\t0\tworktree failed" > $TMP/$id.tsv; return; }
  if ! git -C $WT apply $HERE/$d/patch.diff; then
    echo -e "$id\t$prop\t-\tNA\t0\tpatch does not apply" > $TMP/$id.tsv
  else
    for p in $prop $extra; do
      VERIF_REPO=$WT ./check $p --tier ${TIER:-quick} > $TMP/$id.$p.log 2>&1; rc=$?
      n=$(grep -c '^VIOLATION' $TMP/$id.$p.log)
      first=$(grep -m1 -A1 '^VIOLATION' $TMP/$id.$p.log | tail -1 | cut -c1-160 | tr '\t' ' ')
      echo -e "$id\t$p\t${TIER:-quick}\t$rc\t$n\t$first" >> $TMP/$id.tsv
    done
  fi
  git -C /repo worktree remove --force $WT 2>/dev/null
  rm -rf "$HERE/.work/other-tree/$(echo $WT | sed 's#^/##; s#/#_#g')"
}
export -f one; export HERE TMP TIER
ls -d seeded/C*-m* | xargs -P ${JOBS:-4} -I{} bash -c 'one {}'
echo -e "mutant\tproperty\ttier\trc\tviolations\tfirst" > $OUT
cat $TMP/*.tsv | sort >> $OUT
rm -rf $TMP; git -C /repo worktree prune
echo "caught: $(awk -F'\t' 'NR>1 && $4==1 {print $1}' $OUT | sort -u | wc -l) of $(ls -d seeded/C*-m* | wc -l)"
