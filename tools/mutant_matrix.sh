#!/bin/bash
# Runs every seeded change against the quick check of its property (and listed extras) in a scratch
# worktree of /repo (VERIF_REPO), never touching /repo's working tree.  Output: seeded/RESULTS.tsv
HERE="$(cd "$(dirname "$0")/.." && pwd)"
cd "$HERE"
WT=/tmp/mm_wt_$$
OUT=$HERE/seeded/RESULTS.tsv
echo -e "mutant\tproperty\ttier\trc\tviolations\tfirst" > $OUT
for d in seeded/C*-m*; do
  id=$(basename $d); prop=${id%-*}
  extra=""
  case $id in C05-m1) extra="C06";; C08-m1) extra="C19";; C10-m1) extra="C03";; C08-m2) extra="C13";; C15-m2) extra="C14";; esac
  git -C /repo worktree remove --force $WT 2>/dev/null
  git -C /repo worktree add -q --detach $WT HEAD || { echo "worktree failed"; exit 2; }
  if ! git -C $WT apply $HERE/$d/patch.diff; then echo -e "$id\t$prop\t-\tNA\t0\tpatch does not apply" >> $OUT; continue; fi
  for p in $prop $extra; do
    VERIF_REPO=$WT VERIF_NOCACHE=1 ./check $p --tier ${TIER:-quick} > /tmp/mm_$$.log 2>&1; rc=$?
    n=$(grep -c '^VIOLATION' /tmp/mm_$$.log)
    first=$(grep -m1 -A1 '^VIOLATION' /tmp/mm_$$.log | tail -1 | cut -c1-160 | tr '\t' ' ')
    echo -e "$id\t$p\t${TIER:-quick}\t$rc\t$n\t$first" >> $OUT
  done
done
git -C /repo worktree remove --force $WT 2>/dev/null
echo done
