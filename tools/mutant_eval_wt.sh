#!/bin/bash
# mutant_eval_wt.sh <patch-dir> <label> <property>... : evaluate a change in a scratch worktree (VERIF_REPO), /repo untouched
SRC=$1; LABEL=$2; shift 2
HERE="$(cd "$(dirname "$0")/.." && pwd)"
WT=/tmp/mev_wt_$$
git -C /repo worktree remove --force $WT 2>/dev/null
git -C /repo worktree add -q --detach $WT HEAD || exit 2
git -C $WT apply $SRC/patch.diff || { echo "MUTANT $LABEL: patch does not apply"; git -C /repo worktree remove --force $WT; exit 2; }
for prop in "$@"; do
  VERIF_REPO=$WT $HERE/check $prop --tier ${TIER:-quick} > /tmp/mev_${LABEL}_$prop.log 2>&1; rc=$?
  echo "MUTANT $LABEL check $prop rc=$rc : $(grep -c '^VIOLATION' /tmp/mev_${LABEL}_$prop.log) violations; $(grep -m1 -A1 '^VIOLATION' /tmp/mev_${LABEL}_$prop.log | tail -1 | cut -c1-260)"
done
git -C /repo worktree remove --force $WT
rm -rf "$HERE/.work/other-tree/$(echo $WT | sed 's#^/##; s#/#_#g')"
