"""Builds seeded/RESULTS.tsv from the logs of individual evaluations (tools/mutant_eval_wt.sh writes
/tmp/mev_<label>_<property>.log); label r2-Cxx-mK = seeded Cxx-m(K+2), r3-Cxx-mK = Cxx-m(K+4), s-Cxx-mN = Cxx-mN.
Rows already in RESULTS.tsv are kept unless a newer log exists."""
import glob
import os
import re
import time

HERE = os.path.dirname(os.path.dirname(os.path.abspath(__file__)))
out = os.path.join(HERE, "seeded", "RESULTS.tsv")
rows = {}
if os.path.exists(out):
    for line in open(out).read().split("\n")[1:]:
        f = line.split("\t")
        if len(f) >= 6:
            rows[(f[0], f[1])] = f
for path in sorted(glob.glob("/tmp/mev_*.log"), key=os.path.getmtime):
    m = re.match(r"mev_(r2|r3|s)-(C\d\d)-m(\d)_(C\d\d)\.log", os.path.basename(path))
    if not m:
        continue
    rnd, pid, k, prop = m.group(1), m.group(2), int(m.group(3)), m.group(4)
    k += {"r2": 2, "r3": 4, "s": 0}[rnd]
    txt = open(path, errors="replace").read()
    viol = len(re.findall(r"^VIOLATION", txt, re.M))
    mach = "MACHINERY-FAILURE" in txt
    first = ""
    mm = re.search(r"^VIOLATION[^\n]*\n([^\n]*)", txt, re.M)
    if mm:
        first = mm.group(1).strip()[:160].replace("\t", " ")
    rc = "2" if mach else ("1" if viol else "0")
    rows[(f"{pid}-m{k}", prop)] = [f"{pid}-m{k}", prop, "quick", rc, str(viol), first,
                                   time.strftime("%Y-%m-%d %H:%M", time.gmtime(os.path.getmtime(path)))]
with open(out, "w") as fh:
    fh.write("mutant\tproperty\ttier\trc\tviolations\tfirst\tevaluated_utc\n")
    for key in sorted(rows):
        fh.write("\t".join(rows[key]) + "\n")
caught = {k[0] for k, v in rows.items() if v[3] == "1"}
allm = {k[0] for k in rows}
print(len(allm), "mutants with a row;", len(caught), "caught by at least one listed check; not caught:",
      sorted(allm - caught))
