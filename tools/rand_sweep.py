"""Sweep of the randomized driver over many seeds: prints every recorded candidate that no known
finding explains (development aid; the registered checks run the driver themselves).
usage: python tools/rand_sweep.py <first seed> <last seed> [worlds] [programs] [jobs]"""
import json
import os
import subprocess
import sys
from concurrent.futures import ThreadPoolExecutor

HERE = os.path.dirname(os.path.dirname(os.path.abspath(__file__)))
sys.path.insert(0, HERE)
os.environ.setdefault("PYTHONPATH", f"{HERE}:/repo/pulser-core:/repo/pulser-simulation")
sys.path[:0] = ["/repo/pulser-core", "/repo/pulser-simulation"]
from harness import findings, seqcheck  # noqa: E402

a, b = int(sys.argv[1]), int(sys.argv[2])
nw = int(sys.argv[3]) if len(sys.argv) > 3 else 6
pw = int(sys.argv[4]) if len(sys.argv) > 4 else 25
jobs = int(sys.argv[5]) if len(sys.argv) > 5 else 5
work = os.path.join(HERE, ".work", "sweep")
os.makedirs(work, exist_ok=True)
known = findings.load()


def one(sd):
    out = os.path.join(work, f"r{sd}.json")
    pr = subprocess.run(["/venv/bin/python", "-m", "harness.randdriver", str(sd), str(nw), str(pw), out], cwd=HERE,
                        capture_output=True, text=True, env=dict(os.environ, MPLBACKEND="Agg"))
    if pr.returncode != 0:
        return sd, None, pr.stdout[-800:] + pr.stderr[-800:]
    return sd, json.load(open(out)), ""


tot = {"traces": 0, "lines": 0}
unmatched = {}
with ThreadPoolExecutor(jobs) as ex:
    for sd, d, err in ex.map(one, range(a, b + 1)):
        if d is None:
            print("seed", sd, "FAILED", err)
            continue
        if d["summary"]["errors"]:
            print("seed", sd, "TLC errors", d["summary"]["errors"][:1])
        tot["traces"] += d["summary"]["traces"]
        tot["lines"] += d["summary"]["lines"]
        nd = sum(1 for r in d["reports"] if r["drift"])
        for rr in d["reports"]:
            for pred in rr["v"]:
                c = rr["call"] or {}
                sig = {"pred": pred, "out": rr["out"]}
                sig.update({k: v for k, v in c.items() if isinstance(v, (str, int, bool))})
                ce = seqcheck._chan_empty(rr)
                if ce is not None:
                    sig["chan_empty_before"] = ce
                sig.update(seqcheck._change_features(rr))
                if findings.match(pred[:3], sig, known) is None:
                    key = (pred, c.get("op"), rr["out"], sig.get("changed"), sig.get("appended"))
                    unmatched.setdefault(key, []).append((rr["origin"], rr["line"]))
            if rr["drift"]:
                key = ("DRIFT", (rr["call"] or {}).get("op"), rr["out"], rr.get("model_out"), None)
                unmatched.setdefault(key, []).append((rr["origin"], rr["line"]))
        print("seed", sd, d["summary"]["traces"], "traces", d["summary"]["lines"], "lines", nd, "drift lines",
              d["summary"]["prefix_ended_by"], flush=True)
print(tot)
for k, v in sorted(unmatched.items(), key=lambda kv: -len(kv[1])):
    print(len(v), k, v[:3])
