#!/bin/bash
# confirm_mutant.sh <dir with patch.diff demo.py meta.json> <seeded-id>
# Confirms in a scratch worktree: demo passes on clean tree, fails with patch, test-suite passes with patch.
# On success copies the mutant to /verif/seeded/<seeded-id>/ with the confirmation record.
set -u
SRC=$1; ID=$2
WT=/tmp/confirm_$ID
git -C /repo worktree remove --force $WT 2>/dev/null
git -C /repo worktree add -q --detach $WT HEAD || exit 2
run() { ( cd $WT && PYTHONPATH=$WT/pulser-core:$WT/pulser-simulation MPLBACKEND=Agg timeout 600 /venv/bin/python "$@" ); }
run $SRC/demo.py > /tmp/confirm_$ID.clean.log 2>&1; RC_CLEAN=$?
git -C $WT apply $SRC/patch.diff || { echo "$ID: patch does not apply"; git -C /repo worktree remove --force $WT; exit 1; }
run $SRC/demo.py > /tmp/confirm_$ID.mut.log 2>&1; RC_MUT=$?
( cd $WT && PYTHONPATH=$WT/pulser-core:$WT/pulser-simulation /venv/bin/python -m pytest tests -q -p no:cacheprovider -n 6 2>&1 | tail -1 ) > /tmp/confirm_$ID.tests.log
if grep -q failed /tmp/confirm_$ID.tests.log; then ( cd $WT && PYTHONPATH=$WT/pulser-core:$WT/pulser-simulation /venv/bin/python -m pytest tests -q -p no:cacheprovider -n 3 2>&1 | tail -1 ) > /tmp/confirm_$ID.tests.log; fi
TESTS=$(cat /tmp/confirm_$ID.tests.log)
git -C /repo worktree remove --force $WT
echo "$ID: demo clean rc=$RC_CLEAN, demo mutant rc=$RC_MUT, tests: $TESTS"
if [ $RC_CLEAN -eq 0 ] && [ $RC_MUT -ne 0 ] && echo "$TESTS" | grep -q "passed" && ! echo "$TESTS" | grep -q "failed"; then
  mkdir -p /verif/seeded/$ID
  cp $SRC/patch.diff $SRC/demo.py /verif/seeded/$ID/
  python3 - "$SRC/meta.json" "/verif/seeded/$ID/meta.json" "$RC_CLEAN" "$RC_MUT" "$TESTS" <<'PY'
import json,sys
m=json.load(open(sys.argv[1]))
m["confirmed"]={"demo_on_clean_tree_rc":int(sys.argv[3]),"demo_with_patch_rc":int(sys.argv[4]),"test_suite_with_patch":sys.argv[5],
  "how":"tools/confirm_mutant.sh: scratch worktree of /repo HEAD; demo.py run before and after `git apply patch.diff`; tests/ run against the patched worktree (PYTHONPATH at the worktree)"}
json.dump(m,open(sys.argv[2],"w"),indent=1)
PY
  echo "$ID: CONFIRMED"
else
  echo "$ID: NOT CONFIRMED"
fi
