----------------------------- MODULE PulserSeqMC -----------------------------
(***************************************************************************)
(* Bounded exploration of PulserSeq: every sequence of at most MaxDepth    *)
(* calls of the lattice Calls from the state reached by InitCalls, on      *)
(* every device of Devs.  The history makes the state graph a tree; every  *)
(* state is printed once (history, observable projection, violated         *)
(* predicates) so that the harness can replay it on the implementation.    *)
(***************************************************************************)
EXTENDS PulserRender, Json

CONSTANT NAssign   \* number of variable assignments of a template configuration (0 = none)
CONSTANT InitDevs  \* devices on which behaviours start (the others are only switch targets)

Init ==
  /\ \E d \in InitDevs : s = ReplayFrom(Init0(d), InitCalls, 1)
  /\ hist = <<>>
  /\ viol = {}

(* how a successful call is recorded by the implementation: "L" in _calls, "S" in      *)
(* _to_build_calls, "LS" = declare_channel of a parametrized sequence with an initial  *)
(* target (declaration logged without it, target() stored), "N" = not recorded         *)
RecMode(st, c, r) ==
  IF r.out # "ok" \/ c.op \in {"est", "getdur"} THEN "N"
  ELSE IF c.op = "declare" /\ ~r.st.bld /\ c.it # 0 /\ DevOf(st).chs[c.cid].addr = "L" THEN "LS"
  ELSE IF c.op \in {"declare", "magfield"} THEN "L"
  ELSE IF ~r.st.bld THEN "S"
  ELSE "L"

Next ==
  /\ Len(hist) < MaxDepth
  /\ \E k \in 1..Len(Calls) :
       LET c == Calls[k]
           r == Step(s, c)
       IN /\ s' = r.st
          /\ hist' = Append(hist, <<k, r.out, r.ret, RecMode(s, c, r)>>)
          /\ viol' = Viol(s, c, r, hist)

(* Sequence.build with the variable assignment number a: a new sequence replays _calls, then the stored calls *)
(* with their arguments evaluated (alt[a] of a parametrized call record)                *)
Concrete(c, a) == IF IsPar(c) THEN c.alt[a] ELSE c
BuildResult(h, d, a) ==
  LET st0 == ReplayFrom(Init0(d), InitCalls, 1)
      P1 == SelectSeq(h, LAMBDA e : e[4] \in {"L", "LS"})
      P2 == SelectSeq(h, LAMBDA e : e[4] \in {"S", "LS"})
      Call1(e) == IF e[4] = "LS" THEN [Calls[e[1]] EXCEPT !.it = 0] ELSE Concrete(Calls[e[1]], a)
      Call2(e) == IF e[4] = "LS"
                  THEN [op |-> "target", nm |-> Calls[e[1]].nm, tg |-> Calls[e[1]].it]
                  ELSE Concrete(Calls[e[1]], a)
      RECURSIVE run(_, _, _, _)
      run(st, es, k, first) ==
        IF k > Len(es) THEN Ok(st)
        ELSE LET r == StepB(st, IF first THEN Call1(es[k]) ELSE Call2(es[k])) IN
             IF r.out # "ok" THEN r ELSE run(r.st, es, k + 1, first)
      r1 == run(st0, P1, 1, TRUE)
  IN IF r1.out # "ok" THEN r1 ELSE run(r1.st, P2, 1, FALSE)

Spec == Init /\ [][Next]_vars

(* observable projection: the state plus the reported durations *)
Obs(st) ==
  [st EXCEPT !.ch = [i \in 1..Len(st.ch) |->
      [nm |-> st.ch[i].nm, cid |-> st.ch[i].cid, sl |-> st.ch[i].sl, eb |-> st.ch[i].eb,
       wt |-> st.ch[i].wt, mp |-> st.ch[i].mp, wq |-> st.ch[i].wq,
       du |-> ChanDur(st.ch[i]), df |-> ChanDurFall(CfgOf(st, i), st.ch[i])]]]

Emit == PrintT("ST|" \o ToJson([h |-> hist, s |-> Obs(s), v |-> viol]))

(* the same with the result of build() for every assignment of the configuration (C08) *)
EmitB == PrintT("ST|" \o ToJson([h |-> hist, s |-> Obs(s), v |-> viol,
           b |-> [a \in 1..NAssign |->
                    LET r == BuildResult(hist, s.dev, a) IN [out |-> r.out, st |-> Obs(r.st)]]]))

(* Sequence.switch_device(non strict) to device k with the same channel layout: the recorded *)
(* calls replayed on device k (C18)                                                          *)
SwitchResult(h, k) ==
  LET st0 == ReplayFrom(Init0(k), InitCalls, 1)
      L == SelectSeq(h, LAMBDA e : e[4] = "L")
      RECURSIVE run(_, _)
      run(st, j) == IF j > Len(L) THEN Ok(st)
                    ELSE LET r == StepB(st, Calls[L[j][1]]) IN
                         IF r.out # "ok" THEN r ELSE run(r.st, j + 1)
  IN run(st0, 1)
EmitS == PrintT("ST|" \o ToJson([h |-> hist, s |-> Obs(s), v |-> viol,
           sw |-> [k \in 1..Len(Devs) |->
                     IF k \in InitDevs THEN [out |-> "same", st |-> <<>>]
                     ELSE LET r == SwitchResult(hist, k) IN [out |-> r.out, st |-> Obs(r.st)]]]))

(* the same with the reference rendering of the state (C06 / C05 / C14) *)
EmitR == PrintT("ST|" \o ToJson([h |-> hist, s |-> Obs(s), v |-> viol, r |-> Render(s)]))
RenderInv == RenderWellFormed(s)

(* state invariants that TLC itself enforces on the mirrored model *)
TilingInv == Tiling(s)
TypeOK ==
  /\ s.mode \in {"none", "ising", "xy"}
  /\ \A i \in 1..Len(s.ch) : s.ch[i].cid \in 1..Len(DevOf(s).chs)
=============================================================================
