----------------------------- MODULE PulserSeqMC -----------------------------
(***************************************************************************)
(* Bounded exploration of PulserSeq: every sequence of at most MaxDepth    *)
(* calls of the lattice Calls from the state reached by InitCalls, on      *)
(* every device of Devs.  The history makes the state graph a tree; every  *)
(* state is printed once (history, observable projection, violated         *)
(* predicates) so that the harness can replay it on the implementation.    *)
(***************************************************************************)
EXTENDS PulserRender, Json

Init ==
  /\ \E d \in 1..Len(Devs) : s = ReplayFrom(Init0(d), InitCalls, 1)
  /\ hist = <<>>
  /\ viol = {}

Next ==
  /\ Len(hist) < MaxDepth
  /\ \E k \in 1..Len(Calls) :
       LET c == Calls[k]
           r == Step(s, c)
       IN /\ s' = r.st
          /\ hist' = Append(hist, <<k, r.out, r.ret>>)
          /\ viol' = Viol(s, c, r, hist)

Spec == Init /\ [][Next]_vars

(* observable projection: the state plus the reported durations *)
Obs(st) ==
  [st EXCEPT !.ch = [i \in 1..Len(st.ch) |->
      [nm |-> st.ch[i].nm, cid |-> st.ch[i].cid, sl |-> st.ch[i].sl, eb |-> st.ch[i].eb,
       wt |-> st.ch[i].wt, mp |-> st.ch[i].mp, wq |-> st.ch[i].wq,
       du |-> ChanDur(st.ch[i]), df |-> ChanDurFall(CfgOf(st, i), st.ch[i])]]]

Emit == PrintT("ST|" \o ToJson([h |-> hist, s |-> Obs(s), v |-> viol]))

(* the same with the reference rendering of the state (C06 / C05 / C14) *)
EmitR == PrintT("ST|" \o ToJson([h |-> hist, s |-> Obs(s), v |-> viol, r |-> Render(s)]))
RenderInv == RenderWellFormed(s)

(* state invariants that TLC itself enforces on the mirrored model *)
TilingInv == Tiling(s)
TypeOK ==
  /\ s.mode \in {"none", "ising", "xy"}
  /\ \A i \in 1..Len(s.ch) : s.ch[i].cid \in 1..Len(DevOf(s).chs)
=============================================================================
