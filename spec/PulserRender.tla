---------------------------- MODULE PulserRender ----------------------------
(***************************************************************************)
(* C06 / C05 / C14(b): the reference rendering of a schedule.              *)
(* For a state of PulserSeq this module says, declaratively,               *)
(*   - per channel: how long the sample arrays are and, for every ns,      *)
(*     which pulse slot is being played (0 = nothing: zero amplitude and   *)
(*     detuning), as maximal segments <<from, to, slot, phaseSlot>>;       *)
(*     phaseSlot is the slot whose phase the phase array must show (only   *)
(*     real pulses; the statement leaves the phase elsewhere open);        *)
(*   - what an extension pads with (the off-detuning while the channel is  *)
(*     still in EOM mode, else zero);                                      *)
(*   - per addressing bucket, basis and atom: which (channel, slot, time   *)
(*     interval, detuning weight) contribute to what the atom sees         *)
(*     (SequenceSamples.to_nested_dict, the input of the emulator).        *)
(* The harness substitutes the samples of the pulse objects and compares   *)
(* with pulser.sampler.sample at every nanosecond.                         *)
(***************************************************************************)
EXTENDS PulserProps

RECURSIVE SortedSeq(_)
SortedSeq(S) ==
  IF S = {} THEN <<>>
  ELSE LET m == CHOOSE x \in S : \A y \in S : x <= y IN <<m>> \o SortedSeq(S \ {m})

PulsesAt(c, t) == {k \in 1..Len(c.sl) : c.sl[k].k = "p" /\ c.sl[k].ti <= t /\ t < c.sl[k].tf}
PulseAt(c, t) == IF PulsesAt(c, t) = {} THEN 0 ELSE CHOOSE k \in PulsesAt(c, t) : TRUE
RealPulseAt(c, t) ==
  LET k == PulseAt(c, t) IN IF k # 0 /\ ~c.sl[k].dd THEN k ELSE 0

Bounds(c) ==
  {0, ChanDur(c)} \cup {t \in UNION {{c.sl[k].ti, c.sl[k].tf} : k \in 1..Len(c.sl)} :
                          t >= 0 /\ t <= ChanDur(c)}

ChanRender(st, i) ==
  LET c == st.ch[i]
      B == SortedSeq(Bounds(c))
  IN [len |-> ChanDur(c),
      segs |-> [j \in 1..(Len(B) - 1) |-> <<B[j], B[j + 1], PulseAt(c, B[j]), RealPulseAt(c, B[j])>>],
      padDet |-> IF InEom(c) THEN LastOf(c.eb).doff ELSE 0]

(* law of the reference: a channel plays at most one pulse at a time and the source *)
(* is constant inside every emitted segment                                         *)
RenderWellFormed(st) ==
  \A i \in 1..Len(st.ch) :
    LET c == st.ch[i] IN
    /\ \A t \in 0..(ChanDur(c) - 1) : Cardinality(PulsesAt(c, t)) <= 1
    /\ LET B == SortedSeq(Bounds(c)) IN
       \A j \in 1..(Len(B) - 1) : \A t \in B[j]..(B[j + 1] - 1) : PulseAt(c, t) = PulseAt(c, B[j])

(* end of the SLM mask as far as the per-atom view is concerned (only used in XY mode) *)
MaskEnd(st) ==
  IF st.mode = "xy" /\ st.slmTg # 0 /\ SlmTimes(st) # <<>> THEN SlmTimes(st)[2] ELSE 0

Qubits(st) == 1..NQ(st)
PulseSlots(c) == {k \in 1..Len(c.sl) : c.sl[k].k = "p"}

(* contributions <<bucket, basis, atom (0 = the global bucket), channel, slot, from, to, *)
(* detuning weight in halves>>                                                           *)
Contribs(st, allLocal) ==
  UNION {
    LET c == st.ch[i]
        cfg == CfgOf(st, i)
        b == cfg.basis
        me == IF b = "XY" THEN MaskEnd(st) ELSE 0
        masked(q) == b = "XY" /\ HasBit(st.slmTg, q)
    IN
    IF cfg.addr = "G" /\ ~allLocal /\ cfg.kind # "dmm"
    THEN {<<"G", b, 0, i, k, Max2(c.sl[k].ti, me), c.sl[k].tf, 2>> :
             k \in {x \in PulseSlots(c) : Max2(c.sl[x].ti, me) < c.sl[x].tf}}
         \cup
         {<<"L", b, q, i, k, c.sl[k].ti, Min2(c.sl[k].tf, me), 2>> :
             q \in {y \in Qubits(st) : ~masked(y)},
             k \in {x \in PulseSlots(c) : c.sl[x].ti < me}}
    ELSE UNION {
           LET from(k) == IF masked(q) THEN Max2(c.sl[k].ti, me) ELSE c.sl[k].ti IN
           {<<"L", b, q, i, k, from(k), c.sl[k].tf, IF cfg.kind = "dmm" THEN c.wq[q] ELSE 2>> :
              k \in {x \in PulseSlots(c) : HasBit(c.sl[x].tg, q) /\ from(x) < c.sl[x].tf}}
           : q \in Qubits(st)}
    : i \in 1..Len(st.ch)}

Render(st) ==
  [ch |-> [i \in 1..Len(st.ch) |-> ChanRender(st, i)],
   maskEnd |-> MaskEnd(st),
   glob |-> Contribs(st, FALSE),
   loc |-> Contribs(st, TRUE)]
=============================================================================
