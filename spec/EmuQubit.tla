------------------------------- MODULE EmuQubit ------------------------------
(***************************************************************************)
(* C11 (physical clauses): exact dynamics of ISOLATED two-level atoms at   *)
(* Clifford points, derived from the documented driving Hamiltonian        *)
(* (docs/source/conventions.md)                                            *)
(*                                                                         *)
(*   H/hbar = Omega/2 (e^{-i phi}|a><b| + e^{i phi}|b><a|) - delta |b><b|  *)
(*                                                                         *)
(* With |0> := |a>, |1> := |b> and the standard Pauli matrices this is     *)
(*   H = Omega/2 (cos(phi) X + sin(phi) Y) + delta/2 Z  (+ a constant),    *)
(* i.e. the Bloch vector (<X>,<Y>,<Z>) turns right-handedly about the      *)
(* axis (Omega cos phi, Omega sin phi, delta); |a> is the north pole.      *)
(* Hence                                                                   *)
(*   - a resonant constant pulse of area k*pi/2 and phase j*pi/2 is the    *)
(*     rotation by k*90 degrees about +x, +y, -x, -y (j = 0,1,2,3): the    *)
(*     analytic Rabi oscillation sampled at quarter periods;               *)
(*   - an idle period with constant detuning and delta*t = m*pi/2 is the   *)
(*     rotation by m*90 degrees about +z;                                  *)
(*   - an all-zero drive (a delay, or a pulse with zero amplitude and zero *)
(*     detuning) leaves the state unchanged.                               *)
(* Bloch vectors stay in the 6 stabiliser states, coordinates are integers *)
(* and the population of |b> is (1 - z)/2 in {0, 1/2, 1}.                  *)
(*                                                                         *)
(* Which level is |b>: the documentation fixes |b> = (1,0)^T in every basis *)
(* and lists r = (1,0) in ground-rydberg, g = (1,0) in digital, |0> = u =   *)
(* (1,0) in XY.  Hence  ground-rydberg a=g b=r,  digital a=h b=g,  XY a=d   *)
(* b=u.  The initial state is g / g / u, i.e. |a> in ground-rydberg and     *)
(* |b> in digital and XY; the state measured as 1 is r (= b), h (= a),      *)
(* d (= a).                                                                 *)
(*                                                                         *)
(* The register has NAtoms isolated atoms; an operation addresses all      *)
(* atoms (target 0, global channel) or a single atom (target i, local      *)
(* channel; not in XY, which only has a global channel).  TLC explores     *)
(* every program up to Depth operations, checks the laws of the reference  *)
(* (group laws of the rotations, physicality) in every state and prints,   *)
(* for every program, the expected probability of reading 1 on each atom   *)
(* as twice its value (0, 1, 2).  The harness runs every printed program   *)
(* on QutipEmulator and QutipBackendV2.                                    *)
(***************************************************************************)
EXTENDS Integers, Sequences, FiniteSets, TLC, Json

CONSTANTS Bases,     \* subset of {"ground-rydberg", "digital", "XY"}
          NAtomsSet, \* e.g. {1, 2}
          Depth,     \* maximal number of operations
          Quarter,   \* areas k (in units of pi/2) of resonant pulses, e.g. {1, 2, 3}
          Phases,    \* phases j (in units of pi/2), e.g. {0, 1, 2, 3}
          Detuned,   \* m (in units of pi/2, may be negative) of detuned idle periods, e.g. {-1, 1, 2}
          FullDepth, \* programs of at most FullDepth operations are all printed ...
          SelMod,    \* ... longer ones are printed when Hash(ops) % SelMod = SelRes (all are checked by TLC)
          SelRes
VARIABLES basis, n, ops, vec

vars == <<basis, n, ops, vec>>

(* right-handed rotation by 90 degrees about the axes *)
Rx(v) == << v[1], -v[3],  v[2] >>
Ry(v) == << v[3],  v[2], -v[1] >>
Rz(v) == << -v[2], v[1],  v[3] >>

Mod4(k) == ((k % 4) + 4) % 4
RotX(k, v) == CASE Mod4(k) = 0 -> v [] Mod4(k) = 1 -> Rx(v) [] Mod4(k) = 2 -> Rx(Rx(v)) [] Mod4(k) = 3 -> Rx(Rx(Rx(v)))
RotY(k, v) == CASE Mod4(k) = 0 -> v [] Mod4(k) = 1 -> Ry(v) [] Mod4(k) = 2 -> Ry(Ry(v)) [] Mod4(k) = 3 -> Ry(Ry(Ry(v)))
RotZ(k, v) == CASE Mod4(k) = 0 -> v [] Mod4(k) = 1 -> Rz(v) [] Mod4(k) = 2 -> Rz(Rz(v)) [] Mod4(k) = 3 -> Rz(Rz(Rz(v)))

(* resonant pulse: area k*pi/2, phase j*pi/2 *)
PulseRot(k, j, v) ==
  CASE Mod4(j) = 0 -> RotX(k, v)
    [] Mod4(j) = 1 -> RotY(k, v)
    [] Mod4(j) = 2 -> RotX(-k, v)
    [] Mod4(j) = 3 -> RotY(-k, v)

(* an operation: <<kind, k, j, target>>; kind "P" pulse, "D" detuned idle (k = m), "W" zero drive *)
Apply(op, v) ==
  CASE op[1] = "P" -> PulseRot(op[2], op[3], v)
    [] op[1] = "D" -> RotZ(op[2], v)
    [] op[1] = "W" -> v

North == <<0, 0, 1>>       \* |a>
South == <<0, 0, -1>>      \* |b>
StartsInB(b) == b \in {"XY", "digital"}
InitVec(b) == IF StartsInB(b) THEN South ELSE North

Targets(b, k) == IF b = "XY" \/ k = 1 THEN {0} ELSE 0..k
OpsFor(b, k) ==
  {<<"P", a, j, t>> : a \in Quarter, j \in Phases, t \in Targets(b, k)}
    \cup {<<"D", m, 0, t>> : m \in Detuned, t \in Targets(b, k)}
    \cup {<<"W", 0, 0, 0>>}

Init ==
  /\ basis \in Bases
  /\ n \in NAtomsSet
  /\ ops = << >>
  /\ vec = [i \in 1..n |-> InitVec(basis)]

Next ==
  /\ Len(ops) < Depth
  /\ \E op \in OpsFor(basis, n) :
       /\ ops' = Append(ops, op)
       /\ vec' = [i \in 1..n |-> IF op[4] = 0 \/ op[4] = i THEN Apply(op, vec[i]) ELSE vec[i]]
  /\ UNCHANGED <<basis, n>>

Spec == Init /\ [][Next]_vars

(* twice the probability of reading 1 on atom i *)
TwoP1(i) == IF StartsInB(basis) THEN 1 + vec[i][3] ELSE 1 - vec[i][3]     \* one = |a> there, |b> in ground-rydberg

(* ------------------------- laws of the reference ------------------------- *)
Stab == {<<1,0,0>>, <<-1,0,0>>, <<0,1,0>>, <<0,-1,0>>, <<0,0,1>>, <<0,0,-1>>}
Physical == \A i \in 1..n : vec[i] \in Stab /\ TwoP1(i) \in {0, 1, 2}

(* group laws, checked on every reachable Bloch vector *)
FullTurn     == \A i \in 1..n : \A j \in Phases : PulseRot(4, j, vec[i]) = vec[i]
Additive     == \A i \in 1..n : \A j \in Phases : \A k1, k2 \in Quarter :
                   PulseRot(k1, j, PulseRot(k2, j, vec[i])) = PulseRot(k1 + k2, j, vec[i])
OppositePhase == \A i \in 1..n : \A j \in Phases : \A k \in Quarter :
                   PulseRot(k, j + 2, PulseRot(k, j, vec[i])) = vec[i]
(* a pulse with phase j*pi/2 is the phase-0 pulse conjugated by the z-rotation by j*90 degrees *)
PhaseIsFrame == \A i \in 1..n : \A j \in Phases : \A k \in Quarter :
                   PulseRot(k, j, vec[i]) = RotZ(j, PulseRot(k, 0, RotZ(-j, vec[i])))
(* quarter-period Rabi law from the poles: area k*pi/2 gives population sin^2(k*pi/4) whatever the phase *)
RabiFromPole == \A j \in Phases : \A k \in Quarter :
                   /\ 1 - PulseRot(k, j, North)[3] = (CASE Mod4(k) = 0 -> 0 [] Mod4(k) = 2 -> 2 [] OTHER -> 1)
                   /\ 1 + PulseRot(k, j, South)[3] = (CASE Mod4(k) = 0 -> 0 [] Mod4(k) = 2 -> 2 [] OTHER -> 1)
(* detuning alone never changes a population *)
DetuningKeepsPopulation == \A i \in 1..n : \A m \in Detuned : RotZ(m, vec[i])[3] = vec[i][3]

OpCode(op) == (CASE op[1] = "P" -> 1 [] op[1] = "D" -> 2 [] op[1] = "W" -> 3) + 5 * Mod4(op[2]) + 23 * op[3] + 101 * op[4]
RECURSIVE HashFrom(_, _)
HashFrom(o, i) == IF i > Len(o) THEN 0 ELSE (2 * i + 1) * OpCode(o[i]) + HashFrom(o, i + 1)
Sel == Len(ops) <= FullDepth \/ (HashFrom(ops, 1) % SelMod) = SelRes

Emit ==
  Sel =>
    PrintT("PT|" \o ToJson([b |-> basis, n |-> n, ops |-> ops, p |-> [i \in 1..n |-> TwoP1(i)]]))
=============================================================================
