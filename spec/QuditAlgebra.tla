---------------------------- MODULE QuditAlgebra ----------------------------
(***************************************************************************)
(* C20, definitions only: exact reference semantics of the operator and    *)
(* state representations of pulser.backend and of the default observables. *)
(*                                                                         *)
(* Scalars are Gaussian integers <<re, im>>.  A context c = [d, n, s, ord] *)
(* fixes the qudit dimension, the number of qudits, s = d^n and the        *)
(* eigenstate                                                              *)
(* ORDER: ord is a sequence of distinct level names (integers); the level  *)
(* ord[i] is associated with the unit vector e_(i-1) ("for eigenstates     *)
(* (a, b, ...), a is associated to (1, 0, ...), b to (0, 1, ...)").        *)
(* A matrix is a function on 0..s*s-1 (entry (r, k) at r*s + k): TLC keeps *)
(* functions on integer intervals as arrays.                               *)
(* A basis state of the register is a sequence of n level names, qudit 0   *)
(* first; its index in the state vector is the base-d number whose most    *)
(* significant digit is the position of qudit 0's level (tensor order).    *)
(*                                                                         *)
(*   QuditOp  = sequence of <<ket level, bra level, coeff>>  (sum of       *)
(*              coeff |ket><bra|, keys distinct)                           *)
(*   TensorOp = sequence of <<QuditOp, set of qudit indices>>; qudits      *)
(*              without a QuditOp get the identity                         *)
(*   FullOp   = sequence of <<coeff, TensorOp>> (weighted sum)             *)
(*   amps     = sequence of <<basis state, coeff>>                         *)
(*   state    = [kind: "ket"|"dm", comps: sequence of <<weight, amps>>]    *)
(*              un-normalised R = sum_m weight_m |psi_m><psi_m|; the       *)
(*              physical state is R / Tr R                                 *)
(***************************************************************************)
EXTENDS Integers, Sequences, FiniteSets, TLC

(* TLC evaluates function constructors lazily (every application re-evaluates the body);
   Ev forces a value once, which keeps nested matrix expressions polynomial. *)
Ev(v) == TLCEval(v)

Z0 == <<0, 0>>
G1 == <<1, 0>>
GAdd(a, b) == <<a[1] + b[1], a[2] + b[2]>>
GMul(a, b) == <<(a[1] * b[1]) - (a[2] * b[2]), (a[1] * b[2]) + (a[2] * b[1])>>
GConj(a) == <<a[1], 0 - a[2]>>
GInt(k) == <<k, 0>>
GNorm2(a) == (a[1] * a[1]) + (a[2] * a[2])

RECURSIVE Pow(_, _)
Pow(b, e) == IF e = 0 THEN 1 ELSE b * Pow(b, e - 1)

RECURSIVE GSumSeq(_)
GSumSeq(s) == IF s = <<>> THEN Z0 ELSE GAdd(Head(s), GSumSeq(Tail(s)))
RECURSIVE GSumR(_, _, _)                    \* f[lo] + ... + f[hi], recursion depth log(hi - lo)
GSumR(f, lo, hi) ==
  IF lo > hi THEN Z0
  ELSE IF lo = hi THEN f[lo]
  ELSE LET mid == (lo + hi) \div 2 IN GAdd(GSumR(f, lo, mid), GSumR(f, mid + 1, hi))
GSumTo(f, n) == GSumR(f, 0, n)              \* f[0] + ... + f[n]
RECURSIVE GProdTo(_, _)                     \* f[0] * ... * f[n]
GProdTo(f, n) == IF n < 0 THEN G1 ELSE GMul(f[n], GProdTo(f, n - 1))
RECURSIVE ISumR(_, _, _)
ISumR(f, lo, hi) ==
  IF lo > hi THEN 0
  ELSE IF lo = hi THEN f[lo]
  ELSE LET mid == (lo + hi) \div 2 IN ISumR(f, lo, mid) + ISumR(f, mid + 1, hi)
ISumTo(f, n) == ISumR(f, 0, n)

Size(c) == c.s                                \* = d^n, carried by the context
Idx(c) == 0..(c.s - 1)
Idx2(c) == 0..((c.s * c.s) - 1)               \* entry (r, k) of a matrix lives at r * s + k
Row(c, x) == x \div c.s
Col(c, x) == x % c.s
At(c, r, k) == (r * c.s) + k
Loc2(c) == 0..((c.d * c.d) - 1)               \* entry (a, b) of a single-qudit matrix at a * d + b
Digit(c, r, k) == (r \div Pow(c.d, c.n - 1 - k)) % c.d          \* qudit k of index r, k in 0..n-1
DigTab(c) == Ev([r \in Idx(c) |-> [k \in 0..(c.n - 1) |-> Digit(c, r, k)]])
Known(c, lvl) == \E i \in 1..c.d : c.ord[i] = lvl
PosOf(c, lvl) == (CHOOSE i \in 1..c.d : c.ord[i] = lvl) - 1
IndexOf(c, bs) == ISumTo([k \in 0..(c.n - 1) |-> PosOf(c, bs[k + 1]) * Pow(c.d, c.n - 1 - k)], c.n - 1)

(* ---------------- operators from their representation ---------------- *)
QMat(c, q) ==
  Ev([x \in Loc2(c) |->
     GSumSeq([m \in 1..Len(q) |->
        IF PosOf(c, q[m][1]) = (x \div c.d) /\ PosOf(c, q[m][2]) = (x % c.d) THEN q[m][3] ELSE Z0])])
IdMat(c) == Ev([x \in Loc2(c) |-> IF (x \div c.d) = (x % c.d) THEN G1 ELSE Z0])
Factors(c, t) ==
  Ev([k \in 0..(c.n - 1) |->
     IF \E m \in 1..Len(t) : k \in t[m][2]
     THEN QMat(c, t[CHOOSE m \in 1..Len(t) : k \in t[m][2]][1])
     ELSE IdMat(c)])
(* entry (r, s) of a tensor operator = product over the qudits of the local entries *)
TensorMat(c, t) ==
  LET F == Factors(c, t)
      dg == DigTab(c)
  IN Ev([x \in Idx2(c) |->
        GProdTo([k \in 0..(c.n - 1) |-> F[k][(dg[x \div c.s][k] * c.d) + dg[x % c.s][k]]], c.n - 1)])
OpMat(c, f) ==
  LET Ms == Ev([m \in 1..Len(f) |-> TensorMat(c, f[m][2])])
  IN Ev([x \in Idx2(c) |-> GSumSeq([m \in 1..Len(f) |-> GMul(f[m][1], Ms[m][x])])])

(* a representation is accepted iff every index is a qudit of the system, the qudit sets of
   one TensorOp are mutually exclusive and every key is made of two eigenstates *)
ValidTensor(c, t) ==
  /\ \A m \in 1..Len(t) : t[m][2] \subseteq 0..(c.n - 1)
  /\ \A m1, m2 \in 1..Len(t) : m1 # m2 => t[m1][2] \cap t[m2][2] = {}
  /\ \A m \in 1..Len(t) : \A j \in 1..Len(t[m][1]) : Known(c, t[m][1][j][1]) /\ Known(c, t[m][1][j][2])
ValidRep(c, f) == \A m \in 1..Len(f) : ValidTensor(c, f[m][2])

(* independent second definition: the Kronecker product of the local factors, qudit 0 leftmost *)
RECURSIVE KronTo(_, _, _)
KronTo(c, F, k) ==
  IF k = 0 THEN F[0]
  ELSE LET A == KronTo(c, F, k - 1)
           s == Pow(c.d, k + 1)
           sp == Pow(c.d, k)
       IN Ev([x \in 0..((s * s) - 1) |->
             LET r == x \div s  q == x % s
             IN GMul(A[((r \div c.d) * sp) + (q \div c.d)], F[k][((r % c.d) * c.d) + (q % c.d)])])

(* ---------------- matrix algebra ---------------- *)
MatAdd(c, A, B) == Ev([x \in Idx2(c) |-> GAdd(A[x], B[x])])
MatScale(c, g, A) == Ev([x \in Idx2(c) |-> GMul(g, A[x])])
MatMul(c, A, B) ==
  Ev([x \in Idx2(c) |->
        LET r == (x \div c.s) * c.s  q == x % c.s
        IN GSumTo([k \in Idx(c) |-> GMul(A[r + k], B[(k * c.s) + q])], c.s - 1)])
Dagger(c, A) == Ev([x \in Idx2(c) |-> GConj(A[((x % c.s) * c.s) + (x \div c.s)])])
Hermitian(c, A) == Dagger(c, A) = A
ApplyVec(c, A, v) == Ev([r \in Idx(c) |-> GSumTo([k \in Idx(c) |-> GMul(A[(r * c.s) + k], v[k])], c.s - 1)])
Outer(c, v) == Ev([x \in Idx2(c) |-> GMul(v[x \div c.s], GConj(v[x % c.s]))])
Trace(c, A) == GSumTo([r \in Idx(c) |-> A[(r * c.s) + r]], c.s - 1)
TrProd(c, A, B) ==                       \* Tr[A B]
  GSumTo([r \in Idx(c) |-> GSumTo([k \in Idx(c) |-> GMul(A[(r * c.s) + k], B[(k * c.s) + r])], c.s - 1)], c.s - 1)
Inner(c, u, v) == GSumTo([r \in Idx(c) |-> GMul(GConj(u[r]), v[r])], Size(c) - 1)
VNorm2(c, v) == Inner(c, v, v)[1]
VecAdd(c, u, v) == Ev([r \in Idx(c) |-> GAdd(u[r], v[r])])
VecScale(c, g, v) == Ev([r \in Idx(c) |-> GMul(g, v[r])])
ZeroMat(c) == Ev([x \in Idx2(c) |-> Z0])

(* ---------------- states from their amplitudes ---------------- *)
ValidAmps(c, amps) ==
  \A m \in 1..Len(amps) : Len(amps[m][1]) = c.n /\ \A k \in 1..c.n : Known(c, amps[m][1][k])
Vec(c, amps) ==
  LET ix == Ev([m \in 1..Len(amps) |-> IndexOf(c, amps[m][1])])
  IN Ev([r \in Idx(c) |-> GSumSeq([m \in 1..Len(amps) |-> IF ix[m] = r THEN amps[m][2] ELSE Z0])])
RECURSIVE RhoTo(_, _, _)
RhoTo(c, comps, m) ==
  IF m = 0 THEN ZeroMat(c)
  ELSE MatAdd(c, RhoTo(c, comps, m - 1), MatScale(c, GInt(comps[m][1]), Outer(c, Vec(c, comps[m][2]))))
Rho(c, st) == RhoTo(c, st.comps, Len(st.comps))

(* ---------------- observables (numerators over Tr R, computed by the caller) ---------------- *)
(* occupation of level `one` on qudit i: total weight of the basis states with qudit i in `one` *)
OccNum(c, R, one, i) ==
  LET dg == DigTab(c) p == PosOf(c, one)
  IN ISumTo([r \in Idx(c) |-> IF dg[r][i] = p THEN R[(r * c.s) + r][1] ELSE 0], Size(c) - 1)
CorrNum(c, R, one, i, j) ==
  LET dg == DigTab(c) p == PosOf(c, one)
  IN ISumTo([r \in Idx(c) |-> IF dg[r][i] = p /\ dg[r][j] = p THEN R[(r * c.s) + r][1] ELSE 0], Size(c) - 1)
(* measurement: qudit in `one` reads 1, anything else reads 0; bit pattern as a number, qudit 0 first *)
BitsTab(c, one) ==
  LET dg == DigTab(c) p == PosOf(c, one)
  IN Ev([r \in Idx(c) |->
          ISumTo([k \in 0..(c.n - 1) |-> IF dg[r][k] = p THEN Pow(2, c.n - 1 - k) ELSE 0], c.n - 1)])
BitNum(c, R, bt, b) ==                 \* bt = BitsTab(c, one)
  ISumTo([r \in Idx(c) |-> IF bt[r] = b THEN R[(r * c.s) + r][1] ELSE 0], Size(c) - 1)
(* second moment of H on sum_m w_m |psi_m><psi_m| without squaring H: sum_m w_m |H psi_m|^2 *)
RECURSIVE M2To(_, _, _, _)
M2To(c, H, comps, m) ==
  IF m = 0 THEN 0
  ELSE M2To(c, H, comps, m - 1) + (comps[m][1] * VNorm2(c, ApplyVec(c, H, Vec(c, comps[m][2]))))
M2Num(c, H, st) == M2To(c, H, st.comps, Len(st.comps))
(* <phi| R |phi> for an un-normalised pure phi *)
FidNum(c, R, phi) == Inner(c, phi, ApplyVec(c, R, phi))

Sparse(c, A) == {<<x \div c.s, x % c.s, A[x][1], A[x][2]>> : x \in {y \in Idx2(c) : A[y] # Z0}}
SparseVec(c, v) == {<<r, v[r][1], v[r][2]>> : r \in {x \in Idx(c) : v[x] # Z0}}
=============================================================================
