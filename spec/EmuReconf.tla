------------------------------ MODULE EmuReconf ------------------------------
(***************************************************************************)
(* C11, "... for the same sequence and configuration": the configuration   *)
(* of a legacy emulator is a VALUE.  QutipEmulator.set_config(cfg)         *)
(* replaces the whole configuration, so an emulator that was built with    *)
(* one noise configuration and then re-configured (once or several times)  *)
(* must produce the same states as a fresh emulator built with the last    *)
(* configuration: no parameter of an earlier configuration may survive.    *)
(*                                                                         *)
(* A configuration is a function from the noise parameters to a level      *)
(* 0 (off), 1, 2 (two different non-zero values, mapped to floats by the   *)
(* harness).  The state machine starts from a configuration with at most   *)
(* MaxOn parameters switched on and re-configures up to Depth times, each  *)
(* time changing EXACTLY ONE parameter (the hardest case for an            *)
(* implementation that caches what it derived from the old configuration). *)
(* Restrictions that make every configuration legal and deterministic:     *)
(*   relaxation needs the ground-rydberg transition ("gr", "all");         *)
(*   depolarizing is not defined on the 3-level basis ("all");             *)
(*   temperature (doppler shifts, random) may be on only in the INITIAL    *)
(*   configuration and the first re-configuration then switches it off.    *)
(* TLC enumerates every history, checks the frame laws and prints it; the  *)
(* harness replays it on one QutipEmulator and compares with a fresh one.  *)
(***************************************************************************)
EXTENDS Integers, Sequences, FiniteSets, TLC, Json

CONSTANTS Bases,    \* subset of {"gr", "dig", "all"}
          Depth,    \* number of re-configurations (1 or 2)
          MaxOn     \* parameters switched on in the initial configuration (0..MaxOn)
VARIABLES basis, hist

Params == {"dephasing_rate", "hyperfine_dephasing_rate", "relaxation_rate", "depolarizing_rate",
           "eff_noise_rate", "temperature"}
Levels == 0..2

Allowed(b, p) ==
  /\ (p = "relaxation_rate")   => b \in {"gr", "all"}
  /\ (p = "depolarizing_rate") => b \in {"gr", "dig"}

Legal(b, c) == \A p \in Params : (c[p] # 0) => Allowed(b, p)
On(c) == {p \in Params : c[p] # 0}
Diff(c1, c2) == {p \in Params : c1[p] # c2[p]}

Zero == [p \in Params |-> 0]
Initials(b) ==
  {c \in [Params -> {0, 1}] : Legal(b, c) /\ Cardinality(On(c)) <= MaxOn}

Init ==
  /\ basis \in Bases
  /\ \E c \in Initials(basis) : hist = <<c>>

Next ==
  /\ Len(hist) <= Depth
  /\ \E p \in Params, l \in Levels :
       LET old == hist[Len(hist)]
           new == [old EXCEPT ![p] = l]
       IN  /\ l # old[p]
           /\ Legal(basis, new)
           /\ new["temperature"] = 0           \* the result must be deterministic
           /\ hist' = Append(hist, new)
  /\ UNCHANGED basis

Spec == Init /\ [][Next]_<<basis, hist>>

(* the configuration in force: the LAST one, whatever came before *)
InForce == hist[Len(hist)]

(* ------------------------- laws of the reference ------------------------- *)
OneChangeAtATime == \A i \in 1..(Len(hist) - 1) : Cardinality(Diff(hist[i], hist[i + 1])) = 1
AlwaysLegal      == \A i \in 1..Len(hist) : Legal(basis, hist[i])
Deterministic    == (Len(hist) > 1) => (InForce["temperature"] = 0)
(* value semantics: two histories ending in the same configuration are indistinguishable; in particular *)
(* re-configuring back to the initial configuration is the identity                                      *)
BackIsIdentity   == (Len(hist) = 3 /\ hist[3] = hist[1]) => (InForce = hist[1])

Emit ==
  (Len(hist) > 1) =>
    PrintT("PT|" \o ToJson([b |-> basis, h |-> hist]))
=============================================================================
