------------------------------- MODULE EmuTimes ------------------------------
(***************************************************************************)
(* C11, "the legacy emulator and the V2 backend produce the same states    *)
(* for every sequence duration, idle period and choice of evaluation       *)
(* times".  Reference of WHICH states a run must hold, transcribed from    *)
(* the documentation of EmulationConfig / Observable (relative times in    *)
(* [0, 1], 0 = start and 1 = end of the sequence; an observable without    *)
(* evaluation times of its own uses the configuration's default times;     *)
(* "Full" = every step of the emulation is an evaluation time):            *)
(*                                                                         *)
(*   a point = (T ns, sampling rate 1/rd, default times D, times O of the  *)
(*              state observable, program shape sh)                        *)
(*   relative times are twelfths (k/12), so the absolute time of k/12 on a *)
(*   T ns sequence is k*T/12 ns: all times are printed as 12*ns integers.  *)
(*                                                                         *)
(* Required(p): the times at which the run must hold a state (its own      *)
(* times if the observable has some, else the default times; for "Full"    *)
(* and rate 1 every nanosecond 0..T, for "Full" and a lower rate at least  *)
(* start and end and MinCount states).  Every point of the lattice is a    *)
(* legal configuration (at least 5 emulation steps), so the run must       *)
(* return normally.  The harness runs QutipBackendV2 on every printed      *)
(* point, checks that a state is stored at every required time, and        *)
(* compares EVERY stored state with the state of the legacy QutipEmulator  *)
(* at the same absolute time.                                              *)
(***************************************************************************)
EXTENDS Integers, Sequences, FiniteSets, TLC, Json

CONSTANTS TAll,     \* durations combined with every (rd, D, O)
          TDiag,    \* durations combined with one (rd, D, O) each (a diagonal through the options)
          TDef,     \* durations run with the default configuration only (D = <<12>>, no own times, rate 1)
          Rates,    \* sequence of denominators rd (sampling rate 1/rd)
          DOpts,    \* sequence of default-time options: <<-1>> = "Full", else ascending twelfths
          OOpts     \* sequence of observable-time options: << >> = not specified, else ascending twelfths
VARIABLE pt

Full == <<-1>>
Range(s) == {s[i] : i \in 1..Len(s)}

(* the program: pulses (P) and idle periods (I) tiling 0..T, every piece at least 1 ns *)
Shape(T, sh) ==
  CASE sh = 0 -> << <<"P", T>> >>
    [] sh = 1 -> << <<"P", (T + 1) \div 2>>, <<"I", T - ((T + 1) \div 2)>> >>
    [] sh = 2 -> << <<"I", T \div 3>>, <<"P", T - (T \div 3)>> >>
    [] sh = 3 -> << <<"P", T \div 3>>, <<"I", T \div 3>>, <<"P", T - 2 * (T \div 3)>> >>

Legal(T, rd) == T >= 5 * rd            \* at least 5 emulation steps (the emulator refuses fewer than 4)

Point(T, ri, di, oi) ==
  [T |-> T, rd |-> Rates[ri], D |-> DOpts[di], O |-> OOpts[oi],
   sh |-> (T + ri + 2 * di + 3 * oi) % 4,           \* shape, basis and atom number rotate with the point
   bs |-> (T + di + oi) % 3, n |-> 1 + (((T \div 2) + di) % 2)]

NCombos == Len(Rates) * Len(DOpts) * Len(OOpts)
Combo(k) ==    \* k in 0..NCombos-1 -> <<ri, di, oi>>
  << (k % Len(Rates)) + 1,
     ((k \div Len(Rates)) % Len(DOpts)) + 1,
     (k \div (Len(Rates) * Len(DOpts))) + 1 >>

DefaultIdx(S, v) == CHOOSE i \in 1..Len(S) : S[i] = v

(* two levels (an initial state per duration, its successors are the points) so that TLC's workers share the work *)
Init == \E T \in (TAll \cup TDiag \cup TDef) : pt = [T |-> T, root |-> TRUE]
Next ==
  /\ pt.root
  /\ \/ /\ pt.T \in TAll
        /\ \E ri \in 1..Len(Rates), di \in 1..Len(DOpts), oi \in 1..Len(OOpts) :
             /\ Legal(pt.T, Rates[ri])
             /\ pt' = Point(pt.T, ri, di, oi) @@ [root |-> FALSE]
     \/ /\ pt.T \in TDiag
        /\ LET c == Combo(pt.T % NCombos) IN
             /\ Legal(pt.T, Rates[c[1]])
             /\ pt' = Point(pt.T, c[1], c[2], c[3]) @@ [root |-> FALSE]
     \/ /\ pt.T \in TDef
        /\ Legal(pt.T, 1)
        /\ pt' = Point(pt.T, DefaultIdx(Rates, 1), DefaultIdx(DOpts, <<12>>), DefaultIdx(OOpts, << >>))
                   @@ [root |-> FALSE]
Spec == Init /\ [][Next]_pt
IsPoint == ~pt.root

(* ------------------------------ the reference ---------------------------- *)
OwnTimes(p) == IF p.O # << >> THEN p.O ELSE p.D          \* own times win, else the defaults
IsFull(p)   == OwnTimes(p) = Full
(* required absolute times, as 12 * ns *)
Required(p) ==
  IF IsFull(p)
  THEN (IF p.rd = 1 THEN {12 * j : j \in 0..p.T} ELSE {0, 12 * p.T})
  ELSE {k * p.T : k \in Range(OwnTimes(p))}
MinCount(p) == IF IsFull(p) THEN (p.T \div p.rd) - 1 ELSE Cardinality(Required(p))

(* ------------------------- laws of the reference ------------------------- *)
Segs == Shape(pt.T, pt.sh)
ShapeTiles ==
  IsPoint => (/\ \A i \in 1..Len(Segs) : Segs[i][2] >= 1
              /\ (IF Len(Segs) = 1 THEN Segs[1][2]
                  ELSE IF Len(Segs) = 2 THEN Segs[1][2] + Segs[2][2]
                  ELSE Segs[1][2] + Segs[2][2] + Segs[3][2]) = pt.T
              /\ \E i \in 1..Len(Segs) : Segs[i][1] = "P")
WithinSequence == IsPoint => (\A t \in Required(pt) : t >= 0 /\ t <= 12 * pt.T)
EndRequiredIffAsked ==           \* the final state is required exactly when time 1 (or Full) is asked for
  IsPoint => ((12 * pt.T \in Required(pt)) <=> (IsFull(pt) \/ 12 \in Range(OwnTimes(pt))))
DistinctTimes ==                 \* distinct relative times are distinct absolute times
  (IsPoint /\ ~IsFull(pt)) => (Cardinality(Required(pt)) = Len(OwnTimes(pt)))
DefaultsOnlyWithoutOwn ==
  (IsPoint /\ pt.O # << >>) => (Required(pt) = {k * pt.T : k \in Range(pt.O)})

RECURSIVE SortedSeq(_)
SortedSeq(S) == IF S = {} THEN << >>
                ELSE LET m == CHOOSE x \in S : \A y \in S : x <= y IN <<m>> \o SortedSeq(S \ {m})

Emit ==
  IsPoint =>
    PrintT("PT|" \o ToJson([T |-> pt.T, rd |-> pt.rd, D |-> pt.D, O |-> pt.O, sh |-> Segs, bs |-> pt.bs, n |-> pt.n,
                            full |-> IsFull(pt),
                            q |-> IF IsFull(pt) THEN << >> ELSE SortedSeq(Required(pt)),
                            mc |-> MinCount(pt)]))
=============================================================================
