------------------------------- MODULE Layout -------------------------------
(***************************************************************************)
(* C19: canonical trap numbering.  Coordinates are integers in 1e-7 um so  *)
(* that near-ties at the rounding precision (1e-6 um) are representable.   *)
(* A layout is given as a SEQUENCE of points (the order in which the user  *)
(* listed them).  Reference semantics:                                     *)
(*   Rounded(p)   = every coordinate rounded to 1e-6 um                    *)
(*   TrapId(s, i) = rank of Rounded(s[i]) among the rounded points under   *)
(*                  ascending x, then y, then z (0-based)                  *)
(* TLC enumerates every sequence of NMin..NMax distinct points of Grid^Dim *)
(* whose rounded coordinates are distinct (one state per sequence, i.e.    *)
(* every coordinate set in every order), checks the laws of the reference  *)
(* itself (permutation invariance, ids are a bijection onto 0..n-1, the    *)
(* weight of a qubit is the weight of its trap) and prints the expected    *)
(* numbering so that the harness compares RegisterLayout / DetuningMap /   *)
(* MappableRegister of the implementation on every enumerated input.       *)
(***************************************************************************)
EXTENDS Integers, Sequences, FiniteSets, TLC, Json

CONSTANTS Grid, Dim, NMin, NMax
VARIABLE pts

Round(v) == (v + 5) \div 10                      \* 1e-7 um -> 1e-6 um (no exact halves in Grid)
Rounded(p) == [k \in 1..Dim |-> Round(p[k])]

RECURSIVE LexLess(_, _, _)
LexLess(a, b, k) ==
  IF k > Dim THEN FALSE
  ELSE IF a[k] < b[k] THEN TRUE
  ELSE IF a[k] > b[k] THEN FALSE
  ELSE LexLess(a, b, k + 1)

TrapId(s, i) == Cardinality({j \in 1..Len(s) : LexLess(Rounded(s[j]), Rounded(s[i]), 1)})
TrapIds(s) == [i \in 1..Len(s) |-> TrapId(s, i)]
TrapMap(s) == {<<Rounded(s[i]), TrapId(s, i)>> : i \in 1..Len(s)}

Points == [1..Dim -> Grid]
RoundedDistinct(s) == \A i, j \in 1..Len(s) : i # j => Rounded(s[i]) # Rounded(s[j])
Layouts == UNION {{s \in [1..n -> Points] : RoundedDistinct(s)} : n \in NMin..NMax}

Init == pts \in Layouts
Next == UNCHANGED pts
Spec == Init /\ [][Next]_pts

(* laws of the reference *)
Bijection == {TrapId(pts, i) : i \in 1..Len(pts)} = 0..(Len(pts) - 1)
Reverse(s) == [i \in 1..Len(s) |-> s[Len(s) + 1 - i]]
Rotate(s) == [i \in 1..Len(s) |-> s[(i % Len(s)) + 1]]
PermutationInvariant ==
  /\ TrapMap(Reverse(pts)) = TrapMap(pts)
  /\ TrapMap(Rotate(pts)) = TrapMap(pts)
SortedAscending ==
  \A i, j \in 1..Len(pts) :
     TrapId(pts, i) < TrapId(pts, j) <=> LexLess(Rounded(pts[i]), Rounded(pts[j]), 1)

Emit == PrintT("PT|" \o ToJson([pts |-> pts, ids |-> TrapIds(pts),
                                 rounded |-> [i \in 1..Len(pts) |-> Rounded(pts[i])]]))
=============================================================================
