----------------------------- MODULE Hamiltonian -----------------------------
(***************************************************************************)
(* C05: structure of the documented Hamiltonian (docs/source/conventions.md) *)
(*   H(t) = sum_i ( H^D_i(t) + sum_{j<i} H^int_ij )                        *)
(*   H^D  = Omega/2 e^{-i phi} |a><b| + Omega/2 e^{+i phi} |b><a| - delta |b><b| *)
(*          for every addressed basis, |b> the higher level of the basis   *)
(*   H^int = C6/R^6 n_i n_j  (n = |r><r|, whenever r is among the levels)  *)
(*         = C3 (1 - 3 cos^2 theta)/R^3 (sigma+_i sigma-_j + h.c.) in XY   *)
(* in the documented state ordering: level vectors ordered by decreasing   *)
(* energy (r, g, h / u, d), multi-partite states in register order, first  *)
(* atom most significant.                                                  *)
(* The module enumerates, for N atoms and a level set, the matrix entries  *)
(* as symbolic terms <<row, col, kind, basis-or-0, i, j>> (0-based indices) *)
(* whose numeric coefficient the harness evaluates from the programmed     *)
(* Omega_i, delta_i, phi_i of PulserRender and the geometry.  TLC checks   *)
(* the structure of the reference itself (Hermitian, drive terms change    *)
(* one atom, indices in range).                                            *)
(***************************************************************************)
EXTENDS Integers, Sequences, FiniteSets, TLC, Json

CONSTANTS MaxN
VARIABLE cfg      \* [n |-> number of atoms, lv |-> level names (highest energy first), bases |-> set of bases]

LevelSets ==
  { [lv |-> <<"r", "g">>,      bases |-> {"ground-rydberg"}],
    [lv |-> <<"g", "h">>,      bases |-> {"digital"}],
    [lv |-> <<"r", "g", "h">>, bases |-> {"ground-rydberg", "digital"}],
    [lv |-> <<"u", "d">>,      bases |-> {"XY"}] }

(* lower (a) and higher (b) level of every basis *)
LevelA(b) == CASE b = "ground-rydberg" -> "g" [] b = "digital" -> "h" [] b = "XY" -> "d"
LevelB(b) == CASE b = "ground-rydberg" -> "r" [] b = "digital" -> "g" [] b = "XY" -> "u"

Pos(lv, x) == CHOOSE k \in 1..Len(lv) : lv[k] = x          \* 1-based position of level x
RECURSIVE Pow(_, _)
Pow(d, k) == IF k = 0 THEN 1 ELSE d * Pow(d, k - 1)

(* index of product state s (function 1..n -> level name), first atom most significant *)
RECURSIVE IdxFrom(_, _, _, _)
IdxFrom(s, lv, n, i) ==
  IF i > n THEN 0 ELSE (Pos(lv, s[i]) - 1) * Pow(Len(lv), n - i) + IdxFrom(s, lv, n, i + 1)
Idx(s, lv, n) == IdxFrom(s, lv, n, 1)

States(c) == [1..c.n -> {c.lv[k] : k \in 1..Len(c.lv)}]
With(s, i, x) == [s EXCEPT ![i] = x]

DriveTerms(c) ==
  UNION { UNION {
    LET a == LevelA(b)  hi == LevelB(b) IN
    UNION { { <<Idx(With(s, i, a), c.lv, c.n), Idx(s, c.lv, c.n), "drive", b, i, 0>>,     \* |a><b| : Omega/2 e^{-i phi}
              <<Idx(s, c.lv, c.n), Idx(With(s, i, a), c.lv, c.n), "driveC", b, i, 0>>,    \* |b><a| : Omega/2 e^{+i phi}
              <<Idx(s, c.lv, c.n), Idx(s, c.lv, c.n), "det", b, i, 0>> }                  \* |b><b| : -delta
            : s \in {x \in States(c) : x[i] = hi} }
    : i \in 1..c.n } : b \in c.bases }

HasLevel(c, x) == \E k \in 1..Len(c.lv) : c.lv[k] = x

VdwTerms(c) ==
  IF ~HasLevel(c, "r") THEN {}
  ELSE UNION { UNION {
         IF i >= j THEN {}
         ELSE { <<Idx(s, c.lv, c.n), Idx(s, c.lv, c.n), "vdw", "", i, j>> :
                  s \in {x \in States(c) : x[i] = "r" /\ x[j] = "r"} }
         : j \in 1..c.n } : i \in 1..c.n }

XYTerms(c) ==
  IF "XY" \notin c.bases THEN {}
  ELSE UNION { UNION {
         IF i >= j THEN {}
         ELSE { <<Idx(With(With(s, i, "d"), j, "u"), c.lv, c.n), Idx(s, c.lv, c.n), "xy", "", i, j>> :
                  s \in {x \in States(c) : x[i] = "u" /\ x[j] = "d"} }
              \cup
              { <<Idx(With(With(s, i, "u"), j, "d"), c.lv, c.n), Idx(s, c.lv, c.n), "xy", "", i, j>> :
                  s \in {x \in States(c) : x[i] = "d" /\ x[j] = "u"} }
         : j \in 1..c.n } : i \in 1..c.n }

Terms(c) == DriveTerms(c) \cup VdwTerms(c) \cup XYTerms(c)

Init == cfg \in { [n |-> n, lv |-> L.lv, bases |-> L.bases] : n \in 1..MaxN, L \in LevelSets }
Next == UNCHANGED cfg
Spec == Init /\ [][Next]_cfg

Dim(c) == Pow(Len(c.lv), c.n)
InRange == \A t \in Terms(cfg) : t[1] \in 0..(Dim(cfg) - 1) /\ t[2] \in 0..(Dim(cfg) - 1)
(* every off-diagonal entry has its transposed partner with the conjugate coefficient *)
Hermitian ==
  \A t \in Terms(cfg) :
    CASE t[3] = "drive"  -> <<t[2], t[1], "driveC", t[4], t[5], t[6]>> \in Terms(cfg)
      [] t[3] = "driveC" -> <<t[2], t[1], "drive", t[4], t[5], t[6]>> \in Terms(cfg)
      [] t[3] = "xy"     -> <<t[2], t[1], "xy", t[4], t[5], t[6]>> \in Terms(cfg)
      [] OTHER           -> t[1] = t[2]
(* a drive term connects two product states that differ on exactly its atom *)
DriveLocal ==
  \A t \in DriveTerms(cfg) :
    t[3] \in {"drive", "driveC"} =>
      LET d == Len(cfg.lv)
          digit(x, i) == (x \div Pow(d, cfg.n - i)) % d
      IN \A k \in 1..cfg.n : (k # t[5]) => digit(t[1], k) = digit(t[2], k)
(* number of entries: per atom and basis, one |a><b|, one |b><a| and one |b><b| per state of the others *)
Counting ==
  Cardinality(DriveTerms(cfg)) = 3 * Cardinality(cfg.bases) * cfg.n * Pow(Len(cfg.lv), cfg.n - 1)

Emit == PrintT("PT|" \o ToJson([n |-> cfg.n, lv |-> cfg.lv, bases |-> cfg.bases, terms |-> Terms(cfg)]))
=============================================================================
