------------------------------ MODULE Geometry ------------------------------
(***************************************************************************)
(* C12: a device accepts exactly the registers and layouts that fit its    *)
(* geometry.  REFERENCE transcribed from the statement of the property and *)
(* the documented meaning of the device parameters, not from the code.     *)
(*                                                                         *)
(* Lengths are integers in units of 2^-10 um (every coordinate is an exact *)
(* binary float, every squared distance is an exact integer below 2^31).   *)
(* A case is a device record, a set of atoms and (optionally) the set of   *)
(* traps of the layout the register was defined from; atoms and traps are  *)
(* indices into the candidate point list Pts.  0 encodes "undefined" for   *)
(* the optional limits na (max_atom_num), mr (max_radial_distance, um) and *)
(* th (max_layout_traps).                                                  *)
(*                                                                         *)
(* Clauses (the statement, one by one):                                    *)
(*   dim    the register has more dimensions than the device supports      *)
(*   count  more atoms than max_atom_num                                   *)
(*   dist   two atoms closer than min_atom_distance, or not distinct       *)
(*   radius an atom further than max_radial_distance from the origin       *)
(*   tmin / tmax   layout with fewer / more traps than allowed             *)
(*   tdist / trad  the two geometric clauses applied to the traps          *)
(*   fill   atoms / traps > max_layout_filling                             *)
(* Accept <=> no clause is violated.                                       *)
(*                                                                         *)
(* DON'T-CARE BAND.  The code compares distances with a tolerance of 1e-6  *)
(* um ("at least the minimum distance" up to the coordinate precision).    *)
(* The reference therefore splits "closer than m" into                     *)
(*   Must : d = 0  or  d <= m - 2e-6 um    (every reading rejects)         *)
(*   May  : m - 2e-6 um < d < m            (no verdict is demanded)        *)
(* computed exactly in integers: (m - e)^2 >= m^2 - 2 m e, with            *)
(* 2 e = 4e-6 um = 4096e-6 units, hence Slack(m) below.  The radial clause *)
(* has no tolerance in the statement nor in the code and the lattice makes *)
(* the float comparison exact, so it has no band.                          *)
(***************************************************************************)
EXTENDS Integers, Sequences, FiniteSets, TLC, Json

CONSTANTS Pts,        \* sequence of candidate points, all of the same dimension (2 or 3)
          NMax,       \* registers of 1..NMax atoms
          TMax,       \* layouts of 1..TMax traps; 0 = registers without layout
          Kinds,      \* subset of {"D", "V"}: Device / VirtualDevice
          Dims, MaxAtomsS, MinDistS, MaxRadS, MinTrapsS, MaxTrapsS, Fill4S,
          OptFill4S,  \* optimal_layout_filling (0 = undefined): never part of a verdict,
                      \* only steers Register.with_automatic_layout
          FillDen,    \* the filling fractions are f4 / FillDen and of4 / FillDen.  FillDen = 4
                      \* (dyadic, exact in floats) wherever a filling verdict is decided; other
                      \* denominators (0.3, 0.35, ...) only in layout-free configurations, where
                      \* the filling is exercised through the closure of with_automatic_layout
          NMin, TMin, \* smallest number of atoms (registers without layout) / of traps
          AllTraps,   \* TRUE: a register defined from a layout fills every trap (atoms = traps)
          Prefix,     \* TRUE: the registers are the prefixes {1..k} of Pts (k = 1..NMax) instead
                      \* of every subset (closure configurations with many atoms)
          ConnN,      \* numbers of atoms asked from Register.max_connectivity ({} = none)
          ConnSp      \* spacings asked (units; -1 = "use the device's minimum distance")
VARIABLE c

ASSUME FillDen = 4 \/ TMax = 0

UM == 1024                                   \* units per micrometre
Idx == 1..Len(Pts)
PDim == Len(Pts[1])

(* ---------------------------------------------------------------------- *)
(* devices                                                                 *)
(* ---------------------------------------------------------------------- *)
\* documented constraints between the parameters of a device (see also DeviceCtor.tla):
\* a physical Device defines every limit; max traps >= min traps; a full layout of the
\* largest size must be able to hold max_atom_num atoms.
DevOK(d) ==
  /\ d.kind = "D" => (d.na > 0 /\ d.mr > 0)
  /\ d.th > 0 => (d.th >= d.tl /\ (d.na > 0 => (d.f4 * d.th) \div FillDen >= d.na))
  /\ d.of4 = 0 \/ (0 < d.of4 /\ d.of4 <= d.f4)
Devs == {d \in [kind: Kinds, dim: Dims, na: MaxAtomsS, md: MinDistS, mr: MaxRadS,
                tl: MinTrapsS, th: MaxTrapsS, f4: Fill4S, of4: OptFill4S] : DevOK(d)}
\* every optional limit undefined (a VirtualDevice may leave them out)
Relaxed(d) == [d EXCEPT !.kind = "V", !.na = 0, !.mr = 0, !.th = 0]

(* ---------------------------------------------------------------------- *)
(* geometry on a point function P (index -> point)                         *)
(* ---------------------------------------------------------------------- *)
Sq(x) == x * x
RECURSIVE SumSq(_, _)
SumSq(v, k) == IF k = 0 THEN 0 ELSE Sq(v[k]) + SumSq(v, k - 1)
D2(p, q) == SumSq([k \in 1..Len(p) |-> p[k] - q[k]], Len(p))
R2(p) == SumSq(p, Len(p))

Slack(m) == (m * 4096) \div 1000000 + 1       \* >= 2 * m * 2e-6 um, in units^2
MustClose(p, q, m) == D2(p, q) = 0 \/ D2(p, q) + Slack(m) <= Sq(m)
MayClose(p, q, m) == ~MustClose(p, q, m) /\ D2(p, q) < Sq(m)

PairsOf(S) == {pr \in S \X S : pr[1] < pr[2]}
MustPairs(P, S, d) == {pr \in PairsOf(S) : MustClose(P[pr[1]], P[pr[2]], d.md)}
MayPairs(P, S, d) == {pr \in PairsOf(S) : MayClose(P[pr[1]], P[pr[2]], d.md)}
TooFar(P, S, d) == IF d.mr = 0 THEN {} ELSE {i \in S : R2(P[i]) > Sq(d.mr * UM)}

(* ---------------------------------------------------------------------- *)
(* the clauses                                                             *)
(* ---------------------------------------------------------------------- *)
HasLayout(t) == t # {}
Viol(P, d, a, t) ==
     (IF Len(P[1]) > d.dim THEN {"dim"} ELSE {})
  \cup (IF d.na > 0 /\ Cardinality(a) > d.na THEN {"count"} ELSE {})
  \cup (IF MustPairs(P, a, d) # {} THEN {"dist"} ELSE {})
  \cup (IF TooFar(P, a, d) # {} THEN {"radius"} ELSE {})
  \cup (IF HasLayout(t) /\ Cardinality(t) < d.tl THEN {"tmin"} ELSE {})
  \cup (IF HasLayout(t) /\ d.th > 0 /\ Cardinality(t) > d.th THEN {"tmax"} ELSE {})
  \cup (IF HasLayout(t) /\ MustPairs(P, t, d) # {} THEN {"tdist"} ELSE {})
  \cup (IF HasLayout(t) /\ TooFar(P, t, d) # {} THEN {"trad"} ELSE {})
  \* filling fraction atoms/traps <= f4/FillDen, in integers
  \cup (IF HasLayout(t) /\ FillDen * Cardinality(a) > d.f4 * Cardinality(t) THEN {"fill"} ELSE {})
\* clauses on which the tolerance band leaves the verdict open
Open(P, d, a, t) ==
     (IF MayPairs(P, a, d) # {} THEN {"dist"} ELSE {})
  \cup (IF HasLayout(t) /\ MayPairs(P, t, d) # {} THEN {"tdist"} ELSE {})
\* the layout alone (validate_layout, mappable registers): clauses that do not mention atoms
LayoutClauses == {"tmin", "tmax", "tdist", "trad"}
AtomClauses == {"dim", "count", "dist", "radius"}

(* ---------------------------------------------------------------------- *)
(* the lattice: one state per (device, register)                           *)
(* ---------------------------------------------------------------------- *)
DistinctPts(S) == \A i, j \in S : i # j => Pts[i] # Pts[j]
\* trap coordinates are stored with 6 decimals: multiples of 2^-6 um are kept exactly
OnTrapGrid(S) == \A i \in S : \A k \in 1..PDim : (Pts[i][k] % 16) = 0
Regs ==
  IF Prefix
  THEN {[a |-> 1..k, t |-> {}] : k \in 1..NMax}
  ELSE IF TMax = 0
  THEN {[a |-> a, t |-> {}] : a \in {s \in SUBSET Idx : Cardinality(s) \in NMin..NMax}}
  ELSE UNION {{[a |-> a, t |-> t] :
                 a \in IF AllTraps THEN {t} ELSE {s \in SUBSET t : Cardinality(s) \in NMin..NMax}} :
              t \in {s \in SUBSET Idx : Cardinality(s) \in TMin..TMax
                                         /\ DistinctPts(s) /\ OnTrapGrid(s)}}

(* ---------------------------------------------------------------------- *)
(* device-aware constructor Register.max_connectivity(n, device, spacing)  *)
(* "Registers produced by the device-aware constructors are always         *)
(* accepted by that device": the call either raises or returns a register  *)
(* of n atoms that the device accepts.  It follows that the call MUST      *)
(* raise when no register of n atoms with that spacing can be accepted:    *)
(* too many atoms, or, for two atoms or more: neighbours closer than the   *)
(* minimum distance, a zero spacing (atoms would coincide), a spacing      *)
(* larger than the diameter of the allowed disc.                           *)
(* ---------------------------------------------------------------------- *)
EffSpacing(d, sp) == IF sp = -1 THEN d.md ELSE sp
ConnMustRaise(d, n, sp) ==
  \/ n < 1
  \/ (d.na > 0 /\ n > d.na)
  \* (a single atom has no neighbour: any spacing is acceptable for n = 1)
  \/ (n >= 2 /\ sp # -1 /\ sp < d.md)
  \/ (n >= 2 /\ EffSpacing(d, sp) = 0)
  \* two atoms inside a disc of radius R are at most 2R apart
  \/ (n >= 2 /\ d.mr > 0 /\ EffSpacing(d, sp) > 2 * d.mr * UM)
ConnCases == [dev: Devs, n: ConnN, sp: ConnSp]
IsReg(cc) == "reg" \in DOMAIN cc

Init == c \in [dev: Devs, reg: Regs] \cup ConnCases
Next == UNCHANGED c
Spec == Init /\ [][Next]_c

V(cc) == Viol(Pts, cc.dev, cc.reg.a, cc.reg.t)

(* ---------------------------------------------------------------------- *)
(* laws of the reference (checked by TLC on every lattice point)           *)
(* ---------------------------------------------------------------------- *)
\* removing an atom from an acceptable register leaves it acceptable
SubRegisterLaw ==
  (IsReg(c) /\ V(c) = {}) =>
    \A i \in c.reg.a : Cardinality(c.reg.a) > 1 =>
       Viol(Pts, c.dev, c.reg.a \ {i}, c.reg.t) = {}
\* undefined limits never reject: whatever a device accepts, the device without its
\* optional limits accepts too, and violations only disappear
RelaxLaw == IsReg(c) => Viol(Pts, Relaxed(c.dev), c.reg.a, c.reg.t) \subseteq V(c)
\* the atoms named as offenders are exactly the violating ones: without them the geometric
\* clauses hold, and each named atom violates on its own (pair) or alone (radius)
OffendersLaw ==
  IsReg(c) =>
  LET d == c.dev
      far == TooFar(Pts, c.reg.a, d)
      mp == MustPairs(Pts, c.reg.a, d)
      bad == far \cup {pr[1] : pr \in mp} \cup {pr[2] : pr \in mp}
      clean == c.reg.a \ bad
  IN /\ (clean # {} => Viol(Pts, d, clean, {}) \cap {"dist", "radius"} = {})
     /\ \A i \in far : "radius" \in Viol(Pts, d, {i}, {})
     /\ \A pr \in mp : "dist" \in Viol(Pts, d, {pr[1], pr[2]}, {})
     /\ ("dist" \in V(c) <=> mp # {})
     /\ ("radius" \in V(c) <=> far # {})
\* the optimal filling is advice for layout generation, never part of a verdict
OptFillLaw == IsReg(c) => Viol(Pts, [c.dev EXCEPT !.of4 = 0], c.reg.a, c.reg.t) = V(c)
\* atoms sit on traps: a geometric defect of the atoms is a defect of the layout
LayoutLaw ==
  (IsReg(c) /\ HasLayout(c.reg.t)) =>
     /\ MustPairs(Pts, c.reg.a, c.dev) \subseteq MustPairs(Pts, c.reg.t, c.dev)
     /\ TooFar(Pts, c.reg.a, c.dev) \subseteq TooFar(Pts, c.reg.t, c.dev)
     /\ ("dist" \in V(c) => "tdist" \in V(c))
     /\ ("radius" \in V(c) => "trad" \in V(c))
\* a planar register seen as a 3D register with z = 0 gets the same verdict on a 3D device
Embed == [i \in Idx |-> IF PDim = 2 THEN Pts[i] \o <<0>> ELSE Pts[i]]
EmbedLaw ==
  (IsReg(c) /\ PDim = 2 /\ c.dev.dim = 3) =>
     /\ Viol(Embed, c.dev, c.reg.a, c.reg.t) = V(c)
     /\ Open(Embed, c.dev, c.reg.a, c.reg.t) = Open(Pts, c.dev, c.reg.a, c.reg.t)
\* the band is thin: it never contains a pair at or beyond the minimum distance, nor a pair
\* more than one unit (1e-3 um) inside
BandLaw ==
  IsReg(c) =>
  \A pr \in MayPairs(Pts, c.reg.a \cup c.reg.t, c.dev) :
     /\ D2(Pts[pr[1]], Pts[pr[2]]) < Sq(c.dev.md)
     /\ D2(Pts[pr[1]], Pts[pr[2]]) > Sq(c.dev.md - 1)
\* asking for more atoms, or for a smaller spacing, never turns "must raise" into "may return"
ConnLaw ==
  ~IsReg(c) =>
     /\ ((c.n >= 1 /\ ConnMustRaise(c.dev, c.n, c.sp)) => ConnMustRaise(c.dev, c.n + 1, c.sp))
     /\ (ConnMustRaise(Relaxed(c.dev), c.n, c.sp) => ConnMustRaise(c.dev, c.n, c.sp))

(* ---------------------------------------------------------------------- *)
(* emission                                                                *)
(* ---------------------------------------------------------------------- *)
DevTuple(d) == <<d.kind, d.dim, d.na, d.md, d.mr, d.tl, d.th, d.f4, d.of4, FillDen>>
EmitConn == PrintT("PT|" \o ToJson([d |-> DevTuple(c.dev), n |-> c.n, sp |-> c.sp,
                                          x |-> ConnMustRaise(c.dev, c.n, c.sp)]))
EmitReg ==
  LET d == c.dev  a == c.reg.a  t == c.reg.t IN
  PrintT("PT|" \o ToJson(
    [d  |-> DevTuple(d), a |-> (a), t |-> (t),
     v  |-> (V(c)), o |-> (Open(Pts, d, a, t)),
     pm |-> (MustPairs(Pts, a, d)), po |-> (MayPairs(Pts, a, d)),
     r  |-> (TooFar(Pts, a, d)),
     tm |-> (MustPairs(Pts, t, d)), to |-> (MayPairs(Pts, t, d)),
     tr |-> (TooFar(Pts, t, d))]))
Emit == IF IsReg(c) THEN EmitReg ELSE EmitConn
=============================================================================
