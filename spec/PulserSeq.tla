------------------------------ MODULE PulserSeq ------------------------------
(***************************************************************************)
(* Abstract state machine of pulser.Sequence (built, i.e. non-parametrized *)
(* mode): one operator per critical section of                             *)
(*   pulser-core/pulser/sequence/_schedule.py  (add_pulse, add_delay,      *)
(*   add_target, wait_for_fall, _find_add_delay, make_next_pulse_slot,     *)
(*   enable_eom, disable_eom, get_duration, adjust_duration)               *)
(*   pulser-core/pulser/sequence/sequence.py   (declare_channel, target,   *)
(*   delay, add, align, phase_shift, measure, enable_eom_mode, ...)        *)
(*   pulser-core/pulser/sequence/_basis_ref.py (_PhaseTracker)             *)
(* written in the order in which the code evaluates its checks, so that    *)
(* the first failing check decides the outcome and everything executed     *)
(* before it is a partial effect the model reproduces.                     *)
(*                                                                         *)
(* The state `s` is a record that has exactly the shape of the projection  *)
(* the harness reads from a live Sequence object (harness/project.py), so  *)
(* that a state logged from the implementation is a value of the same type *)
(* (PulserSeqTrace.tla evaluates the same operators on logged states).     *)
(*                                                                         *)
(* Times are integer ns.  Amplitudes / detunings are integers in 1e-6      *)
(* rad/us.  Phases are integers in a unit fixed by the configuration       *)
(* (PhaseMod = number of units in 2*pi, or 0 when the configuration keeps  *)
(* every phase below 2*pi so that no wrap occurs).                         *)
(***************************************************************************)
EXTENDS Integers, Sequences, FiniteSets, TLC

CONSTANTS
  Devs,      \* sequence of device records (see DevOf)
  Pulses,    \* catalogue of pulse records [dur, rs, ph, pps, dd, am, av, dm, dn, dx, fin]
  PF,        \* PF[d][cid][p] = [fs, fe, w]: fall times (std, eom) and fingerprint of pulse p
             \*   after duration adjustment on channel cid of device d (numeric oracle, DESIGN 2.4)
  SP,        \* SP[d][cid] = sequence of EOM setpoints [amp, don, doff, out]
  CF,        \* CF[d][cid][sp][kind][dur \div clock] = <<fs, fe>> for scheduler-made constant
             \*   pulses: kind 1 = EOM pulse (amp, don), kind 2 = detuned delay (0, doff)
  Calls,     \* sequence of call records: the argument lattice of the configuration
  InitCalls, \* sequence of indices into Calls applied before exploration starts
  PhaseMod,  \* phase units in 2*pi (0 = no wrap in this configuration)
  PhaseTol,  \* tolerance (phase units) of the declarative phase predicates (0 = exact)
  MaxDepth   \* bound on the number of explored calls after InitCalls

VARIABLES s, hist, viol
vars == <<s, hist, viol>>

-----------------------------------------------------------------------------
(* Arithmetic helpers *)
Max2(a, b) == IF a >= b THEN a ELSE b
Min2(a, b) == IF a <= b THEN a ELSE b
Clip(x, lo, hi) == Max2(lo, Min2(x, hi))
LastOf(q) == q[Len(q)]
RECURSIVE Pow2(_)
Pow2(n) == IF n = 0 THEN 1 ELSE 2 * Pow2(n - 1)
HasBit(m, q) == (m \div Pow2(q - 1)) % 2 = 1
Meet(m1, m2, nq) == \E q \in 1..nq : HasBit(m1, q) /\ HasBit(m2, q)
AllMask(nq) == Pow2(nq) - 1
PMod(x) == IF PhaseMod = 0 THEN x ELSE x % PhaseMod
InsertAt(q, k, e) == SubSeq(q, 1, k - 1) \o <<e>> \o SubSeq(q, k, Len(q))

(* Results of operations: state, outcome class, return value *)
Ok(st) == [st |-> st, out |-> "ok", ret |-> 0]
OkR(st, r) == [st |-> st, out |-> "ok", ret |-> r]
Err(st, e) == [st |-> st, out |-> e, ret |-> 0]

-----------------------------------------------------------------------------
(* Static configuration *)
DevOf(st) == Devs[st.dev]
CfgOf(st, i) == DevOf(st).chs[st.ch[i].cid]
NQ(st) == DevOf(st).nq

(* index in the schedule of the channel called nm, 0 if not declared *)
ChIdx(st, nm) ==
  IF \E i \in 1..Len(st.ch) : st.ch[i].nm = nm
  THEN CHOOSE i \in 1..Len(st.ch) : st.ch[i].nm = nm
  ELSE 0

RefIdx(st, b) ==
  IF \E i \in 1..Len(st.rf) : st.rf[i].b = b
  THEN CHOOSE i \in 1..Len(st.rf) : st.rf[i].b = b
  ELSE 0

-----------------------------------------------------------------------------
(* Slots.  w = fingerprint of a pulse as scheduled:                          *)
(*   <<duration, first amp, last amp, max amp, avg amp, first det, last det, *)
(*     max |det| rounded to 1e-6, min det rounded to 1e-6, all-finite (1/0),  *)
(*     max det rounded to 1e-6>>                                              *)
NoW == <<>>
Abs(x) == IF x < 0 THEN -x ELSE x
ConstW(dur, amp, det) == <<dur, amp, amp, amp, amp, det, det, Abs(det), det, 1, det>>
NoLim == 1      \* "None" for the (negative) DMM bottom detunings
TSlot(ti, tf, tg) ==
  [k |-> "t", ti |-> ti, tf |-> tf, tg |-> tg, ph |-> 0, fs |-> 0, fe |-> 0,
   dd |-> FALSE, w |-> NoW]
DSlot(ti, tf, tg) ==
  [k |-> "d", ti |-> ti, tf |-> tf, tg |-> tg, ph |-> 0, fs |-> 0, fe |-> 0,
   dd |-> FALSE, w |-> NoW]
PSlot(ti, tf, tg, ph, fs, fe, dd, w) ==
  [k |-> "p", ti |-> ti, tf |-> tf, tg |-> tg, ph |-> ph, fs |-> fs, fe |-> fe,
   dd |-> dd, w |-> w]

InEom(c) == Len(c.eb) > 0 /\ LastOf(c.eb).tf = -1
FallOf(op, eom) == IF eom THEN op.fe ELSE op.fs

ChanDur(c) == IF Len(c.sl) = 0 THEN 0 ELSE LastOf(c.sl).tf

(* _ChannelSchedule.get_duration(include_fall_time=True): backwards scan, *)
(* fall time taken with the channel's CURRENT EOM mode                     *)
ChanDurFall(cfg, c) ==
  LET n == Len(c.sl)
      RECURSIVE scan(_, _)
      scan(i, tmp) ==
        IF i = 0 THEN tmp
        ELSE LET op == c.sl[i] IN
             IF op.k = "p" THEN Max2(tmp, op.tf + FallOf(op, InEom(c)))
             ELSE IF tmp - op.tf >= 2 * cfg.rise THEN tmp
             ELSE scan(i - 1, tmp)
  IN IF n = 0 THEN 0 ELSE scan(n, c.sl[n].tf)

(* index of the last pulse slot (optionally ignoring detuned delays), 0 if none *)
LastPulseIdx(c, ignoreDD) ==
  LET I == {i \in 1..Len(c.sl) : c.sl[i].k = "p" /\ ~(ignoreDD /\ c.sl[i].dd)}
  IN IF I = {} THEN 0 ELSE CHOOSE i \in I : \A j \in I : j <= i

LastPulsePhase(c) ==
  LET i == LastPulseIdx(c, FALSE) IN IF i = 0 THEN 0 ELSE c.sl[i].ph

LastTargetTf(c) ==
  LET I == {i \in 1..Len(c.sl) : c.sl[i].k = "t"}
  IN IF I = {} THEN 0 ELSE c.sl[CHOOSE i \in I : \A j \in I : j <= i].tf

-----------------------------------------------------------------------------
(* Channel.validate_duration and _ChannelSchedule.adjust_duration *)
VDur(cfg, d) ==
  IF d < cfg.minDur THEN [out |-> "VE", v |-> 0]
  ELSE IF cfg.maxDur # -1 /\ d > cfg.maxDur THEN [out |-> "VE", v |-> 0]
  ELSE [out |-> "ok",
        v |-> IF d % cfg.clock = 0 THEN d ELSE d + cfg.clock - (d % cfg.clock)]
Adjust(cfg, d) == VDur(cfg, Max2(d, cfg.minDur))

(* _Schedule._check_duration *)
OverMax(st, t) == DevOf(st).maxSeq # -1 /\ t > DevOf(st).maxSeq

(* fall times of scheduler-made constant pulses (numeric oracle table) *)
CFall(st, i, sp, kind, dur) ==
  LET cfg == CfgOf(st, i)
      tab == CF[st.dev][st.ch[i].cid][sp][kind]
      k == dur \div cfg.clock
  IN IF dur % cfg.clock = 0 /\ k >= 1 /\ k <= Len(tab) THEN tab[k]
     ELSE Assert(FALSE, <<"CF table too small", st.dev, st.ch[i].cid, sp, kind, dur>>)

SetP(st, i, sp) == SP[st.dev][st.ch[i].cid][sp]

(* the detuned-delay pulse that add_delay / enable_eom create in EOM mode *)
DDSlot(st, i, blk, ti, tf, tg, ph) ==
  LET f == CFall(st, i, blk.sp, 2, tf - ti) IN
  PSlot(ti, tf, tg, ph, f[1], f[2], TRUE, ConstW(tf - ti, 0, blk.doff))

(* _Schedule.add_delay *)
AddDelay(st, i, d) ==
  LET c == st.ch[i]
      cfg == CfgOf(st, i)
  IN
  IF Len(c.sl) = 0 THEN Err(st, "VE")           \* "The chosen channel has no target."
  ELSE
  LET v == VDur(cfg, d) IN
  IF v.out # "ok" THEN Err(st, v.out)
  ELSE
  LET last == LastOf(c.sl)
      ti == last.tf
      tf == ti + v.v
  IN
  IF OverMax(st, tf) THEN Err(st, "RE")
  ELSE IF InEom(c) /\ LastOf(c.eb).doff # 0
  THEN Ok([st EXCEPT !.ch[i].sl =
             Append(@, DDSlot(st, i, LastOf(c.eb), ti, tf, last.tg, LastPulsePhase(c)))])
  ELSE Ok([st EXCEPT !.ch[i].sl = Append(@, DSlot(ti, tf, last.tg))])

(* _Schedule.wait_for_fall *)
WaitForFall(st, i) ==
  LET c == st.ch[i]
      cfg == CfgOf(st, i)
      ft == ChanDurFall(cfg, c) - ChanDur(c)
  IN
  IF ft > 0
  THEN LET a == Adjust(cfg, ft) IN
       IF a.out # "ok" THEN Err(st, a.out) ELSE AddDelay(st, i, a.v)
  ELSE Ok(st)

(* _Schedule.add_target *)
AddTarget(st, i, mask) ==
  LET cfg == CfgOf(st, i) IN
  IF Len(st.ch[i].sl) = 0
  THEN IF OverMax(st, 0) THEN Err(st, "RE")
       ELSE Ok([st EXCEPT !.ch[i].sl = Append(@, TSlot(-1, 0, mask))])
  ELSE
  LET r == WaitForFall(st, i) IN
  IF r.out # "ok" THEN r
  ELSE
  LET st1 == r.st
      c1 == st1.ch[i]
      last == LastOf(c1.sl)
  IN
  IF last.tg = mask THEN Ok(st1)
  ELSE
  LET ti == last.tf
      elapsed == ti - LastTargetTf(c1)
      d0 == Clip(cfg.minRet - elapsed, 0, cfg.minRet)
      d1 == IF cfg.fixRet # 0 THEN Max2(d0, cfg.fixRet) ELSE d0
      a == IF d1 # 0 THEN Adjust(cfg, d1) ELSE [out |-> "ok", v |-> 0]
  IN
  IF a.out # "ok" THEN Err(st1, a.out)
  ELSE IF OverMax(st1, ti + a.v) THEN Err(st1, "RE")
  ELSE Ok([st1 EXCEPT !.ch[i].sl = Append(@, TSlot(ti, ti + a.v, mask))])

(* _Schedule._find_add_delay: scan of the OTHER channels in schedule order; *)
(* the running maximum is threaded through the channels; the fall time is   *)
(* taken with the other channel's CURRENT EOM mode.                         *)
FindAddDelay(st, i, t0, proto) ==
  LET mytg == LastOf(st.ch[i].sl).tg
      nq == NQ(st)
      RECURSIVE overCh(_, _)
      overCh(j, cur) ==
        IF j > Len(st.ch) THEN cur
        ELSE IF j = i THEN overCh(j + 1, cur)
        ELSE
        LET c == st.ch[j]
            cfg == CfgOf(st, j)
            eom == InEom(c)
            RECURSIVE scan(_)
            scan(k) ==
              IF k = 0 THEN cur
              ELSE LET op == c.sl[k] IN
                   IF op.k # "p"
                   THEN (IF op.tf + 2 * cfg.rise <= cur THEN cur ELSE scan(k - 1))
                   ELSE IF op.tf + FallOf(op, eom) <= cur THEN cur
                   ELSE IF Meet(op.tg, mytg, nq) \/ proto = "wait-for-all"
                   THEN op.tf + FallOf(op, eom)
                   ELSE scan(k - 1)
        IN overCh(j + 1, scan(Len(c.sl)))
  IN overCh(1, t0)

(* phase drift parameters of the EOM corrections (_PhaseDriftParams): rate in  *)
(* 1e-6 rad/us, times in ns, result in 1e-6 rad (only used by configurations   *)
(* whose phase unit is 1e-6 rad); computed in two parts to stay within 32 bits *)
NoDrift == [on |-> FALSE, rate |-> 0, ti |-> 0]
DriftAt(dp, t) ==
  IF dp.on
  THEN (dp.rate \div 1000) * (t - dp.ti) + ((dp.rate % 1000) * (t - dp.ti)) \div 1000
  ELSE 0

(* _Schedule.make_next_pulse_slot; ph is the phase AFTER adding the reference *)
(* (Pulse.__init__ has already reduced it modulo 2*pi)                        *)
MakeSlot(st, i, dur, ph, barrier, proto, dp) ==
  LET c == st.ch[i]
      cfg == CfgOf(st, i)
      last == LastOf(c.sl)
      t0 == last.tf
      cur0 == Max2(t0, barrier)
      cur1 == IF proto # "no-delay" THEN FindAddDelay(st, i, cur0, proto) ELSE cur0
      lp == LastPulseIdx(c, TRUE)
      \* the comparison is made on the un-reduced corrected phase
      differs == lp # 0 /\ c.sl[lp].ph # ph - DriftAt(dp, cur1)
      eom == InEom(c)
      pjb == IF proto # "no-delay" /\ differs
             THEN Max2(cfg.pjt, IF eom THEN 2 * cfg.rise ELSE 0)
                  + FallOf(c.sl[lp], eom) - (t0 - c.sl[lp].tf)
             ELSE 0
      d0 == Max2(cur1 - t0, pjb)
      a == IF d0 > 0 THEN Adjust(cfg, d0) ELSE [out |-> "ok", v |-> 0]
  IN
  IF a.out # "ok" THEN [out |-> a.out, ti |-> 0, tf |-> 0, ph |-> 0, over |-> FALSE]
  ELSE [out |-> "ok", ti |-> t0 + a.v, tf |-> t0 + a.v + dur,
        ph |-> PMod(ph - DriftAt(dp, t0 + a.v)),
        over |-> OverMax(st, t0 + a.v + dur)]

(* _Schedule.add_pulse: slot computed first, then the delay, then the slot *)
AddPulse(st, i, dur, ph, barrier, proto, dp, fs, fe, dd, w) ==
  LET m == MakeSlot(st, i, dur, ph, barrier, proto, dp) IN
  IF m.out # "ok" THEN Err(st, m.out)
  ELSE IF m.over THEN Err(st, "RE")
  ELSE
  LET last == LastOf(st.ch[i].sl)
      r == IF m.ti - last.tf > 0 THEN AddDelay(st, i, m.ti - last.tf) ELSE Ok(st)
  IN
  IF r.out # "ok" THEN r
  ELSE Ok([r.st EXCEPT !.ch[i].sl =
             Append(@, PSlot(m.ti, m.tf, last.tg, m.ph, fs, fe, dd, w))])

-----------------------------------------------------------------------------
(* Phase references: _QubitRef / _PhaseTracker *)
NewRef == [lu |-> 0, ts |-> <<0>>, ps |-> <<0>>]

IncPhase(r, phi) ==
  LET t == r.lu
      np == PMod(LastOf(r.ps) + phi)
      Hit == {k \in 1..Len(r.ts) : r.ts[k] = t}
  IN
  IF Hit # {}
  THEN LET k == CHOOSE k \in Hit : \A j \in Hit : k <= j IN [r EXCEPT !.ps[k] = np]
  ELSE LET pos == Cardinality({k \in 1..Len(r.ts) : r.ts[k] <= t}) + 1 IN
       [r EXCEPT !.ts = InsertAt(@, pos, t), !.ps = InsertAt(@, pos, np)]

(* Sequence._phase_shift on the qubits of mask (mask # 0), basis index bi *)
ShiftRefs(st, bi, mask, phi) ==
  [st EXCEPT !.rf[bi].q =
     [q \in 1..NQ(st) |-> IF HasBit(mask, q) THEN IncPhase(@[q], phi) ELSE @[q]]]

TouchRefs(st, bi, mask, t) ==
  [st EXCEPT !.rf[bi].q =
     [q \in 1..NQ(st) |-> IF HasBit(mask, q)
                           THEN [@[q] EXCEPT !.lu = Max2(@, t)] ELSE @[q]]]

RefPhases(st, bi, mask) == {LastOf(st.rf[bi].q[q].ps) : q \in {x \in 1..NQ(st) : HasBit(mask, x)}}
RefBarrier(st, bi, mask) ==
  LET T == {LastOf(st.rf[bi].q[q].ts) : q \in {x \in 1..NQ(st) : HasBit(mask, x)}}
  IN IF T = {} THEN 0 ELSE CHOOSE t \in T : \A u \in T : u <= t

-----------------------------------------------------------------------------
(* Channel.validate_pulse on the integer facts of a pulse *)
ValidPulse(cfg, P) ==
  IF ~P.fin THEN "VE"
  ELSE IF cfg.maxAmp # -1 /\ P.am > cfg.maxAmp THEN "VE"
  ELSE IF cfg.maxDet # -1 /\ P.dm > cfg.maxDet THEN "VE"
  ELSE IF P.av > 0 /\ P.av < cfg.minAvg THEN "VE"
  ELSE "ok"

(* Sequence.is_measured(): the stored measurement once the sequence is parametrized *)
Measured(st) == IF st.bld THEN st.meas # "" ELSE st.pm # ""
Protocols == {"min-delay", "no-delay", "wait-for-all"}

(* Sequence._validate_channel *)
ValidChanS(st, nm, blockEom, blockSlm) ==
  LET i == ChIdx(st, nm) IN
  IF i = 0 THEN "VE"
  ELSE IF blockEom /\ InEom(st.ch[i]) THEN "RE"
  ELSE IF blockSlm /\ st.slmNm = nm /\ st.ch[i].wt THEN "VE"
  ELSE "ok"
ValidChan(st, nm, blockEom) == ValidChanS(st, nm, blockEom, FALSE)
IsDmmName(nm) == nm >= 100

(* DMM.validate_pulse; M = <<2 * max weight, 2 * sum of weights>> of the detuning map *)
ValidDmmPulse(cfg, P, M) ==
  IF ValidPulse(cfg, P) # "ok" THEN "VE"
  ELSE IF P.dx > 0 THEN "VE"
  ELSE IF cfg.bottom # NoLim /\ M[1] * P.dn < 2 * cfg.bottom THEN "VE"
  ELSE IF cfg.tbottom # NoLim /\ M[2] * P.dn < 2 * cfg.tbottom THEN "VE"
  ELSE "ok"

PopCount(m, nq) == Cardinality({q \in 1..nq : HasBit(m, q)})

(* Sequence._add after validation, without the SLM trigger.                  *)
(* P = [dur, ph, pps, dd, fs, fe, w] already validated and duration-adjusted *)
AddCore0(st, i, P, proto, dp) ==
  LET c == st.ch[i]
      cfg == CfgOf(st, i)
      last == LastOf(c.sl)
      bi == RefIdx(st, cfg.basis)
      refs == RefPhases(st, bi, last.tg)
      isDmm == cfg.kind = "dmm"
  IN
  IF ~isDmm /\ Cardinality(refs) # 1 THEN Err(st, "VE")
  ELSE
  LET ref == IF isDmm THEN 0 ELSE CHOOSE x \in refs : TRUE
      ph == PMod(P.ph + ref)
      barrier == RefBarrier(st, bi, last.tg)
      r == AddPulse(st, i, P.dur, ph, barrier, proto, dp, P.fs, P.fe, P.dd, P.w)
  IN
  IF r.out # "ok" THEN r
  ELSE
  LET new == LastOf(r.st.ch[i].sl)
      st2 == TouchRefs(r.st, bi, last.tg, new.tf)
      shift == P.pps - DriftAt(dp, new.ti)
  IN Ok(IF shift # 0 THEN ShiftRefs(st2, bi, last.tg, shift) ELSE st2)

(* Sequence._modulate_slm_mask_dmm: the DMM of the SLM mask gets one pulse    *)
(* 0 -> dur of detuning max(-10 * amax, bottom, total bottom / #targets)      *)
ModulateSlm(st, dur, amax) ==
  LET j == ChIdx(st, st.slmNm)
      cfg == CfgOf(st, j)
      n == PopCount(st.slmTg, NQ(st))
      m0 == -10 * amax
      m1 == IF cfg.bottom # NoLim /\ cfg.bottom # 0 /\ m0 < cfg.bottom THEN cfg.bottom ELSE m0
      m2 == IF cfg.tbottom # NoLim /\ cfg.tbottom # 0 /\ m1 * n < cfg.tbottom
            THEN (IF cfg.tbottom % n = 0 THEN cfg.tbottom \div n
                  ELSE Assert(FALSE, <<"total bottom not divisible", cfg.tbottom, n>>))
            ELSE m1
      st1 == [st EXCEPT !.ch[j].wt = FALSE]
      P == [fin |-> TRUE, am |-> 0, av |-> 0, dm |-> Abs(m2), dn |-> m2, dx |-> m2]
      v == VDur(cfg, dur)
  IN
  IF cfg.rise # 0 THEN Assert(FALSE, "modulated DMM not supported by the model")
  ELSE IF Measured(st1) /\ FALSE THEN Err(st1, "RE")       \* _add is not block_if_measured
  ELSE IF ValidDmmPulse(cfg, P, st1.ch[j].mp) # "ok" THEN Err(st1, "VE")
  ELSE IF v.out # "ok" THEN Err(st1, v.out)
  ELSE AddCore0(st1, j, [dur |-> v.v, ph |-> 0, pps |-> 0, dd |-> TRUE, fs |-> 0, fe |-> 0,
                         w |-> ConstW(v.v, 0, m2)], "no-delay", NoDrift)

(* Sequence._add: AddCore0 followed by the SLM trigger (first non-detuned-delay *)
(* pulse on a Global non-DMM channel while the SLM DMM is waiting)              *)
AddCore(st, i, P, proto, dp) ==
  LET r == AddCore0(st, i, P, proto, dp)
      cfg == CfgOf(st, i)
  IN
  IF r.out # "ok" THEN r
  ELSE IF /\ r.st.mode = "ising" /\ r.st.slmNm # 0
          /\ r.st.ch[ChIdx(r.st, r.st.slmNm)].wt
          /\ cfg.addr = "G" /\ ~P.dd /\ cfg.kind # "dmm"
       THEN ModulateSlm(r.st, ChanDur(r.st.ch[i]), P.w[4])
       ELSE r

(* Sequence.add *)
Add(st, nm, p, proto) ==
  IF Measured(st) THEN Err(st, "RE")
  ELSE LET vc == ValidChanS(st, nm, TRUE, IsDmmName(nm)) IN
  IF vc # "ok" THEN Err(st, vc)
  ELSE
  LET i == ChIdx(st, nm)
      cfg == CfgOf(st, i)
      P == Pulses[p]
  IN
  IF cfg.kind = "dmm" THEN Err(st, "VE")
  ELSE IF proto \notin Protocols THEN Err(st, "VE")
  ELSE IF Len(st.ch[i].sl) = 0 THEN Err(st, "VE")
  ELSE IF Cardinality(RefPhases(st, RefIdx(st, cfg.basis), LastOf(st.ch[i].sl).tg)) # 1
       THEN Err(st, "VE")
  ELSE IF ValidPulse(cfg, P) # "ok" THEN Err(st, ValidPulse(cfg, P))
  ELSE
  LET v == VDur(cfg, P.dur) IN
  IF v.out # "ok" THEN Err(st, v.out)
  ELSE IF v.v # P.dur /\ ~P.rs THEN Err(st, "TE")
  ELSE
  LET f == PF[st.dev][st.ch[i].cid][p] IN
  \* the pulse re-created with the adjusted duration must itself be constructible (f.ok is
  \* observed on the working tree when the configuration is instantiated; always true there)
  IF ~f.ok THEN Err(st, "VE")
  ELSE
  LET r == AddCore(st, i, [dur |-> v.v, ph |-> P.ph, pps |-> P.pps, dd |-> P.dd,
                           fs |-> f.fs, fe |-> f.fe, w |-> f.w], proto, NoDrift)
  IN IF r.out = "ok" THEN Ok([r.st EXCEPT !.empty = FALSE, !.lg = Append(@, "add")]) ELSE r

(* Sequence.estimate_added_delay (read-only) *)
Estimate(st, nm, p, proto) ==
  LET vc == ValidChanS(st, nm, FALSE, IsDmmName(nm)) IN
  IF vc # "ok" THEN Err(st, vc)
  ELSE IF proto \notin Protocols THEN Err(st, "VE")
  ELSE
  LET i == ChIdx(st, nm)
      cfg == CfgOf(st, i)
      P == Pulses[p]
  IN
  IF Len(st.ch[i].sl) = 0 THEN Err(st, "VE")
  ELSE
  LET last == LastOf(st.ch[i].sl)
      bi == RefIdx(st, cfg.basis)
      refs == RefPhases(st, bi, last.tg)
  IN
  IF cfg.kind # "dmm" /\ Cardinality(refs) # 1 THEN Err(st, "VE")
  ELSE IF cfg.kind = "dmm" /\ ValidDmmPulse(cfg, P, st.ch[i].mp) # "ok" THEN Err(st, "VE")
  ELSE IF ValidPulse(cfg, P) # "ok" THEN Err(st, ValidPulse(cfg, P))
  ELSE
  LET v == VDur(cfg, P.dur) IN
  IF v.out # "ok" THEN Err(st, v.out)
  ELSE IF v.v # P.dur /\ ~P.rs THEN Err(st, "TE")
  ELSE
  LET ref == IF cfg.kind = "dmm" THEN 0 ELSE CHOOSE x \in refs : TRUE
      m == MakeSlot(st, i, v.v, PMod(P.ph + ref), RefBarrier(st, bi, last.tg), proto, NoDrift)
  IN IF m.out # "ok" THEN Err(st, m.out) ELSE OkR(st, m.ti - last.tf)

(* Sequence._target (after block_if_measured) *)
TargetCore(st, nm, mask) ==
  IF Measured(st) THEN Err(st, "RE")
  ELSE LET vc == ValidChan(st, nm, TRUE) IN
  IF vc # "ok" THEN Err(st, vc)
  ELSE
  LET i == ChIdx(st, nm)
      cfg == CfgOf(st, i)
      nq == NQ(st)
      cnt == Cardinality({q \in 1..nq : HasBit(mask, q)})
  IN
  IF mask = 0 THEN Err(st, "VE")
  ELSE IF cfg.addr # "L" THEN Err(st, "VE")
  ELSE IF cfg.maxTg # -1 /\ cnt + (IF mask > AllMask(nq) THEN 1 ELSE 0) > cfg.maxTg
       THEN Err(st, "VE")
  ELSE IF mask > AllMask(nq) THEN Err(st, "VE")    \* an id that is not in the register
  ELSE IF Cardinality(RefPhases(st, RefIdx(st, cfg.basis), mask)) # 1 THEN Err(st, "VE")
  ELSE AddTarget(st, i, mask)

Target(st, nm, mask) ==
  LET r == TargetCore(st, nm, mask) IN
  IF r.out = "ok" THEN Ok([r.st EXCEPT !.lg = Append(@, "target")]) ELSE r

(* Sequence._delay *)
DelayCore(st, nm, d, rest) ==
  IF Measured(st) THEN Err(st, "RE")
  ELSE LET vc == ValidChanS(st, nm, FALSE, TRUE) IN
  IF vc # "ok" THEN Err(st, vc)
  ELSE
  LET i == ChIdx(st, nm)
      r == IF rest THEN WaitForFall(st, i) ELSE Ok(st)
  IN
  IF r.out # "ok" THEN r
  ELSE IF d = 0 THEN r
  ELSE AddDelay(r.st, i, d)

Delay(st, nm, d, rest) ==
  LET r == DelayCore(st, nm, d, rest) IN
  IF r.out = "ok" THEN Ok([r.st EXCEPT !.lg = Append(@, "delay")]) ELSE r

(* Sequence.align: the common end is read once (with fall time if at_rest),  *)
(* then the channels are delayed one after the other up to it, counting from *)
(* the end of their last instruction (each may raise after earlier ones      *)
(* changed)                                                                  *)
Align(st, nms, rest) ==
  IF Measured(st) THEN Err(st, "RE")
  ELSE IF \E k \in 1..Len(nms) : ChIdx(st, nms[k]) = 0 THEN Err(st, "VE")
  ELSE IF \E k, l \in 1..Len(nms) : k # l /\ nms[k] = nms[l] THEN Err(st, "VE")
  ELSE IF Len(nms) < 2 THEN Err(st, "VE")
  ELSE
  LET End(nm) == LET i == ChIdx(st, nm) IN
                 IF rest THEN ChanDurFall(CfgOf(st, i), st.ch[i]) ELSE ChanDur(st.ch[i])
      tf == LET E == {End(nms[k]) : k \in 1..Len(nms)} IN CHOOSE t \in E : \A u \in E : u <= t
      RECURSIVE loop(_, _)
      loop(k, cur) ==
        IF k > Len(nms) THEN Ok(cur)
        ELSE LET delta == tf - ChanDur(st.ch[ChIdx(st, nms[k])]) IN
             IF delta > 0
             THEN LET a == Adjust(CfgOf(st, ChIdx(st, nms[k])), delta) IN
                  IF a.out # "ok" THEN Err(cur, a.out)
                  ELSE LET r == DelayCore(cur, nms[k], a.v, FALSE) IN
                       IF r.out # "ok" THEN r ELSE loop(k + 1, r.st)
             ELSE loop(k + 1, cur)
      res == loop(1, st)
  IN IF res.out = "ok" THEN Ok([res.st EXCEPT !.lg = Append(@, "align")]) ELSE res

(* Sequence.phase_shift (no block_if_measured, no EOM guard) *)
PhaseShift(st, phi, mask, basis) ==
  LET bi == RefIdx(st, basis)
      nq == NQ(st)
  IN
  IF bi = 0 THEN Err(st, "VE")
  ELSE IF mask > AllMask(nq) THEN Err(st, "VE")
  ELSE LET m == IF mask = 0 THEN AllMask(nq) ELSE mask IN
       Ok([ShiftRefs(st, bi, m, phi) EXCEPT !.lg = Append(@, "phase_shift")])

SupportedBases(st) ==
  {DevOf(st).chs[k].basis : k \in {x \in 1..Len(DevOf(st).chs) : DevOf(st).chs[x].kind # "dmm"}}

(* Sequence.measure *)
Measure(st, basis) ==
  IF Measured(st) THEN Err(st, "RE")
  ELSE LET avail == IF st.mode = "xy" THEN {"XY"} ELSE SupportedBases(st) \ {"XY"} IN
       IF basis \notin avail THEN Err(st, "VE")
       ELSE Ok([st EXCEPT !.meas = basis, !.lg = Append(@, "measure")])

(* Sequence.get_duration(channel): read-only, refused (screen) once parametrized *)
GetDuration(st, nm) ==
  IF ~st.bld THEN Err(st, "RE")
  ELSE IF ChIdx(st, nm) = 0 THEN Err(st, "VE")
  ELSE OkR(st, ChanDur(st.ch[ChIdx(st, nm)]))

(* Sequence.available_channels restricted to one id *)
(* DMM ids whose configuration is only stored (parametrized sequence) count as declared *)
StoredDmmCids(st) == {st.tb[k][2] : k \in {x \in 1..Len(st.tb) : st.tb[x][1] = "detmap"}}
Occupied(st, cid) == (\E j \in 1..Len(st.ch) : st.ch[j].cid = cid) \/ cid \in StoredDmmCids(st)
Avail(st, cid) ==
  LET D == DevOf(st)
      cfg == D.chs[cid]
  IN
  IF st.mode = "none" THEN ~(st.slmDmm = cid /\ ~D.reusable)
  ELSE /\ (~Occupied(st, cid) \/ D.reusable)
       /\ IF st.mode = "xy" THEN (cfg.basis = "XY" \/ (cfg.kind = "dmm" /\ st.slmDmm = 0))
          ELSE cfg.basis # "XY"

(* ---- DMM / SLM ---------------------------------------------------------- *)
DmmOrdinal(D, cid) == Cardinality({k \in 1..(cid - 1) : D.chs[k].kind = "dmm"})
DmmNm(st, cid) ==
  100 + DmmOrdinal(DevOf(st), cid)
      + 10 * Cardinality({j \in 1..Len(st.ch) : st.ch[j].cid = cid})

(* Sequence._config_detuning_map, entering Ising mode or not (enter = FALSE when *)
(* called from the _in_ising setter itself, which has already switched modes)    *)
EnsureRef(st, basis) ==
  IF RefIdx(st, basis) = 0
  THEN [st EXCEPT !.rf = Append(@, [b |-> basis, q |-> [x \in 1..NQ(st) |-> NewRef]])]
  ELSE st

(* wq = detuning-map weight of every qubit, in halves *)
WeightFacts(wq) ==
  LET n == Len(wq)
      mx == IF n = 0 THEN 0 ELSE CHOOSE m \in {wq[k] : k \in 1..n} : \A k \in 1..n : wq[k] <= m
      RECURSIVE sum(_)
      sum(k) == IF k = 0 THEN 0 ELSE wq[k] + sum(k - 1)
  IN <<mx, sum(n)>>

AppendDmm(st, mp, wq, cid) ==
  LET nm == DmmNm(st, cid)
      st1 == [st EXCEPT !.ch = Append(@, [nm |-> nm, cid |-> cid,
                                          sl |-> <<TSlot(-1, 0, AllMask(NQ(st)))>>,
                                          eb |-> <<>>, wt |-> FALSE, mp |-> mp,
                                          wq |-> wq])]
  IN EnsureRef(st1, "ground-rydberg")

DmmChecks(st, cid) ==
  IF cid < 1 \/ cid > Len(DevOf(st).chs) THEN "VE"
  ELSE IF DevOf(st).chs[cid].kind # "dmm" THEN "VE"
  ELSE IF st.mode = "xy" THEN "VE"
  ELSE IF ~Avail(st, cid) THEN "VE"
  ELSE "ok"

(* _Schedule.find_slm_mask_times: the first real pulse of the global non-DMM   *)
(* channel that starts the earliest; <<>> if none                               *)
FirstRealPulse(c) ==
  LET I == {k \in 1..Len(c.sl) : c.sl[k].k = "p" /\ ~c.sl[k].dd}
  IN IF I = {} THEN 0 ELSE CHOOSE k \in I : \A l \in I : k <= l
GlobalChans(st) ==
  {j \in 1..Len(st.ch) : CfgOf(st, j).addr = "G" /\ CfgOf(st, j).kind # "dmm"}
SlmTimes(st) ==
  LET J == {j \in GlobalChans(st) : FirstRealPulse(st.ch[j]) # 0}
      Ti(j) == st.ch[j].sl[FirstRealPulse(st.ch[j])].ti
  IN IF J = {} THEN <<>>
     ELSE LET j == CHOOSE j \in J : \A l \in J : Ti(j) < Ti(l) \/ (Ti(j) = Ti(l) /\ j <= l)
          IN <<Ti(j), st.ch[j].sl[FirstRealPulse(st.ch[j])].tf>>

(* max of the amplitude samples of channel c before time tf (pulses that straddle *)
(* tf must be flat for the model to know the maximum of the part before tf)       *)
MaxAmpBefore(c, tf) ==
  LET I == {k \in 1..Len(c.sl) : c.sl[k].k = "p" /\ c.sl[k].ti < tf}
      A(k) == IF c.sl[k].tf <= tf \/ (c.sl[k].w[2] = c.sl[k].w[4] /\ c.sl[k].w[3] = c.sl[k].w[4])
              THEN c.sl[k].w[4]
              ELSE Assert(FALSE, "non-flat pulse straddles the SLM mask end")
  IN IF I = {} THEN 0 ELSE LET k == CHOOSE k \in I : \A l \in I : A(l) <= A(k) IN A(k)

(* Sequence._set_slm_mask_dmm (mode is already Ising) *)
SetSlmDmm(st, cid, tg) ==
  LET chk == DmmChecks(st, cid) IN
  IF chk # "ok" THEN Err(st, chk)
  ELSE
  LET n == PopCount(tg, NQ(st))
      wq0 == [q \in 1..NQ(st) |-> IF HasBit(tg, q) THEN 2 ELSE 0]
      st1 == AppendDmm(st, WeightFacts(wq0), wq0, cid)
      nm == LastOf(st1.ch).nm
      st2 == [st1 EXCEPT !.slmDmm = cid, !.slmNm = nm]
      tms == SlmTimes(st2)
  IN
  IF tms = <<>> THEN Ok([st2 EXCEPT !.ch[Len(st2.ch)].wt = TRUE])
  ELSE IF \E j \in GlobalChans(st2) : ChanDur(st2.ch[j]) = 0
       THEN Err(st2, "VE")      \* Quirk: np.max of the empty sample array of an idle global channel
  ELSE LET G == GlobalChans(st2)
           M(j) == MaxAmpBefore(st2.ch[j], tms[2])
           j == CHOOSE j \in G : \A l \in G : M(l) <= M(j)
       IN ModulateSlm(st2, tms[2], M(j))

(* the _in_ising setter *)
EnterIsing(st) ==
  IF st.mode # "none" THEN Ok(st)
  ELSE LET st1 == [st EXCEPT !.mode = "ising"] IN
       IF st.slmDmm # 0 THEN SetSlmDmm(st1, st.slmDmm, st.slmTg) ELSE Ok(st1)

(* Sequence.config_detuning_map; mp = <<2 * max, 2 * sum>> of the weights of the map's own traps, *)
(* wq = weight of every qubit of the register in halves (the two differ when the map has traps    *)
(* that carry no qubit)                                                                           *)
ConfigDetMap(st, mp, wq, cid) ==
  IF Measured(st) THEN Err(st, "RE")
  ELSE LET chk == DmmChecks(st, cid) IN
  IF chk # "ok" THEN Err(st, chk)
  ELSE LET r == EnterIsing(st) IN
  IF r.out # "ok" THEN r
  ELSE Ok([AppendDmm(r.st, mp, wq, cid) EXCEPT !.lg = Append(@, "config_detuning_map")])

(* Sequence.config_slm_mask (not blocked after measurement) *)
ConfigSlm(st, tg, cid) ==
  LET D == DevOf(st) IN
  IF ~D.slm THEN Err(st, "VE")
  ELSE IF tg = 0 THEN Assert(FALSE, "empty SLM target set is outside the model")
  ELSE IF tg > AllMask(NQ(st)) THEN Err(st, "VE")
  ELSE IF st.slmTg # 0 THEN Err(st, "VE")
  ELSE
  LET r == IF st.mode # "ising"
           THEN (IF cid < 1 \/ cid > Len(D.chs) THEN Err(st, "VE")
                 ELSE IF D.chs[cid].kind # "dmm" THEN Err(st, "VE")
                 ELSE Ok([st EXCEPT !.slmDmm = cid]))
           ELSE SetSlmDmm(st, cid, tg)
  IN IF r.out # "ok" THEN r
     ELSE Ok([r.st EXCEPT !.slmTg = tg, !.lg = Append(@, "config_slm_mask")])

(* Sequence.add_dmm_detuning: the detuning waveform of catalogue pulse p *)
AddDmm(st, nm, p, proto) ==
  IF Measured(st) THEN Err(st, "RE")
  ELSE LET vc == ValidChanS(st, nm, FALSE, TRUE) IN
  IF vc # "ok" THEN Err(st, vc)
  ELSE
  LET i == ChIdx(st, nm)
      cfg == CfgOf(st, i)
      P == Pulses[p]
  IN
  IF cfg.kind # "dmm" THEN Err(st, "VE")
  ELSE IF proto \notin Protocols THEN Err(st, "VE")
  ELSE IF ValidDmmPulse(cfg, P, st.ch[i].mp) # "ok" THEN Err(st, "VE")
  ELSE
  LET v == VDur(cfg, P.dur) IN
  IF v.out # "ok" THEN Err(st, v.out)
  ELSE IF v.v # P.dur /\ ~P.rs THEN Err(st, "TE")
  ELSE
  LET f == PF[st.dev][st.ch[i].cid][p]
      r == AddCore(st, i, [dur |-> v.v, ph |-> P.ph, pps |-> P.pps, dd |-> P.dd,
                           fs |-> f.fs, fe |-> f.fe, w |-> f.w], proto, NoDrift)
  IN IF r.out = "ok"
     THEN Ok([r.st EXCEPT !.empty = FALSE, !.lg = Append(@, "add_dmm_detuning")]) ELSE r

(* Sequence.set_magnetic_field; zero = the given vector has norm 0 *)
MagField(st, zero) ==
  IF st.mode # "xy" /\ Len(st.ch) > 0 THEN Err(st, "VE")
  ELSE IF st.mode = "xy" /\ ~st.empty THEN Err(st, "VE")
  ELSE IF zero THEN Err(st, "VE")
  ELSE Ok([st EXCEPT !.mode = "xy", !.lg = Append(@, "set_magnetic_field")])

(* target() of a parametrized sequence on a just-declared local channel (used by *)
(* declare_channel for its initial target): validated, then stored              *)
TemplateTarget(st, nm, tg) ==
  LET cfg == CfgOf(st, ChIdx(st, nm))
      nq == NQ(st)
      cnt == Cardinality({q \in 1..nq : HasBit(tg, q)}) + (IF tg > AllMask(nq) THEN 1 ELSE 0)
  IN IF cfg.maxTg # -1 /\ cnt > cfg.maxTg THEN Err(st, "VE")
     ELSE IF tg > AllMask(nq) THEN Err(st, "VE")
     ELSE Ok([st EXCEPT !.tb = Append(@, <<"target", nm>>)])

(* Sequence.declare_channel; it = initial target mask, 0 = None *)
Declare(st, nm, cid, it) ==
  IF Measured(st) THEN Err(st, "RE")
  ELSE IF ChIdx(st, nm) # 0 THEN Err(st, "VE")
  ELSE IF cid < 1 \/ cid > Len(DevOf(st).chs) THEN Err(st, "VE")
  ELSE IF DevOf(st).chs[cid].kind = "dmm" THEN Err(st, "VE")
  ELSE IF ~Avail(st, cid) THEN Err(st, "VE")
  ELSE
  LET cfg == DevOf(st).chs[cid]
      nq == NQ(st)
      \* XY: set_magnetic_field() logs its own call the first time
      r1 == IF cfg.basis = "XY"
            THEN Ok(IF st.mode # "xy"
                    THEN [st EXCEPT !.mode = "xy", !.lg = Append(@, "set_magnetic_field")]
                    ELSE st)
            ELSE EnterIsing(st)    \* may configure the DMM of a pending SLM mask first
  IN
  IF r1.out # "ok" THEN r1
  ELSE
  LET st1 == r1.st
      st2 == [st1 EXCEPT !.ch = Append(@, [nm |-> nm, cid |-> cid, sl |-> <<>>, eb |-> <<>>,
                                           wt |-> FALSE, mp |-> <<0, 0>>, wq |-> <<>>])]
      st3 == EnsureRef(st2, cfg.basis)
      i == Len(st3.ch)
      r == IF cfg.addr = "G"
           THEN Ok([st3 EXCEPT !.ch[i].sl = <<TSlot(-1, 0, AllMask(nq))>>])
           ELSE IF it # 0
           THEN (IF st3.bld THEN TargetCore(st3, nm, it)
                 ELSE TemplateTarget(st3, nm, it))     \* stored as a public target() call
           ELSE Ok(st3)
  IN IF r.out = "ok" THEN Ok([r.st EXCEPT !.lg = Append(@, "declare_channel")]) ELSE r

-----------------------------------------------------------------------------
(* EOM mode *)
(* Sequence._get_last_eom_pulse_phase_drift *)
LastEomDrift(c) ==
  LET blk == LastOf(c.eb)
      lp == LastPulseIdx(c, TRUE)
      ltf == IF lp = 0 THEN 0 ELSE c.sl[lp].tf
  IN [on |-> TRUE, rate |-> -blk.doff, ti |-> Max2(blk.ti, ltf)]

(* _Schedule.enable_eom *)
EnableEomSched(st, i, sp, skipBuffer, skipWait) ==
  LET cfg == CfgOf(st, i)
      S == SetP(st, i, sp)
      blk0 == [ti |-> 0, tf |-> -1, sp |-> sp, amp |-> S.amp, don |-> S.don,
               doff |-> S.doff]
      r1 == IF ~skipBuffer /\ ChanDur(st.ch[i]) # 0
            THEN
              LET r0 == IF ~skipWait THEN WaitForFall(st, i) ELSE Ok(st) IN
              IF r0.out # "ok" THEN r0
              ELSE
              LET a == Adjust(cfg, cfg.ebuf) IN
              IF a.out # "ok" THEN Err(r0.st, a.out)
              ELSE IF S.doff # 0
              THEN LET c0 == r0.st.ch[i]
                       f == CFall(r0.st, i, sp, 2, a.v)
                   IN AddPulse(r0.st, i, a.v, LastPulsePhase(c0), 0, "no-delay", NoDrift,
                               f[1], f[2], TRUE, ConstW(a.v, 0, S.doff))
              ELSE AddDelay(r0.st, i, a.v)
            ELSE Ok(st)
  IN
  IF r1.out # "ok" THEN r1
  ELSE Ok([r1.st EXCEPT !.ch[i].eb =
             Append(@, [blk0 EXCEPT !.ti = LastOf(r1.st.ch[i].sl).tf])])

(* _Schedule.disable_eom: the block is closed BEFORE anything that can raise *)
DisableEomSched(st, i, skipBuffer) ==
  LET cfg == CfgOf(st, i)
      n == Len(st.ch[i].eb)
      st1 == [st EXCEPT !.ch[i].eb[n].tf = LastOf(st.ch[i].sl).tf]
  IN
  IF skipBuffer THEN Ok(st1)
  ELSE IF cfg.ecustom
  THEN LET a == Adjust(cfg, cfg.ebuf) IN
       IF a.out # "ok" THEN Err(st1, a.out) ELSE AddDelay(st1, i, a.v)
  ELSE WaitForFall(st1, i)

(* Sequence.enable_eom_mode; sp indexes the setpoint lattice of the channel *)
EnableEom(st, nm, sp, cpd) ==
  IF Measured(st) THEN Err(st, "RE")
  ELSE LET vc == ValidChan(st, nm, FALSE) IN      \* is_in_eom_mode -> _validate_channel
  IF vc # "ok" THEN Err(st, vc)
  ELSE
  LET i == ChIdx(st, nm)
      cfg == CfgOf(st, i)
  IN
  IF InEom(st.ch[i]) THEN Err(st, "RE")
  ELSE IF ~cfg.eom THEN Err(st, "TE")
  ELSE
  LET S == SetP(st, i, sp) IN
  IF S.out # "ok" THEN Err(st, S.out)              \* _process_eom_parameters
  ELSE IF Len(st.ch[i].sl) = 0 THEN Err(st, "VE")  \* self[channel_id][-1] on a channel without target
  ELSE
  LET origin == ChanDurFall(cfg, st.ch[i])
      r == EnableEomSched(st, i, sp, FALSE, FALSE)
  IN
  IF r.out # "ok" THEN r
  ELSE
  LET buf == LastOf(r.st.ch[i].sl)
      dp == [on |-> TRUE, rate |-> -S.doff, ti |-> origin]
      st2 == IF cpd
             THEN ShiftRefs(r.st, RefIdx(r.st, cfg.basis), buf.tg, -DriftAt(dp, buf.tf))
             ELSE r.st
  IN Ok([st2 EXCEPT !.lg = Append(@, "enable_eom_mode")])

(* Sequence.disable_eom_mode *)
DisableEom(st, nm, cpd) ==
  IF Measured(st) THEN Err(st, "RE")
  ELSE LET vc == ValidChan(st, nm, FALSE) IN
  IF vc # "ok" THEN Err(st, vc)
  ELSE
  LET i == ChIdx(st, nm)
      cfg == CfgOf(st, i)
  IN
  IF ~InEom(st.ch[i]) THEN Err(st, "RE")
  ELSE
  LET r == DisableEomSched(st, i, FALSE) IN
  IF r.out # "ok" THEN r
  ELSE
  LET c == r.st.ch[i]
      dp == LastEomDrift(c)
      st2 == IF cpd
             THEN ShiftRefs(r.st, RefIdx(r.st, cfg.basis), LastOf(c.sl).tg,
                            -DriftAt(dp, LastOf(c.eb).tf))
             ELSE r.st
  IN Ok([st2 EXCEPT !.lg = Append(@, "disable_eom_mode")])

(* Sequence.modify_eom_setpoint *)
ModifyEom(st, nm, sp, cpd) ==
  IF Measured(st) THEN Err(st, "RE")
  ELSE LET vc == ValidChan(st, nm, FALSE) IN
  IF vc # "ok" THEN Err(st, vc)
  ELSE
  LET i == ChIdx(st, nm)
      cfg == CfgOf(st, i)
  IN
  IF ~InEom(st.ch[i]) THEN Err(st, "RE")
  ELSE
  LET S == SetP(st, i, sp) IN
  IF S.out # "ok" THEN Err(st, S.out)
  ELSE
  LET r0 == DisableEomSched(st, i, TRUE)
      oldp == LastEomDrift(r0.st.ch[i])
      newp == [on |-> TRUE, rate |-> -S.doff, ti |-> ChanDur(r0.st.ch[i])]
      r == EnableEomSched(r0.st, i, sp, FALSE, TRUE)
  IN
  IF r.out # "ok" THEN r
  ELSE
  LET buf == LastOf(r.st.ch[i].sl)
      drift == DriftAt(oldp, buf.ti) + DriftAt(newp, buf.tf)
      st2 == IF cpd
             THEN ShiftRefs(r.st, RefIdx(r.st, cfg.basis), buf.tg, -drift)
             ELSE r.st
  IN Ok([st2 EXCEPT !.lg = Append(@, "modify_eom_setpoint")])

(* Sequence.add_eom_pulse *)
AddEomPulse(st, nm, dur, ph, pps, proto, cpd) ==
  IF Measured(st) THEN Err(st, "RE")
  ELSE LET vc == ValidChan(st, nm, FALSE) IN
  IF vc # "ok" THEN Err(st, vc)
  ELSE
  LET i == ChIdx(st, nm)
      cfg == CfgOf(st, i)
      c == st.ch[i]
  IN
  IF ~InEom(c) THEN Err(st, "RE")
  ELSE IF dur < 1 THEN Err(st, "VE")               \* ConstantWaveform: positive duration
  ELSE
  LET blk == LastOf(c.eb)
      dp == IF cpd THEN LastEomDrift(c) ELSE NoDrift
  IN
  IF proto \notin Protocols THEN Err(st, "VE")
  ELSE IF Cardinality(RefPhases(st, RefIdx(st, cfg.basis), LastOf(c.sl).tg)) # 1
       THEN Err(st, "VE")
  ELSE
  \* validate_pulse of the square pulse: within limits because the setpoint was
  LET v == VDur(cfg, dur) IN
  IF v.out # "ok" THEN Err(st, v.out)
  ELSE
  LET f == CFall(st, i, blk.sp, 1, v.v)
      r == AddCore(st, i, [dur |-> v.v, ph |-> PMod(ph), pps |-> PMod(pps),
                           dd |-> blk.amp = 0,
                           fs |-> f[1], fe |-> f[2],
                           w |-> ConstW(v.v, blk.amp, blk.don)],
                   proto, dp)
  IN IF r.out = "ok"
     THEN Ok([r.st EXCEPT !.empty = FALSE, !.lg = Append(@, "add_eom_pulse")]) ELSE r

-----------------------------------------------------------------------------
(* target_index / phase_shift_index (call records with idx = TRUE): an index outside the *)
(* register raises IndexError where an unknown id raises ValueError                      *)
IdxErr(st, c, r) ==
  IF "idx" \in DOMAIN c /\ c.idx /\ r.out = "VE" /\ c.tg > AllMask(NQ(st))
     /\ r.st = st
     /\ (c.op = "pshift" \/ LET i == ChIdx(st, c.nm) IN
                            i # 0 /\ CfgOf(st, i).addr = "L" /\ ~InEom(st.ch[i])
                            /\ (CfgOf(st, i).maxTg = -1
                                \/ PopCount(c.tg, NQ(st)) + 1 <= CfgOf(st, i).maxTg))
     /\ (c.op = "target" \/ RefIdx(st, c.basis) # 0)
  THEN Err(st, "IE")
  ELSE IF "idx" \in DOMAIN c /\ c.idx /\ r.out = "ok" /\ Len(r.st.lg) = Len(st.lg) + 1
  THEN [r EXCEPT !.st.lg[Len(r.st.lg)] = IF c.op = "target" THEN "target_index" ELSE "phase_shift_index"]
  ELSE r

(* Dispatcher: one call of the public API on a sequence that is being built *)
StepB(st, c) ==
  CASE c.op = "declare"  -> Declare(st, c.nm, c.cid, c.it)
    [] c.op = "getdur"   -> GetDuration(st, c.nm)
    [] c.op = "target"   -> IdxErr(st, c, Target(st, c.nm, c.tg))
    [] c.op = "delay"    -> Delay(st, c.nm, c.d, c.rest)
    [] c.op = "add"      -> Add(st, c.nm, c.p, c.proto)
    [] c.op = "est"      -> Estimate(st, c.nm, c.p, c.proto)
    [] c.op = "align"    -> Align(st, c.nms, c.rest)
    [] c.op = "pshift"   -> IdxErr(st, c, PhaseShift(st, c.phi, c.tg, c.basis))
    [] c.op = "measure"  -> Measure(st, c.basis)
    [] c.op = "eom_on"   -> EnableEom(st, c.nm, c.sp, c.cpd)
    [] c.op = "eom_off"  -> DisableEom(st, c.nm, c.cpd)
    [] c.op = "eom_mod"  -> ModifyEom(st, c.nm, c.sp, c.cpd)
    [] c.op = "eom_add"  -> AddEomPulse(st, c.nm, c.dur, c.ph, c.pps, c.proto, c.cpd)
    [] c.op = "detmap"   -> ConfigDetMap(st, c.mp, c.w2, c.cid)
    [] c.op = "slm"      -> ConfigSlm(st, c.tg, c.cid)
    [] c.op = "dmm_add"  -> AddDmm(st, c.nm, c.p, c.proto)
    [] c.op = "magfield" -> MagField(st, c.zero)

Init0(d) == [dev |-> d, mode |-> "none", meas |-> "", empty |-> TRUE,
             slmDmm |-> 0, slmNm |-> 0, slmTg |-> 0,
             ch |-> <<>>, rf |-> <<>>, lg |-> <<>>,
             bld |-> TRUE, tb |-> <<>>, pm |-> ""]

-----------------------------------------------------------------------------
(* Parametrized ("template") mode: from the first call that uses a variable  *)
(* (seq_decorators.verify_variable clears _building BEFORE anything else),   *)
(* the decorated building calls are only validated lightly and stored in     *)
(* _to_build_calls; declare_channel and set_magnetic_field still execute.    *)
(* st.tb = stored calls as <<op, channel name or 0>> (what is_in_eom_mode and *)
(* declared_channels scan); a call record with par = TRUE has its validated   *)
(* arguments given as variable expressions.                                   *)
IsPar(c) == "par" \in DOMAIN c /\ c.par
TbOf(c) == <<c.op, IF "nm" \in DOMAIN c THEN c.nm ELSE IF c.op = "detmap" THEN c.cid ELSE 0>>
Stored(st, c) == [st EXCEPT !.tb = Append(@, TbOf(c))]

(* Sequence.is_in_eom_mode of a parametrized sequence: the latest stored enable/disable *)
InEomT(st, nm) ==
  LET E == {k \in 1..Len(st.tb) : st.tb[k][2] = nm /\ st.tb[k][1] \in {"eom_on", "eom_off"}}
      i == ChIdx(st, nm)
  IN IF E = {} THEN (i # 0 /\ InEom(st.ch[i]))
     ELSE st.tb[CHOOSE k \in E : \A l \in E : l <= k][1] = "eom_on"

(* declared_channels: the schedule plus the DMMs whose configuration is stored *)
DeclaredT(st, nm) ==
  \/ ChIdx(st, nm) # 0
  \/ \E cid \in StoredDmmCids(st) : nm = 100 + DmmOrdinal(DevOf(st), cid)
CfgOfNameT(st, nm) ==
  IF ChIdx(st, nm) # 0 THEN CfgOf(st, ChIdx(st, nm))
  ELSE DevOf(st).chs[CHOOSE cid \in StoredDmmCids(st) : nm = 100 + DmmOrdinal(DevOf(st), cid)]

ValidChanT(st, nm, blockEom) ==
  IF ~DeclaredT(st, nm) THEN "VE"
  ELSE IF blockEom /\ InEomT(st, nm) THEN "RE"
  ELSE "ok"

TemplateStep(st, c) ==
  LET M == Measured(st) IN
  CASE c.op \in {"declare", "magfield"} -> StepB(st, c)
    [] c.op = "getdur" -> Err(st, "RE")
    [] c.op = "est" ->
         \* _validate_channel and the protocol check come first, then "can't compute ... parametrized"
         Err(st, "VE")
    [] c.op = "target" ->
         IF M THEN Err(st, "RE")
         ELSE LET vc == ValidChanT(st, c.nm, TRUE) IN
         IF vc # "ok" THEN Err(st, vc)
         ELSE LET cfg == CfgOfNameT(st, c.nm)
                  nq == NQ(st)
              IN
              IF c.tg = 0 THEN Err(st, "VE")
              ELSE IF cfg.addr # "L" THEN Err(st, "VE")
              ELSE IF cfg.maxTg # -1 /\ PopCount(c.tg, nq) + (IF c.tg > AllMask(nq) THEN 1 ELSE 0) > cfg.maxTg
                   THEN Err(st, "VE")
              ELSE IF c.tg > AllMask(nq) THEN Err(st, "VE")
              ELSE Ok(Stored(st, c))
    [] c.op = "delay" ->
         IF M THEN Err(st, "RE")
         ELSE IF ValidChanT(st, c.nm, FALSE) # "ok" THEN Err(st, "VE")
         ELSE Ok(Stored(st, c))
    [] c.op = "add" ->
         IF M THEN Err(st, "RE")
         ELSE LET vc == ValidChanT(st, c.nm, TRUE) IN
         IF vc # "ok" THEN Err(st, vc)
         ELSE LET cfg == CfgOfNameT(st, c.nm) IN
              IF cfg.kind = "dmm" THEN Err(st, "VE")
              ELSE IF c.proto \notin Protocols THEN Err(st, "VE")
              ELSE IF IsPar(c) THEN Ok([Stored(st, c) EXCEPT !.empty = FALSE])
              ELSE LET P == Pulses[c.p]
                       v == VDur(cfg, P.dur)
                   IN IF ValidPulse(cfg, P) # "ok" THEN Err(st, "VE")
                      ELSE IF v.out # "ok" THEN Err(st, v.out)
                      ELSE IF v.v # P.dur /\ ~P.rs THEN Err(st, "TE")
                      ELSE Ok([Stored(st, c) EXCEPT !.empty = FALSE])
    [] c.op = "eom_on" ->
         IF M THEN Err(st, "RE")
         ELSE IF ValidChanT(st, c.nm, FALSE) # "ok" THEN Err(st, "VE")
         ELSE IF InEomT(st, c.nm) THEN Err(st, "RE")
         ELSE LET cfg == CfgOfNameT(st, c.nm) IN
              IF ~cfg.eom THEN Err(st, "TE")
              ELSE IF ~IsPar(c) /\ SP[st.dev][st.ch[ChIdx(st, c.nm)].cid][c.sp].out # "ok"
                   THEN Err(st, SP[st.dev][st.ch[ChIdx(st, c.nm)].cid][c.sp].out)
              ELSE Ok(Stored(st, c))
    [] c.op = "eom_mod" ->
         IF M THEN Err(st, "RE")
         ELSE IF ValidChanT(st, c.nm, FALSE) # "ok" THEN Err(st, "VE")
         ELSE IF ~InEomT(st, c.nm) THEN Err(st, "RE")
         ELSE IF ~IsPar(c) /\ SP[st.dev][st.ch[ChIdx(st, c.nm)].cid][c.sp].out # "ok"
              THEN Err(st, SP[st.dev][st.ch[ChIdx(st, c.nm)].cid][c.sp].out)
         ELSE Ok(Stored(st, c))
    [] c.op = "eom_off" ->
         IF M THEN Err(st, "RE")
         ELSE IF ValidChanT(st, c.nm, FALSE) # "ok" THEN Err(st, "VE")
         ELSE IF ~InEomT(st, c.nm) THEN Err(st, "RE")
         ELSE Ok(Stored(st, c))
    [] c.op = "eom_add" ->
         IF M THEN Err(st, "RE")
         ELSE IF ValidChanT(st, c.nm, FALSE) # "ok" THEN Err(st, "VE")
         ELSE IF ~InEomT(st, c.nm) THEN Err(st, "RE")
         ELSE IF c.proto \notin Protocols THEN Err(st, "VE")
         ELSE IF ~IsPar(c) /\ VDur(CfgOfNameT(st, c.nm), c.dur).out # "ok" THEN Err(st, "VE")
         ELSE Ok([Stored(st, c) EXCEPT !.empty = FALSE])
    [] c.op = "align" ->
         IF M THEN Err(st, "RE")
         ELSE IF \E k \in 1..Len(c.nms) : ChIdx(st, c.nms[k]) = 0 THEN Err(st, "VE")
         ELSE IF \E k, l \in 1..Len(c.nms) : k # l /\ c.nms[k] = c.nms[l] THEN Err(st, "VE")
         ELSE IF Len(c.nms) < 2 THEN Err(st, "VE")
         ELSE Ok(Stored(st, c))
    [] c.op = "measure" ->
         IF M THEN Err(st, "RE")
         ELSE LET avail == IF st.mode = "xy" THEN {"XY"} ELSE SupportedBases(st) \ {"XY"} IN
              IF c.basis \notin avail THEN Err(st, "VE")
              ELSE Ok([Stored(st, c) EXCEPT !.pm = c.basis])
    [] c.op = "pshift" ->
         IF RefIdx(st, c.basis) = 0 THEN Err(st, "VE")
         ELSE IF c.tg > AllMask(NQ(st)) THEN Err(st, "VE")
         ELSE Ok(Stored(st, c))
    [] c.op = "detmap" ->
         IF M THEN Err(st, "RE")
         ELSE IF DmmChecks(st, c.cid) # "ok" THEN Err(st, "VE")
         ELSE IF st.slmDmm # 0 THEN Assert(FALSE, "SLM mask + parametrized detuning map: outside the model")
         ELSE Ok(Stored([st EXCEPT !.mode = "ising"], c))
    [] OTHER -> Assert(FALSE, <<"operation outside the template-mode model", c.op>>)

(* One public call: verify_variable first clears _building when the call uses a variable *)
Step(st, c) ==
  LET storedOp == c.op \notin {"declare", "magfield", "getdur", "est"}
      st1 == IF IsPar(c) /\ storedOp THEN [st EXCEPT !.bld = FALSE] ELSE st
  IN IF st1.bld THEN StepB(st1, c) ELSE TemplateStep(st1, c)

(* Replay of a list of calls (indices into Calls) from the initial state *)
RECURSIVE ReplayFrom(_, _, _)
ReplayFrom(st, cs, k) ==
  IF k > Len(cs) THEN st ELSE ReplayFrom(Step(st, Calls[cs[k]]).st, cs, k + 1)

=============================================================================
