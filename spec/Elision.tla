------------------------------- MODULE Elision -------------------------------
(***************************************************************************)
(* C17 (round trips): objects as records of fields with constructor        *)
(* defaults; the abstract representation writes a document in which some   *)
(* keys may be absent.                                                     *)
(*                                                                         *)
(* Reference semantics (from the class docstrings and the JSON schemas,    *)
(* not from the encoder):                                                  *)
(*   - a class is a list of fields; a field has a finite value domain      *)
(*     1..k (value ids; the harness owns the table id -> Python value),    *)
(*     a constructor default d (0 = the field is required) and an elision  *)
(*     rule e:                                                             *)
(*        "never"     the key is always written (it may hold null)         *)
(*        "ifdefault" the key is optional in the schema; it is left out    *)
(*                    iff the value equals the constructor default of the  *)
(*                    object's own class                                   *)
(*        "ifempty"   the key is left out iff the value is the empty       *)
(*                    collection (value id 1)                              *)
(*   - Ser(x)   = the partial map  field -> value id  of the written keys  *)
(*   - Deser(m) = every field absent from m takes the constructor default  *)
(*                of the class the decoder instantiates                    *)
(* Law of the design checked by TLC on every enumerated object:            *)
(*     Deser(Ser(x)) = x                                                   *)
(* (a field that is elided on one side and defaulted differently on the    *)
(* other breaks it; the one place where the design itself breaks it is     *)
(* named in DesignGap and handed to the harness as the expected decoded    *)
(* object, so that the implementation is still compared with the ORIGINAL  *)
(* by the harness and the discrepancy is reported against the property).   *)
(*                                                                         *)
(* Objects are built field by field (one action per field) so that the     *)
(* budget MaxDev - how many always-written fields may leave value id 1 at  *)
(* the same time - prunes the product early; every complete, valid object  *)
(* is one TLC state (the graph is a tree) and is printed once by Emit.     *)
(* Fields with an elision rule always range over their whole domain:       *)
(* every subset of optional fields at default / non-default value.         *)
(***************************************************************************)
EXTENDS Integers, Sequences, FiniteSets, TLC, Json

CONSTANTS Classes,    \* set of class names enumerated in this run
          K,          \* largest value id used in this run
          MaxDev      \* max. number of "never" fields away from value id 1
VARIABLE obj          \* [c: class, b: base variant, a: value ids chosen so far,
                      \*  u: number of free "never" fields away from value id 1]

F(n, k, d, e) == [n |-> n, k |-> k, d |-> d, e |-> e]
N == "never"
D == "ifdefault"
E == "ifempty"

(* ---- the channel fields shared by every channel class ------------------ *)
ChanCommon == <<
  F("max_abs_detuning", 2, 0, N),          \* 1: 125.0        2: None
  F("max_amp", 2, 0, N),                   \* 1: 12.5         2: None
  F("clock_period", 2, 1, N),              \* 1: 1            2: 4
  F("min_duration", 2, 1, N),              \* 1: 1            2: 16
  F("max_duration", 3, 1, N),              \* 1: 100000000    2: 4000   3: None
  F("mod_bandwidth", 2, 1, N),             \* 1: None         2: 4.0
  F("min_avg_amp", 2, 1, D),               \* 1: 0            2: 0.5
  F("custom_phase_jump_time", 3, 1, D) >>  \* 1: None         2: 20     3: 0

DeviceCommon(reqDefault) == <<
  F("max_sequence_duration", 2, 1, D),     \* 1: None   2: 10000
  F("max_runs", 2, 1, D),                  \* 1: None   2: 500
  F("optimal_layout_filling", 2, 1, D),    \* 1: None   2: 0.25
  F("max_layout_traps", 2, 1, D),          \* 1: None   2: 200
  F("default_noise_model", 2, 1, D),       \* 1: None   2: a NoiseModel
  F("requires_layout", 2, reqDefault, D),  \* 1: False  2: True
  F("min_layout_traps", 2, 1, D) >>        \* 1: 1      2: 4

T == [
  EOM |-> [nb |-> 2, f |-> <<
     F("limiting_beam", 2, 0, N),          \* RED, BLUE
     F("controlled_beams", 4, 0, N),       \* (RED), (BLUE), (RED,BLUE), (BLUE,RED)
     F("multiple_beam_control", 2, 1, D),  \* True, False
     F("custom_buffer_time", 2, 1, D),     \* None, 240
     F("blue_shift_coeff", 2, 1, D),       \* 1.0, 4.0
     F("red_shift_coeff", 2, 1, D) >>],    \* 1.0, 0.25
  \* bases of ChanGlobal: 1 Rydberg, 2 Raman, 3 Microwave
  ChanGlobal |-> [nb |-> 3, f |-> ChanCommon \o <<
     F("propagation_dir", 2, 1, D),        \* None, (1.0, 0.0, 0.0)
     F("eom_config", 3, 1, N) >>],         \* None, EOM with defaults, EOM with every option set
  \* bases of ChanLocal: 1 Rydberg, 2 Raman
  ChanLocal |-> [nb |-> 2, f |-> ChanCommon \o <<
     F("eom_config", 3, 1, N),
     F("min_retarget_interval", 2, 0, N),  \* 0, 220
     F("fixed_retarget_t", 2, 0, N),       \* 0, 8
     F("max_targets", 3, 1, N) >>],        \* None, 1, 2
  DMM |-> [nb |-> 1, f |-> <<
     F("bottom_detuning", 2, 1, N),        \* None, -20.0
     F("total_bottom_detuning", 3, 1, D),  \* None, -2000.0, -20.0
     F("clock_period", 2, 1, N),
     F("min_duration", 2, 1, N),
     F("max_duration", 3, 1, N),
     F("mod_bandwidth", 2, 1, N),
     F("min_avg_amp", 2, 1, D),
     F("custom_phase_jump_time", 3, 1, D),
     F("propagation_dir", 2, 1, D) >>],
  \* bases of Device / VirtualDevice: 1 two channels, 2 four channels incl. Microwave and an EOM,
  \* 3 the channels of 1; bases 2 and 3 also force some always-written fields (see Force)
  Device |-> [nb |-> 3, f |-> DeviceCommon(2) \o <<
     F("dmm_objects", 4, 1, E),            \* (), (DMM(),), (physical DMM,), two physical DMMs
     F("accepts_new_layouts", 2, 1, D),    \* True, False
     F("supports_slm_mask", 2, 1, N),      \* False, True
     F("max_layout_filling", 2, 1, N),     \* 0.5, 0.4
     F("interaction_coeff_xy", 2, 1, N),   \* None, 3700.0
     F("dimensions", 2, 0, N),             \* 3, 2
     F("rydberg_level", 2, 0, N),          \* 60, 70
     F("max_atom_num", 2, 0, N),           \* 25, 80
     F("max_radial_distance", 2, 0, N),    \* 35, 50
     F("min_atom_distance", 2, 0, N),      \* 4, 0.5
     F("channel_ids", 2, 1, N),            \* None (generated), custom
     F("pre_calibrated_layouts", 3, 1, N) >>],   \* (), (A,), (A, B with slug)
  VirtualDevice |-> [nb |-> 3, f |-> DeviceCommon(1) \o <<
     F("dmm_objects", 4, 2, E),            \* same values; the class default is (DMM(),)
     F("supports_slm_mask", 2, 2, N),      \* False, True (class default True)
     F("max_layout_filling", 2, 1, N),
     F("interaction_coeff_xy", 2, 1, N),
     F("dimensions", 2, 0, N),
     F("rydberg_level", 2, 0, N),
     F("max_atom_num", 2, 1, N),           \* None, 25
     F("max_radial_distance", 2, 1, N),    \* None, 35
     F("min_atom_distance", 2, 1, N),      \* 0, 4
     F("channel_ids", 2, 1, N),
     F("reusable_channels", 2, 1, N) >>],  \* True, False
  \* bases of Layout: coordinate sets (2D int, 2D dyadic, 2D irrational floats, 3D)
  Layout |-> [nb |-> 4, f |-> << F("slug", 2, 1, D) >>],
  \* bases of Register: 2D two atoms, 2D four atoms, 3D, 2D with integer ids
  Register |-> [nb |-> 4, f |-> << F("layout", 3, 1, D) >>],   \* None, layout, layout with slug
  DetMap |-> [nb |-> 2, f |-> << F("slug", 2, 1, D) >>],
  \* bases of Obs: 1 bitstrings 2 expectation 3 fidelity 4 occupation 5 correlation_matrix
  \*               6 energy 7 energy_variance 8 energy_second_moment
  Obs |-> [nb |-> 8, f |-> <<
     F("evaluation_times", 3, 1, N),       \* None, (1.0,), (0.0, 0.5, 1.0)
     F("tag_suffix", 2, 1, N),             \* None, "a"
     F("one_state", 2, 1, N),              \* None, "r"
     F("num_shots", 2, 1, N) >>],          \* 1000, 10
  \* bases of Config: 1 EmulationConfig, 2 QutipConfig
  Config |-> [nb |-> 2, f |-> <<
     F("observables", 3, 1, N),            \* (), one, seven kinds
     F("default_evaluation_times", 3, 1, N),  \* (1.0,), "Full", (0.0, 0.25, 1.0)
     F("initial_state", 2, 1, N),          \* None, a two-qudit state
     F("with_modulation", 2, 1, N),
     F("interaction_matrix", 2, 1, N),     \* None, 2x2
     F("prefer_device_noise_model", 2, 1, N),
     F("noise_model", 2, 1, N),            \* NoiseModel(), a non-trivial one
     F("extra_option", 2, 1, D),           \* not given, given
     F("sampling_rate", 2, 1, N) >>],      \* 1.0, 0.5
  \* bases of State / Operator: 1 backend-independent representation, 2 qutip
  State |-> [nb |-> 2, f |-> <<
     F("eigenstates", 3, 0, N),            \* (r,g), (g,h), (r,g,h)
     F("n_qudits", 3, 0, N),               \* 1, 2, 3
     F("amplitudes", 5, 0, N) >>],         \* one basis state, two real, two with an imaginary one,
                                           \* 4: 0.6+5e-9j / 5e-9+0.8j, 5: 0.6+1e-12j / 0.8-1e-300j
                                           \* (tiny imaginary / real parts: exactly representable)
  Operator |-> [nb |-> 2, f |-> <<
     F("eigenstates", 2, 0, N),            \* (r,g), (r,g,h)
     F("n_qudits", 2, 0, N),               \* 2, 3
     F("operations", 4, 0, N) >>],         \* one term, two terms with complex weights, product on several
                                           \* qudits, 4: weights 1+5e-9j, 5e-9+1j, 1e-12j, -1e-300j
  Results |-> [nb |-> 1, f |-> <<
     F("atom_order", 2, 0, N),             \* (q0, q1), (b, a, c)
     F("total_duration", 2, 0, N),         \* 100, 1000
     F("content", 6, 1, N) >>]             \* empty, one float, counters at two times, two observables, complex
                                           \* value, 6: complex values with tiny imaginary / real parts
]

Flds(c) == T[c].f
NF(c) == Len(Flds(c))
Min2(x, y) == IF x < y THEN x ELSE y
Dom(c, i) == 1..Min2(Flds(c)[i].k, K)
Idx(c, name) == CHOOSE i \in 1..NF(c) : Flds(c)[i].n = name
Val(o, name) == o.a[Idx(o.c, name)]

(* values that come with the base variant (they do not count against MaxDev): the base variants
   carry combinations of always-written fields so that even MaxDev = 0 exercises them *)
Force(c, b, n) ==
  IF c \in {"Device", "VirtualDevice"} THEN
    CASE b = 2 /\ n \in {"interaction_coeff_xy", "dimensions", "rydberg_level", "channel_ids"} -> 2
      [] b = 3 /\ n \in {"max_atom_num", "max_radial_distance", "min_atom_distance",
                          "max_layout_filling", "reusable_channels"} -> 2
      [] b = 3 /\ n = "pre_calibrated_layouts" -> 3
      [] OTHER -> 0
  ELSE 0
Choices(o) ==
  LET i == Len(o.a) + 1
      fv == Force(o.c, o.b, Flds(o.c)[i].n) IN
  IF fv # 0 THEN {fv}
  ELSE IF Flds(o.c)[i].e = N /\ o.u >= MaxDev THEN {1} ELSE Dom(o.c, i)
Cost(o, v) ==
  LET i == Len(o.a) + 1 IN
  IF Flds(o.c)[i].e = N /\ v # 1 /\ Force(o.c, o.b, Flds(o.c)[i].n) = 0 THEN 1 ELSE 0

Complete(o) == Len(o.a) = NF(o.c)

(* ---- which complete objects the constructors accept --------------------- *)
Valid(o) ==
  CASE o.c = "ChanGlobal" ->
         Val(o, "eom_config") # 1 => (o.b = 1 /\ Val(o, "mod_bandwidth") = 2)
    [] o.c = "ChanLocal" ->
         Val(o, "eom_config") # 1 => (o.b = 1 /\ Val(o, "mod_bandwidth") = 2)
    [] o.c = "Device" ->
         /\ Val(o, "dmm_objects") # 2                       \* DMM() is a virtual channel
         /\ Val(o, "supports_slm_mask") = 2 => Val(o, "dmm_objects") # 1
         /\ o.b = 2 => Val(o, "interaction_coeff_xy") = 2   \* Microwave channel
    [] o.c = "VirtualDevice" ->
         /\ Val(o, "supports_slm_mask") = 2 => Val(o, "dmm_objects") # 1
         /\ o.b = 2 => Val(o, "interaction_coeff_xy") = 2
    [] o.c = "Obs" ->
         /\ o.b \notin {1, 4, 5} => Val(o, "one_state") = 1
         /\ o.b # 1 => Val(o, "num_shots") = 1
    [] o.c = "Config" ->
         /\ o.b = 2 => Val(o, "interaction_matrix") = 1     \* not handled by QutipBackendV2
         /\ o.b = 1 => Val(o, "sampling_rate") = 1
    [] o.c = "State" ->
         /\ Val(o, "amplitudes") # 1 => Val(o, "n_qudits") # 1  \* two distinct basis states need two qudits
    [] OTHER -> TRUE

(* ---- the reference ------------------------------------------------------ *)
Elided(c, i, v) ==
  LET fl == Flds(c)[i] IN
  CASE fl.e = N -> FALSE
    [] fl.e = D -> v = fl.d
    [] fl.e = E -> v = 1

Written(o) == {i \in 1..NF(o.c) : ~Elided(o.c, i, o.a[i])}
Ser(o) == [i \in Written(o) |-> o.a[i]]
Deser(c, m) == [i \in 1..NF(c) |-> IF i \in DOMAIN m THEN m[i] ELSE Flds(c)[i].d]
RT(o) == Deser(o.c, Ser(o))

(* the one place where the documented format cannot represent a valid object:
   a VirtualDevice WITHOUT any DMM writes no "dmm_objects" key, and a missing
   key means the class default, which for VirtualDevice is (DMM(),) *)
DesignGap(o) == o.c = "VirtualDevice" /\ Val(o, "dmm_objects") = 1

Init == \E c \in Classes : \E b \in 1..T[c].nb : obj = [c |-> c, b |-> b, a |-> <<>>, u |-> 0]
Next == /\ ~Complete(obj)
        /\ \E v \in Choices(obj) :
             obj' = [obj EXCEPT !.a = Append(@, v), !.u = @ + Cost(obj, v)]
Spec == Init /\ [][Next]_obj

(* ---- laws of the reference ---------------------------------------------- *)
TypeOK == /\ obj.c \in Classes /\ obj.b \in 1..T[obj.c].nb
          /\ Len(obj.a) <= NF(obj.c)
          /\ \A i \in 1..Len(obj.a) :
                obj.a[i] \in Dom(obj.c, i) \cup {Force(obj.c, obj.b, Flds(obj.c)[i].n)}
RoundTripLaw == (Complete(obj) /\ Valid(obj)) => (RT(obj) = obj.a \/ DesignGap(obj))
GapIsReal == (Complete(obj) /\ Valid(obj) /\ DesignGap(obj)) => RT(obj) # obj.a
RequiredWritten ==
  Complete(obj) => \A i \in 1..NF(obj.c) : Flds(obj.c)[i].d = 0 => i \in Written(obj)
(* a key is absent only when the schema makes it optional *)
OnlyOptionalElided ==
  Complete(obj) => \A i \in 1..NF(obj.c) : i \notin Written(obj) => Flds(obj.c)[i].e # N
(* the table itself: defaults are inside the domains *)
ASSUME \A c \in DOMAIN T : \A i \in 1..Len(T[c].f) : T[c].f[i].d \in 0..T[c].f[i].k

Emit ==
  (Complete(obj) /\ Valid(obj)) =>
    PrintT("PT|" \o ToJson([c |-> obj.c, b |-> obj.b, a |-> obj.a,
                             gone |-> [i \in 1..NF(obj.c) |-> IF i \in Written(obj) THEN 0 ELSE 1],
                             rt |-> RT(obj)]))
=============================================================================
