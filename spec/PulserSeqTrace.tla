---------------------------- MODULE PulserSeqTrace ----------------------------
(***************************************************************************)
(* Trace validation (code -> spec).  A batch of executions recorded from   *)
(* the implementation is read from a JSON file.  Each execution is         *)
(*   [init |-> state, steps |-> << [k, out, ret, post] >>]                 *)
(* where k indexes Calls, out/ret are what the real call returned/raised   *)
(* and post is the projection of the real object after the call.           *)
(* One TLC step consumes one logged call:                                  *)
(*   - strict conformance: is the logged transition the transition of the  *)
(*     mirrored model (Step)?  If not, "DRIFT" is reported for that line   *)
(*     and validation continues from the logged state;                     *)
(*   - the declarative predicates of PulserProps are evaluated on the      *)
(*     logged pre-state, call and logged post-state ("observed mode").     *)
(* Verdicts are printed, never asserted, so that every line of every trace *)
(* is examined; the POSTCONDITION checks that all lines were consumed.     *)
(***************************************************************************)
EXTENDS PulserProps, Json, IOUtils

Traces == JsonDeserialize(IOEnv.TRACE_FILE)
DebugDrift == "VERIF_DEBUG_DRIFT" \in DOMAIN IOEnv /\ IOEnv.VERIF_DEBUG_DRIFT = "1"

VARIABLES tid, l, h
tvars == <<s, hist, viol, tid, l, h>>

TraceInit ==
  /\ tid = 1 /\ l = 1
  /\ s = IF Len(Traces) > 0 THEN Traces[1].init ELSE Init0(1)
  /\ hist = <<>> /\ viol = {} /\ h = <<>>

StripObs(st) ==
  [st EXCEPT !.ch = [i \in 1..Len(st.ch) |->
      [nm |-> st.ch[i].nm, cid |-> st.ch[i].cid, sl |-> st.ch[i].sl, eb |-> st.ch[i].eb,
       wt |-> st.ch[i].wt, mp |-> st.ch[i].mp, wq |-> st.ch[i].wq]]]
ObsOf(st) ==
  [st EXCEPT !.ch = [i \in 1..Len(st.ch) |->
      [nm |-> st.ch[i].nm, cid |-> st.ch[i].cid, sl |-> st.ch[i].sl, eb |-> st.ch[i].eb,
       wt |-> st.ch[i].wt, mp |-> st.ch[i].mp, wq |-> st.ch[i].wq,
       du |-> ChanDur(st.ch[i]), df |-> ChanDurFall(CfgOf(st, i), st.ch[i])]]]

(* equality of two observed states up to PhaseTol on phases (recorded traces carry phases *)
(* quantised to 1e-6 rad; every other field is an exact integer)                          *)
SeqPhEq(a, b) == Len(a) = Len(b) /\ \A k \in 1..Len(a) : PhEq(a[k], b[k])
SlotEq(x, y) == [x EXCEPT !.ph = 0] = [y EXCEPT !.ph = 0] /\ PhEq(x.ph, y.ph)
ChanEq(x, y) ==
  /\ [x EXCEPT !.sl = <<>>] = [y EXCEPT !.sl = <<>>]
  /\ Len(x.sl) = Len(y.sl) /\ \A k \in 1..Len(x.sl) : SlotEq(x.sl[k], y.sl[k])
RefEq(x, y) ==
  /\ x.b = y.b /\ Len(x.q) = Len(y.q)
  /\ \A k \in 1..Len(x.q) :
       x.q[k].lu = y.q[k].lu /\ x.q[k].ts = y.q[k].ts /\ SeqPhEq(x.q[k].ps, y.q[k].ps)
ObsEq(a, b) ==
  IF PhaseTol = 0 THEN a = b
  ELSE /\ [a EXCEPT !.ch = <<>>, !.rf = <<>>] = [b EXCEPT !.ch = <<>>, !.rf = <<>>]
       /\ Len(a.ch) = Len(b.ch) /\ \A k \in 1..Len(a.ch) : ChanEq(a.ch[k], b.ch[k])
       /\ Len(a.rf) = Len(b.rf) /\ \A k \in 1..Len(a.rf) : RefEq(a.rf[k], b.rf[k])

Consume ==
  /\ tid <= Len(Traces)
  /\ l <= Len(Traces[tid].steps)
  /\ LET e == Traces[tid].steps[l]
         c == Calls[e.k]
         pre == StripObs(s)
         post == StripObs(e.post)
         m == Step(pre, c)
         strict == m.out = e.out /\ m.ret = e.ret /\ ObsEq(ObsOf(m.st), e.post)
         v == Viol(pre, c, [st |-> post, out |-> e.out, ret |-> e.ret], h)
                \cup (IF \E i \in 1..Len(e.post.ch) : ~DurFallInBand(post.ch[i], e.post.ch[i].df)
                            \/ e.post.ch[i].du # ChanDur(post.ch[i])
                      THEN {"C02.ReportedDuration"} ELSE {})
     IN /\ IF strict /\ v = {} THEN TRUE
           ELSE PrintT("TV|" \o ToJson([t |-> tid, l |-> l, drift |-> ~strict, v |-> v,
                                       mo |-> m.out, mr |-> m.ret,
                                       ms |-> IF strict \/ ~DebugDrift THEN <<>> ELSE ObsOf(m.st)]))
        /\ s' = e.post
        /\ viol' = v
        /\ h' = Append(h, <<e.k, e.out, e.ret>>)
        /\ hist' = hist
        /\ l' = l + 1
        /\ tid' = tid

NextTrace ==
  /\ tid <= Len(Traces)
  /\ l > Len(Traces[tid].steps)
  /\ tid' = tid + 1
  /\ l' = 1
  /\ s' = IF tid + 1 <= Len(Traces) THEN Traces[tid + 1].init ELSE s
  /\ h' = <<>> /\ viol' = {} /\ hist' = hist
  /\ TLCSet(1, tid)

(* invariants of a state on its own (used for states that are not reached by a logged call, *)
(* e.g. the result of switch_device, judged against the limits of ITS device)              *)
StateViol(st) ==
  (IF ~Tiling(st) THEN {"C02.Tiling"} ELSE {})
  \cup (IF \E i \in 1..Len(st.ch) : \E k \in 1..Len(st.ch[i].sl) :
             st.ch[i].sl[k].k = "p" /\ ~PulseWithinLimits(CfgOf(st, i), st.ch[i], st.ch[i].sl[k])
        THEN {"C01.WithinLimits"} ELSE {})
  \cup (IF DevOf(st).maxSeq # -1 /\ \E i \in 1..Len(st.ch) : ChanDur(st.ch[i]) > DevOf(st).maxSeq
        THEN {"C01.SeqDuration"} ELSE {})
  \cup (IF \E i \in 1..Len(st.ch) : \E k \in 2..Len(st.ch[i].sl) :
             ~RetargetOK(CfgOf(st, i), st.ch[i], k)
        THEN {"C10.Retarget"} ELSE {})
StateCheck ==
  /\ tid <= Len(Traces) /\ l = 1 /\ Len(Traces[tid].steps) = 0
  /\ LET v == StateViol(StripObs(Traces[tid].init)) IN
     IF v = {} THEN TRUE ELSE PrintT("SV|" \o ToJson([t |-> tid, v |-> v]))
  /\ tid' = tid + 1 /\ l' = 1
  /\ s' = IF tid + 1 <= Len(Traces) THEN Traces[tid + 1].init ELSE s
  /\ h' = <<>> /\ viol' = {} /\ hist' = hist
  /\ TLCSet(1, tid)

TraceNext == Consume \/ (NextTrace /\ Len(Traces[tid].steps) > 0) \/ StateCheck
TraceSpec == TraceInit /\ [][TraceNext]_tvars

AllConsumed == TLCGet(1) = Len(Traces)
=============================================================================
