---------------------------- MODULE PulserSeqTrace ----------------------------
(***************************************************************************)
(* Trace validation (code -> spec).  A batch of executions recorded from   *)
(* the implementation is read from a JSON file.  Each execution is         *)
(*   [init |-> state, steps |-> << [k, out, ret, post] >>]                 *)
(* where k indexes Calls, out/ret are what the real call returned/raised   *)
(* and post is the projection of the real object after the call.           *)
(* One TLC step consumes one logged call:                                  *)
(*   - strict conformance: is the logged transition the transition of the  *)
(*     mirrored model (Step)?  If not, "DRIFT" is reported for that line   *)
(*     and validation continues from the logged state;                     *)
(*   - the declarative predicates of PulserProps are evaluated on the      *)
(*     logged pre-state, call and logged post-state ("observed mode").     *)
(* Verdicts are printed, never asserted, so that every line of every trace *)
(* is examined; the POSTCONDITION checks that all lines were consumed.     *)
(***************************************************************************)
EXTENDS PulserProps, Json, IOUtils

Traces == JsonDeserialize(IOEnv.TRACE_FILE)

VARIABLES tid, l, h
tvars == <<s, hist, viol, tid, l, h>>

TraceInit ==
  /\ tid = 1 /\ l = 1
  /\ s = IF Len(Traces) > 0 THEN Traces[1].init ELSE Init0(1)
  /\ hist = <<>> /\ viol = {} /\ h = <<>>

StripObs(st) ==
  [st EXCEPT !.ch = [i \in 1..Len(st.ch) |->
      [nm |-> st.ch[i].nm, cid |-> st.ch[i].cid, sl |-> st.ch[i].sl, eb |-> st.ch[i].eb,
       wt |-> st.ch[i].wt, mp |-> st.ch[i].mp, wq |-> st.ch[i].wq]]]
ObsOf(st) ==
  [st EXCEPT !.ch = [i \in 1..Len(st.ch) |->
      [nm |-> st.ch[i].nm, cid |-> st.ch[i].cid, sl |-> st.ch[i].sl, eb |-> st.ch[i].eb,
       wt |-> st.ch[i].wt, mp |-> st.ch[i].mp, wq |-> st.ch[i].wq,
       du |-> ChanDur(st.ch[i]), df |-> ChanDurFall(CfgOf(st, i), st.ch[i])]]]

Consume ==
  /\ tid <= Len(Traces)
  /\ l <= Len(Traces[tid].steps)
  /\ LET e == Traces[tid].steps[l]
         c == Calls[e.k]
         pre == StripObs(s)
         post == StripObs(e.post)
         m == Step(pre, c)
         strict == m.out = e.out /\ m.ret = e.ret /\ ObsOf(m.st) = e.post
         v == Viol(pre, c, [st |-> post, out |-> e.out, ret |-> e.ret], h)
                \cup (IF \E i \in 1..Len(e.post.ch) : e.post.ch[i].df # DeclDurFall(post.ch[i])
                            \/ e.post.ch[i].du # ChanDur(post.ch[i])
                      THEN {"C02.ReportedDuration"} ELSE {})
     IN /\ IF strict /\ v = {} THEN TRUE
           ELSE PrintT("TV|" \o ToJson([t |-> tid, l |-> l, drift |-> ~strict, v |-> v]))
        /\ s' = e.post
        /\ viol' = v
        /\ h' = Append(h, <<e.k, e.out, e.ret>>)
        /\ hist' = hist
        /\ l' = l + 1
        /\ tid' = tid

NextTrace ==
  /\ tid <= Len(Traces)
  /\ l > Len(Traces[tid].steps)
  /\ tid' = tid + 1
  /\ l' = 1
  /\ s' = IF tid + 1 <= Len(Traces) THEN Traces[tid + 1].init ELSE s
  /\ h' = <<>> /\ viol' = {} /\ hist' = hist
  /\ TLCSet(1, tid)

TraceNext == Consume \/ NextTrace
TraceSpec == TraceInit /\ [][TraceNext]_tvars

AllConsumed == TLCGet(1) = Len(Traces)
=============================================================================
