------------------------------- MODULE EmuBits -------------------------------
(***************************************************************************)
(* C11, measurement conventions.  Reference transcribed from the property  *)
(* statement and docs/source/conventions.md (NOT from qutip_result.py):    *)
(*                                                                         *)
(*  - the state of N atoms is the tensor product of the single-atom states *)
(*    in REGISTER ORDER (first atom = most significant digit of the index  *)
(*    of a product state), a single-atom level being the position of its   *)
(*    letter in the eigenbasis of the emulation (r,g / g,h / u,d / r,g,h,  *)
(*    optionally followed by the leakage level x);                         *)
(*  - a measurement in basis mb maps ONE letter to bit 1                   *)
(*        ground-rydberg: r     digital: h     XY: d (= |1>)               *)
(*    and every other letter (including x and the letters of the other     *)
(*    basis) to bit 0; bit i of the bitstring belongs to atom i;           *)
(*  - detection errors act on every bit independently: a 0 is read as 1    *)
(*    with probability eps (false positive), a 1 is read as 0 with         *)
(*    probability epsp (false negative).                                   *)
(*                                                                         *)
(* A lattice point is a diagonal state  w/4 |s1><s1| + (4-w)/4 |s2><s2|    *)
(* (w = 4: the product state s1) together with a pair of error rates in    *)
(* quarters.  All probabilities are exact integers: the distribution over  *)
(* the 2^N bitstrings is printed as numerators over 4^(N+1) (field d), the *)
(* probability that atom i reads 1 as numerators over 16 (field r).        *)
(* TLC enumerates every point (one state per point), checks the laws of    *)
(* the reference and prints the expected distribution; the harness turns   *)
(* every printed point into tests of QutipResult / QutipState /            *)
(* CoherentResults / SampledResult.                                        *)
(***************************************************************************)
EXTENDS Integers, Sequences, FiniteSets, FiniteSetsExt, TLC, Json

CONSTANTS NSet,      \* atom counts, e.g. {1, 2, 3}
          Configs,   \* set of <<eigenbasis, measurement basis>>, eigenbasis = sequence of 1-letter strings
          Weights,   \* subset of {1, 2, 3, 4}: numerator (over 4) of the weight of s1; 4 = pure product state
          Flips,     \* set of <<eps, epsp>> in quarters (0..4)
          MixFlips   \* the flips that are also combined with mixtures (w < 4)
VARIABLE pt

One(mb) == CASE mb = "ground-rydberg" -> "r"
             [] mb = "digital"        -> "h"
             [] mb = "XY"             -> "d"

Bit(l, mb)  == IF l = One(mb) THEN 1 ELSE 0
Bits(s, mb) == [i \in 1..Len(s) |-> Bit(s[i], mb)]

Pos(l, eb) == (CHOOSE k \in 1..Len(eb) : eb[k] = l) - 1          \* level of letter l

RECURSIVE Pow(_, _)
Pow(b, e) == IF e = 0 THEN 1 ELSE b * Pow(b, e - 1)

RECURSIVE IndexFrom(_, _, _)
IndexFrom(s, eb, i) ==      \* tensor index of the product state s, first atom most significant
  IF i > Len(s) THEN 0
  ELSE Pos(s[i], eb) * Pow(Len(eb), Len(s) - i) + IndexFrom(s, eb, i + 1)
Index(s, eb) == IndexFrom(s, eb, 1)

RECURSIVE BitIndexFrom(_, _)
BitIndexFrom(b, i) == IF i > Len(b) THEN 0 ELSE b[i] * Pow(2, Len(b) - i) + BitIndexFrom(b, i + 1)
BitIndex(b) == BitIndexFrom(b, 1)            \* the bitstring read as a binary number

Outcomes(n) == [1..n -> {0, 1}]

(* probability (in quarters) that atom i, whose true bit is b, is READ as 1 *)
ReadOne(b, f) == IF b = 0 THEN f[1] ELSE 4 - f[2]

RECURSIVE ProdFrom(_, _, _, _)
ProdFrom(b, o, f, i) ==     \* numerator over 4^n of reading outcome o when the true bits are b
  IF i > Len(b) THEN 1
  ELSE (IF o[i] = 1 THEN ReadOne(b[i], f) ELSE 4 - ReadOne(b[i], f)) * ProdFrom(b, o, f, i + 1)

(* numerator over 4^(n+1) of outcome o for the point p *)
Num(p, o) ==
  LET mb == p.c[2]
  IN  p.w * ProdFrom(Bits(p.a, mb), o, p.f, 1) + (4 - p.w) * ProdFrom(Bits(p.b, mb), o, p.f, 1)

SumOver(S, F(_)) == FoldSet(LAMBDA x, acc : acc + F(x), 0, S)

OutcomeOfIndex(k, n) == [i \in 1..n |-> (k \div Pow(2, n - i)) % 2]
DistSeq(p) == LET n == Len(p.a) IN [k \in 1..Pow(2, n) |-> Num(p, OutcomeOfIndex(k - 1, n))]

Letters(eb) == {eb[k] : k \in 1..Len(eb)}
Products(n, eb) == [1..n -> Letters(eb)]

(* Two levels so that TLC's workers share the enumeration: an initial state fixes (config, N, w, f),  *)
(* its successors are the lattice points (one state per point).                                       *)
Blank == <<>>
Init ==
  \E c \in Configs, n \in NSet, w \in Weights, f \in Flips :
     /\ (w < 4) => f \in MixFlips
     /\ pt = [c |-> c, n |-> n, a |-> Blank, b |-> Blank, w |-> w, f |-> f]
Next ==
  /\ pt.a = Blank
  /\ \E a \in Products(pt.n, pt.c[1]) :
       \E b \in (IF pt.w = 4 THEN {a}                                      \* pure: one point per product state
                  ELSE {b \in Products(pt.n, pt.c[1]) : Index(a, pt.c[1]) < Index(b, pt.c[1])}) :
         pt' = [pt EXCEPT !.a = a, !.b = b]
Spec == Init /\ [][Next]_pt
IsPoint == pt.a # Blank

(* ------------------------- laws of the reference ------------------------ *)
(* every law is stated for lattice points (the initial "blank" states satisfy them vacuously) *)
N  == Len(pt.a)
EB == pt.c[1]
MB == pt.c[2]

SumsToOne == IsPoint => (SumOver(Outcomes(N), LAMBDA o : Num(pt, o)) = Pow(4, N + 1))

(* without detection errors the distribution is the weights of the two bitstrings *)
NoErrorIsBits ==
  (IsPoint /\ pt.f = <<0, 0>>) =>
    \A o \in Outcomes(N) :
       Num(pt, o) = Pow(4, N) * ((IF o = Bits(pt.a, MB) THEN pt.w ELSE 0)
                                 + (IF o = Bits(pt.b, MB) THEN 4 - pt.w ELSE 0))

(* exactly the atoms in the one-letter read 1; an eigenbasis without that letter reads 0...0 *)
OnesAreOneLetter ==
  IsPoint =>
    (/\ \A i \in 1..N : (Bits(pt.a, MB)[i] = 1) <=> (pt.a[i] = One(MB))
     /\ (One(MB) \notin Letters(EB)) => (Bits(pt.a, MB) = [i \in 1..N |-> 0]))

(* the tensor index is a bijection between product states and 0..dim^N-1 *)
IndexRange     == IsPoint => (Index(pt.a, EB) \in 0..(Pow(Len(EB), N) - 1))
IndexInjective == IsPoint => (\A s \in Products(N, EB) : (s # pt.a) => (Index(s, EB) # Index(pt.a, EB)))

(* two-level bases: with the documented vectors r=(1,0) g=(0,1) the bitstring of a ground-rydberg  *)
(* product state is the bitwise complement of its index; in digital and XY it is the index itself. *)
TwoLevelOrder ==
  IsPoint =>
    (/\ (EB = <<"r", "g">> /\ MB = "ground-rydberg") => (BitIndex(Bits(pt.a, MB)) = Pow(2, N) - 1 - Index(pt.a, EB))
     /\ (EB = <<"g", "h">> /\ MB = "digital")        => (BitIndex(Bits(pt.a, MB)) = Index(pt.a, EB))
     /\ (EB = <<"u", "d">> /\ MB = "XY")             => (BitIndex(Bits(pt.a, MB)) = Index(pt.a, EB)))

(* detection errors act per atom: for a product state the marginal of atom i is its own rate *)
MarginalIsRate ==
  (IsPoint /\ pt.w = 4) =>
    \A i \in 1..N :
       SumOver({o \in Outcomes(N) : o[i] = 1}, LAMBDA o : Num(pt, o))
         = Pow(4, N) * ReadOne(Bits(pt.a, MB)[i], pt.f)

(* ... and for every point (mixtures, leakage level x included) the probability that atom i is READ as 1  *)
(* is the mixture of the two per-atom rates: Marg(p, i) / 16.  This is the number the expectation value of *)
(* the diagonal projector "atom i reads 1" must give when detection errors are configured.                 *)
Marg(p, i) == p.w * ReadOne(Bits(p.a, p.c[2])[i], p.f) + (4 - p.w) * ReadOne(Bits(p.b, p.c[2])[i], p.f)
MarginalOfMixture ==
  IsPoint =>
    \A i \in 1..N :
       SumOver({o \in Outcomes(N) : o[i] = 1}, LAMBDA o : Num(pt, o)) = Pow(4, N - 1) * Marg(pt, i)
(* the leakage level never reads 1: an atom in x is read as 1 only through a false positive *)
LeakageReadsZero ==
  IsPoint => (\A i \in 1..N : (pt.a[i] = "x" /\ pt.w = 4) => (Marg(pt, i) = 4 * pt.f[1]))

(* certain flips (rates 0 or 1) give a single bitstring for a product state *)
CertainFlip ==
  (IsPoint /\ pt.w = 4 /\ pt.f[1] \in {0, 4} /\ pt.f[2] \in {0, 4}) =>
     LET o == [i \in 1..N |-> ReadOne(Bits(pt.a, MB)[i], pt.f) \div 4]
     IN  Num(pt, o) = Pow(4, N + 1)

RECURSIVE Join(_, _)
Join(s, i) == IF i > Len(s) THEN "" ELSE s[i] \o Join(s, i + 1)

Emit ==
  IsPoint =>
    PrintT("PT|" \o ToJson([e |-> Join(EB, 1), m |-> MB, a |-> Join(pt.a, 1), b |-> Join(pt.b, 1),
                            w |-> pt.w, f |-> pt.f,
                            i |-> <<Index(pt.a, EB), Index(pt.b, EB)>>,
                            x |-> <<Join([k \in 1..N |-> ToString(Bits(pt.a, MB)[k])], 1),
                                    Join([k \in 1..N |-> ToString(Bits(pt.b, MB)[k])], 1)>>,
                            d |-> DistSeq(pt), r |-> [k \in 1..N |-> Marg(pt, k)]]))
=============================================================================
