----------------------------- MODULE NoiseTable -----------------------------
(***************************************************************************)
(* C17 (noise models): which noise types a NoiseModel has, which of its    *)
(* parameters are relevant, what survives the JSON round trip and the      *)
(* NoiseModel <-> SimConfig conversions.                                   *)
(*                                                                         *)
(* Transcribed from the NoiseModel / SimConfig docstrings (the table "noise *)
(* type -> parameters" and the description of runs / samples_per_run) and   *)
(* from the property statement - not from _find_relevant_params:            *)
(*   - a noise type is ACTIVE iff at least one of its parameters was SET,   *)
(*     where SET means "given a value that is not the neutral one" (None,   *)
(*     0.0, an empty tuple, False).  This is the reading of "exactly those  *)
(*     whose parameters were set" under which an explicit 0.0 - which the   *)
(*     constructor documents as "no such noise" - does not switch a type on.*)
(*   - runs / samples_per_run matter iff the Hamiltonian has to be rebuilt  *)
(*     from random noise: doppler, amplitude fluctuations (amp_sigma # 0),  *)
(*     state preparation errors (state_prep_error # 0).                     *)
(*   - the relevant parameters are those of the active types, plus runs and *)
(*     samples_per_run when they matter, minus laser_waist when undefined.  *)
(*                                                                         *)
(* Mode "noise": value ids of a parameter: 1 = not given, 2 = given and     *)
(* non-neutral, 3 = given as the neutral value (0.0); eff_noise: 1 = none,  *)
(* 2 = one 2x2 operator, 3 = two 2x2 operators, 4 = one 3x3 operator,       *)
(* 5 = one 2x2 operator whose entries have tiny imaginary / real parts       *)
(* (1+5e-9j, 5e-9+1j, 1e-12j, -1e-300j: exactly representable payloads).     *)
(* Mode "sim": a SimConfig is a set of noise types (one value per type:     *)
(* 1 = absent, 2 = present) followed by one value per parameter:            *)
(* 1 = legacy default of SimConfig (non-zero), 2 = custom non-zero value,   *)
(* 3 = zero.                                                                *)
(***************************************************************************)
EXTENDS Integers, Sequences, FiniteSets, TLC, Json

CONSTANTS Mode,        \* "noise" | "sim"
          Zeroable,    \* parameters (names) that may take value id 3
          MaxSet       \* at most this many entries away from value id 1
VARIABLE pt            \* [a: value ids chosen so far, u: how many are not 1]

P == << "runs", "samples_per_run", "state_prep_error", "p_false_pos", "p_false_neg",
        "temperature", "laser_waist", "amp_sigma", "relaxation_rate", "dephasing_rate",
        "hyperfine_dephasing_rate", "depolarizing_rate", "eff_noise", "with_leakage" >>
NP == Len(P)
Types == << "SPAM", "amplitude", "dephasing", "depolarizing", "doppler", "eff_noise",
            "leakage", "relaxation" >>                      \* sorted as noise_types is
NT == Len(Types)

TypeOf(p) ==
  CASE p \in {"state_prep_error", "p_false_pos", "p_false_neg"} -> "SPAM"
    [] p \in {"laser_waist", "amp_sigma"} -> "amplitude"
    [] p \in {"dephasing_rate", "hyperfine_dephasing_rate"} -> "dephasing"
    [] p = "depolarizing_rate" -> "depolarizing"
    [] p = "temperature" -> "doppler"
    [] p = "eff_noise" -> "eff_noise"
    [] p = "with_leakage" -> "leakage"
    [] p = "relaxation_rate" -> "relaxation"
    [] OTHER -> "none"                                      \* runs, samples_per_run
ParamsOf(t) == {p \in {P[i] : i \in 1..NP} : TypeOf(p) = t}
PI(name) == CHOOSE i \in 1..NP : P[i] = name

(* ------------------------------ mode "noise" ----------------------------- *)
DomN(i) ==
  CASE P[i] = "eff_noise" -> 1..5
    [] P[i] \in {"runs", "samples_per_run", "laser_waist", "with_leakage"} -> 1..2
    [] OTHER -> IF P[i] \in Zeroable THEN 1..3 ELSE 1..2

IsSet(a, j) == IF P[j] = "eff_noise" THEN a[j] # 1 ELSE a[j] = 2   \* given and non-neutral
SetN(a, name) == IsSet(a, PI(name))
Active(a) == {TypeOf(P[i]) : i \in {j \in 1..NP : IsSet(a, j)}} \ {"none"}
NeedsRuns(a) ==
  \/ "doppler" \in Active(a)
  \/ ("amplitude" \in Active(a) /\ SetN(a, "amp_sigma"))
  \/ ("SPAM" \in Active(a) /\ SetN(a, "state_prep_error"))
Relevant(a) ==
  ( UNION {ParamsOf(t) : t \in Active(a)}
    \cup (IF NeedsRuns(a) THEN {"runs", "samples_per_run"} ELSE {}) )
  \ (IF a[PI("laser_waist")] = 1 THEN {"laser_waist"} ELSE {})

ValidN(a) ==
  /\ a[PI("with_leakage")] = 2 => a[PI("eff_noise")] = 4   \* leakage needs (3x3) effective operators
  /\ NeedsRuns(a) => (SetN(a, "runs") /\ SetN(a, "samples_per_run"))

(* what the object holds after construction: 0 = neutral value, 2 = the given value *)
Stored(a) == [i \in 1..NP |-> IF IsSet(a, i) THEN a[i] ELSE 0]
(* the JSON document carries every field; the decoder rebuilds the object from the noise
   types and the RELEVANT parameters only *)
Decoded(a) == LET r == Relevant(a)  st == Stored(a) IN
              [i \in 1..NP |-> IF P[i] \in r THEN st[i] ELSE 0]
(* the documented format cannot carry a parameter that no active type uses (the constructor
   accepts it with a warning): runs / samples_per_run given although nothing is random *)
JsonGap(a) == ~NeedsRuns(a) /\ (SetN(a, "runs") \/ SetN(a, "samples_per_run"))

(* NoiseModel -> SimConfig: noise = active types, relevant parameters copied, the others left
   at SimConfig's defaults (9), an undefined waist becomes inf (8) when amplitude is active *)
ToSim(a) ==
  LET r == Relevant(a)  st == Stored(a)  act == Active(a) IN
  [noise |-> act,
   v |-> [i \in 1..NP |->
            IF P[i] \in r THEN st[i]
            ELSE IF P[i] = "laser_waist" /\ "amplitude" \in act THEN 8 ELSE 9]]
SimNonZero(s, name) == s.v[PI(name)] # 0
SimNeedsRuns(s) ==
  \/ "doppler" \in s.noise
  \/ ("amplitude" \in s.noise /\ SimNonZero(s, "amp_sigma"))
  \/ ("SPAM" \in s.noise /\ SimNonZero(s, "state_prep_error"))
SimRelevant(s) ==
  ( UNION {ParamsOf(t) : t \in s.noise}
    \cup (IF SimNeedsRuns(s) THEN {"runs", "samples_per_run"} ELSE {}) )
  \ (IF s.v[PI("laser_waist")] = 8 THEN {"laser_waist"} ELSE {})
(* SimConfig -> NoiseModel: the relevant parameters of the declared types are handed to the
   constructor; 9 (a default) counts as a non-neutral value *)
FromSim(s) == LET r == SimRelevant(s) IN [i \in 1..NP |-> IF P[i] \in r THEN s.v[i] ELSE 0]
ActiveOfStored(st) == {TypeOf(P[i]) : i \in {j \in 1..NP : st[j] # 0}} \ {"none"}

(* ------------------------------- mode "sim" ------------------------------ *)
(* entries 1..NT: type present (2) or not (1); entries NT+1..NT+NP: parameter value *)
DomS(i) ==
  IF i <= NT THEN 1..2
  ELSE LET p == P[i - NT] IN
       IF p \in {"eff_noise", "with_leakage"} THEN {1}     \* follow the types
       ELSE IF p \in Zeroable THEN 1..3 ELSE 1..2
SNoise(a) == {Types[i] : i \in {j \in 1..NT : a[j] = 2}}
SVal(a, name) == a[NT + PI(name)]
ValidS(a) == "leakage" \in SNoise(a) => "eff_noise" \in SNoise(a)
(* a declared type survives the conversion iff one of its parameters is non-zero; eff_noise
   and leakage carry their operators / flag, the default waist keeps amplitude alive *)
SKept(a) ==
  {t \in SNoise(a) :
     \/ t \in {"eff_noise", "leakage"}
     \/ \E p \in ParamsOf(t) : SVal(a, p) # 3}
SNeedsRuns(a) ==
  \/ "doppler" \in SNoise(a)
  \/ ("amplitude" \in SNoise(a) /\ SVal(a, "amp_sigma") # 3)
  \/ ("SPAM" \in SNoise(a) /\ SVal(a, "state_prep_error") # 3)
(* runs / samples_per_run must be > 0 in SimConfig, and are needed by the NoiseModel *)
SRelevant(a) ==
  UNION {ParamsOf(t) : t \in SNoise(a)}
  \cup (IF SNeedsRuns(a) THEN {"runs", "samples_per_run"} ELSE {})
(* the NoiseModel built from the SimConfig needs runs only if one of the KEPT types is random;
   the constructor then still receives them (they are relevant for the SimConfig) *)

(* ------------------------------ enumeration ------------------------------ *)
Total == IF Mode = "noise" THEN NP ELSE NT + NP
DomAt(i) == IF Mode = "noise" THEN DomN(i) ELSE DomS(i)
Complete == Len(pt.a) = Total
Valid == IF Mode = "noise" THEN ValidN(pt.a) ELSE ValidS(pt.a)

(* the budget MaxSet counts parameter entries away from value id 1 (in mode "sim" the type
   entries are free: every subset of noise types is enumerated) *)
Cost(i, v) == IF v = 1 \/ (Mode = "sim" /\ i <= NT) THEN 0 ELSE 1
Init == pt = [a |-> <<>>, u |-> 0]
Next == /\ ~Complete
        /\ \E v \in DomAt(Len(pt.a) + 1) :
             /\ Cost(Len(pt.a) + 1, v) = 1 => pt.u < MaxSet
             /\ pt' = [a |-> Append(pt.a, v), u |-> pt.u + Cost(Len(pt.a) + 1, v)]
Spec == Init /\ [][Next]_pt

(* ------------------------- laws of the reference ------------------------- *)
(* 1. active types are exactly those with a set parameter, both ways *)
ActiveExact ==
  (Mode = "noise" /\ Complete) =>
     \A t \in {Types[i] : i \in 1..NT} :
        t \in Active(pt.a) <=> \E p \in ParamsOf(t) : SetN(pt.a, p)
(* 2. every set parameter of a type is relevant; nothing set is irrelevant except runs/samples *)
SetIsRelevant ==
  (Mode = "noise" /\ Complete /\ ValidN(pt.a)) =>
     LET rel == Relevant(pt.a) IN
     \A i \in 1..NP : (IsSet(pt.a, i) /\ P[i] \notin rel) => P[i] \in {"runs", "samples_per_run"}
(* 3. JSON round trip on the model: equal unless the named gap *)
JsonRoundTrip ==
  (Mode = "noise" /\ Complete /\ ValidN(pt.a)) =>
     ((Decoded(pt.a) = Stored(pt.a)) <=> ~JsonGap(pt.a))
(* 4. NoiseModel -> SimConfig -> NoiseModel keeps the active types and the relevant values *)
SimRoundTrip ==
  (Mode = "noise" /\ Complete /\ ValidN(pt.a)) =>
     LET s == ToSim(pt.a)  back == FromSim(s)  rel == Relevant(pt.a)  st == Stored(pt.a) IN
     /\ SimRelevant(s) = rel
     /\ ActiveOfStored(back) = Active(pt.a)
     /\ \A i \in 1..NP : P[i] \in rel => back[i] = st[i]
(* 5. SimConfig -> NoiseModel never invents a type and keeps the live ones *)
SimKeeps ==
  (Mode = "sim" /\ Complete /\ ValidS(pt.a)) =>
     /\ SKept(pt.a) \subseteq SNoise(pt.a)
     /\ \A t \in SNoise(pt.a) \ SKept(pt.a) : \A p \in ParamsOf(t) : SVal(pt.a, p) = 3

TypeSeq(S) == [i \in 1..NT |-> IF Types[i] \in S THEN 1 ELSE 0]
ParamSeq(S) == [i \in 1..NP |-> IF P[i] \in S THEN 1 ELSE 0]

Emit ==
  (Complete /\ Valid) =>
    IF Mode = "noise"
    THEN PrintT("PT|" \o ToJson([a |-> pt.a, act |-> TypeSeq(Active(pt.a)),
                                 rel |-> ParamSeq(Relevant(pt.a)),
                                 gap |-> IF JsonGap(pt.a) THEN 1 ELSE 0]))
    ELSE PrintT("PT|" \o ToJson([a |-> pt.a, kept |-> TypeSeq(SKept(pt.a)),
                                 rel |-> ParamSeq(SRelevant(pt.a))]))
=============================================================================
