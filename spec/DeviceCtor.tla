----------------------------- MODULE DeviceCtor -----------------------------
(***************************************************************************)
(* C12, last clause: "device objects with any valid combination of         *)
(* parameters can be constructed".  REFERENCE of what a valid combination  *)
(* is, transcribed from the documentation of Device / VirtualDevice /      *)
(* Channel / DMM (docstrings of the arguments and the wording of the error *)
(* messages), as a predicate over a record of parameter classes.  TLC      *)
(* enumerates the full product of the given parameter sets (one state per  *)
(* combination) and prints the verdict of the reference; the harness       *)
(* constructs the object for every printed combination.                    *)
(*                                                                         *)
(* Only Valid => "constructs" is demanded by the statement; combinations   *)
(* the reference calls invalid are executed too, but a construction that   *)
(* succeeds there is recorded as an observation, never as a violation.     *)
(*                                                                         *)
(* Encoding: None is NoneV; fractions are quarters (f4 = 4 * filling);     *)
(* amplitudes / detunings / durations are small integers.                  *)
(***************************************************************************)
EXTENDS Integers, Sequences, FiniteSets, TLC, Json

CONSTANTS KindS, DimS, RydS, MinDistS, MaxAtomsS, MaxRadS, Fill4S, OptFill4S, MinTrapsS,
          MaxTrapsS, SeqDurS, RunsS, SlmS, DmmS, ReqLayoutS, ReusableS, IdsS, XYS,
          ClsS, AddrS, AmpS, DetS, MaxDurS, BwS, PjtS, MaxTargetsS, MinAvgS, EomS, ClockS,
          MinDurS
VARIABLE p

NoneV == -99
Def(x) == x # NoneV

(* ---------------------------------------------------------------------- *)
(* channels                                                                *)
(* ---------------------------------------------------------------------- *)
Chans == [cls: ClsS, addr: AddrS, amp: AmpS, det: DetS, maxdur: MaxDurS, bw: BwS, pjt: PjtS,
          mt: MaxTargetsS, minavg: MinAvgS, eom: EomS, clock: ClockS, mindur: MinDurS]
\* lattice restriction (not a validity rule): max_targets is only given to Local channels,
\* an EOM configuration only to global Rydberg channels
ChanShape(ch) ==
  /\ ch.addr = "G" => ch.mt = NoneV
  /\ ch.eom => (ch.cls = "Rydberg" /\ ch.addr = "G")
ChanReasons(ch) ==
     (IF Def(ch.amp) /\ ch.amp < 0 THEN {"max_amp<0"} ELSE {})
  \cup (IF Def(ch.det) /\ ch.det < 0 THEN {"max_abs_detuning<0"} ELSE {})
  \cup (IF ch.clock <= 0 THEN {"clock_period<=0"} ELSE {})
  \cup (IF ch.mindur <= 0 THEN {"min_duration<=0"} ELSE {})
  \cup (IF Def(ch.maxdur) /\ ch.maxdur <= 0 THEN {"max_duration<=0"} ELSE {})
  \cup (IF Def(ch.maxdur) /\ ch.maxdur < ch.mindur THEN {"max_duration<min_duration"} ELSE {})
  \cup (IF Def(ch.bw) /\ ch.bw <= 0 THEN {"mod_bandwidth<=0"} ELSE {})
  \cup (IF ch.minavg < 0 THEN {"min_avg_amp<0"} ELSE {})
  \cup (IF Def(ch.pjt) /\ ch.pjt < 0 THEN {"custom_phase_jump_time<0"} ELSE {})
  \cup (IF Def(ch.mt) /\ ch.mt <= 0 THEN {"max_targets<=0"} ELSE {})
  \cup (IF ch.eom /\ ~Def(ch.bw) THEN {"eom_without_mod_bandwidth"} ELSE {})
\* "virtual" channel: some hardware limit left undefined
ChanVirtual(ch) == ~Def(ch.amp) \/ ~Def(ch.det) \/ ~Def(ch.maxdur) \/ (ch.addr = "L" /\ ~Def(ch.mt))

(* ---------------------------------------------------------------------- *)
(* devices                                                                 *)
(* ---------------------------------------------------------------------- *)
Params == [kind: KindS, dim: DimS, ryd: RydS, md: MinDistS, na: MaxAtomsS, mr: MaxRadS,
           f4: Fill4S, of4: OptFill4S, tl: MinTrapsS, th: MaxTrapsS, sd: SeqDurS, runs: RunsS,
           slm: SlmS, dmm: DmmS, rl: ReqLayoutS, reuse: ReusableS, ids: IdsS, xy: XYS,
           ch: {ch \in Chans : ChanShape(ch)}]

Reasons(q) ==
     (IF q.dim \notin {2, 3} THEN {"dimensions"} ELSE {})
  \cup (IF q.ryd < 50 \/ q.ryd > 100 THEN {"rydberg_level"} ELSE {})
  \cup (IF q.md < 0 THEN {"min_atom_distance<0"} ELSE {})
  \* a physical Device defines every limit; a VirtualDevice may leave them undefined
  \cup (IF ~Def(q.na) /\ q.kind = "D" THEN {"max_atom_num undefined in Device"} ELSE {})
  \cup (IF Def(q.na) /\ q.na <= 0 THEN {"max_atom_num<=0"} ELSE {})
  \cup (IF ~Def(q.mr) /\ q.kind = "D" THEN {"max_radial_distance undefined in Device"} ELSE {})
  \cup (IF Def(q.mr) /\ q.mr <= 0 THEN {"max_radial_distance<=0"} ELSE {})
  \cup (IF q.f4 <= 0 \/ q.f4 > 4 THEN {"max_layout_filling not in (0,1]"} ELSE {})
  \cup (IF Def(q.of4) /\ (q.of4 <= 0 \/ q.of4 > q.f4)
        THEN {"optimal_layout_filling not in (0,max]"} ELSE {})
  \cup (IF q.tl <= 0 THEN {"min_layout_traps<=0"} ELSE {})
  \cup (IF Def(q.th) /\ q.th <= 0 THEN {"max_layout_traps<=0"} ELSE {})
  \cup (IF Def(q.th) /\ q.th < q.tl THEN {"max_layout_traps<min_layout_traps"} ELSE {})
  \* reading taken from the error message of the code: the largest layout, filled to the
  \* maximum, must be able to hold max_atom_num atoms
  \cup (IF Def(q.th) /\ Def(q.na) /\ q.f4 > 0 /\ (q.f4 * q.th) \div 4 < q.na
        THEN {"max_layout_traps*filling<max_atom_num"} ELSE {})
  \cup (IF Def(q.sd) /\ q.sd <= 0 THEN {"max_sequence_duration<=0"} ELSE {})
  \cup (IF Def(q.runs) /\ q.runs <= 0 THEN {"max_runs<=0"} ELSE {})
  \cup (IF q.slm /\ q.dmm = "none" THEN {"slm_mask without DMM"} ELSE {})
  \cup (IF q.kind = "D" /\ q.dmm = "virtual" THEN {"virtual DMM in Device"} ELSE {})
  \cup (IF q.kind = "D" /\ ChanVirtual(q.ch) THEN {"virtual channel in Device"} ELSE {})
  \cup (IF q.ch.cls = "Microwave" /\ ~Def(q.xy) THEN {"Microwave without interaction_coeff_xy"} ELSE {})
  \cup (IF q.ids \in {"dup", "short"} THEN {"channel_ids"} ELSE {})
  \cup (IF q.ids = "dmmname" /\ q.dmm # "none" THEN {"channel_ids"} ELSE {})
  \cup ChanReasons(q.ch)
Valid(q) == Reasons(q) = {}

Init == p \in Params
Next == UNCHANGED p
Spec == Init /\ [][Next]_p

(* ---------------------------------------------------------------------- *)
(* laws of the reference                                                   *)
(* ---------------------------------------------------------------------- *)
\* leaving an optional limit undefined never invalidates a virtual device
UndefLaw ==
  (Valid(p) /\ p.kind = "V") =>
     /\ Valid([p EXCEPT !.na = NoneV])
     /\ Valid([p EXCEPT !.mr = NoneV])
     /\ Valid([p EXCEPT !.th = NoneV])
     /\ Valid([p EXCEPT !.of4 = NoneV])
     /\ Valid([p EXCEPT !.sd = NoneV])
     /\ Valid([p EXCEPT !.runs = NoneV])
     /\ Valid([p EXCEPT !.ch.amp = NoneV])
     /\ Valid([p EXCEPT !.ch.det = NoneV])
     /\ Valid([p EXCEPT !.ch.maxdur = NoneV])
     /\ Valid([p EXCEPT !.ch.pjt = NoneV])
     /\ Valid([p EXCEPT !.ch.mt = NoneV])
\* whatever is valid for a physical device is valid for a virtual one
ToVirtualLaw == (Valid(p) /\ p.kind = "D") => Valid([p EXCEPT !.kind = "V"])
\* validity of the channel does not depend on the device-level numbers and vice versa
SeparableLaw ==
  Valid(p) <=> /\ Reasons([p EXCEPT !.ch = [p.ch EXCEPT !.clock = 1, !.mindur = 1, !.bw = 4,
                                             !.minavg = 0, !.pjt = NoneV]]) = {}
               /\ ChanReasons(p.ch) = {}

ChTuple(ch) == <<ch.cls, ch.addr, ch.amp, ch.det, ch.maxdur, ch.bw, ch.pjt, ch.mt, ch.minavg,
                 ch.eom, ch.clock, ch.mindur>>
Emit == PrintT("PT|" \o ToJson(
   [k |-> <<p.kind, p.dim, p.ryd, p.md, p.na, p.mr, p.f4, p.of4, p.tl, p.th, p.sd, p.runs,
            p.slm, p.dmm, p.rl, p.reuse, p.ids, p.xy>>,
    c |-> ChTuple(p.ch), ok |-> Valid(p), why |-> Reasons(p)]))
=============================================================================
