----------------------------- MODULE Modulation -----------------------------
(***************************************************************************)
(* C14: output modulation.  The filter laws are real-analysis statements;  *)
(* as announced in DESIGN (sections 1, 5-C14, 6) this module does not      *)
(* explore a model of the filter: it (1) enumerates the lattice of cases   *)
(* (waveform class x parameters x duration x channel bandwidth x EOM       *)
(* bandwidth x mode) so that the harness measures every case on the        *)
(* implementation, and (2) states the contracts over the integer-quantised *)
(* observations the harness brings back, which TLC then evaluates on every *)
(* observed case (mode "judge").                                           *)
(* Units: amplitudes in 1e-6 rad/us, times in ns, gains in 1e-4.           *)
(***************************************************************************)
EXTENDS Integers, Sequences, FiniteSets, TLC, Json, IOUtils

CONSTANTS Mode,        \* "enumerate" | "judge"
          Classes, Durations, Bandwidths, EomBandwidths, Amps

VARIABLE pt

Cases ==
  [cls : Classes, dur : Durations, bw : Bandwidths, ebw : EomBandwidths, amp : Amps]

Obs == IF Mode = "judge" THEN JsonDeserialize(IOEnv.OBS_FILE) ELSE <<>>

Init == IF Mode = "enumerate" THEN pt \in Cases ELSE pt \in 1..Len(Obs)
Next == UNCHANGED pt
Spec == Init /\ [][Next]_pt

Emit == Mode = "enumerate" => PrintT("PT|" \o ToJson(pt))

Max2(a, b) == IF a >= b THEN a ELSE b
Abs(x) == IF x < 0 THEN -x ELSE x

(* ---- contracts over one observation record o ------------------------------------- *)
(* o.len[k] = <<input length, output length, rise time of the mode>> for the four modes *)
(* (eom, keep_ends) in {F,T}^2 that exist on the channel                                *)
ExtendsByOneRiseTime(o) ==
  \A k \in 1..Len(o.len) : o.len[k][2] = o.len[k][1] + 2 * o.len[k][3]
(* |mod(2x + 3y) - 2 mod(x) - 3 mod(y)|_inf, in 1e-9 rad/us *)
Linear(o) == o.linDefect <= 10
(* |sum(out) - sum(in)| in 1e-9 rad/us per unit of |sum(in)| + 1 *)
PreservesIntegral(o) == o.sumDefect <= 10
(* non-negative input never gives negative output, output never above the input maximum;    *)
(* band: 1e-6 of the input maximum + 1e-9 (the sampled Gaussian kernel is cut at the Nyquist *)
(* frequency, which leaves a ripple of that order for the highest bandwidths)                *)
Band(o) == o.maxIn \div 1000000 + 1
NonNegative(o) == o.nonNegInput => o.minOut >= -Band(o)
NoOvershoot(o) == o.nonNegInput => o.maxOut <= o.maxIn + Band(o)
(* a tone at the modulation bandwidth comes out with half its amplitude (gain in 1e-4) *)
HalvesAtBandwidth(o) == o.toneGain = -1 \/ Abs(o.toneGain - 5000) <= 25
(* the scheduler's assumption: rise <= fall <= 2 rise, in both modes *)
FallWithinAssumption(o) ==
  \A k \in 1..Len(o.fall) : o.fall[k][1] <= o.fall[k][2] /\ o.fall[k][2] <= 2 * o.fall[k][1]
(* beyond the accounted fall time the output of the isolated pulse stays below            *)
(* max(0.01 rad/us, 0.6 % of its peak): o.tail[k] = <<max |output| beyond fall, peak of the *)
(* pulse's programmed waveform>> (1e-6)                                                       *)
FallCoversTail(o) ==
  \A k \in 1..Len(o.tail) : o.tail[k][1] <= Max2(10000, (6 * o.tail[k][2]) \div 1000)

Violated(o) ==
  (IF ~ExtendsByOneRiseTime(o) THEN {"C14.ExtendsByOneRiseTime"} ELSE {})
  \cup (IF ~Linear(o) THEN {"C14.Linear"} ELSE {})
  \cup (IF ~PreservesIntegral(o) THEN {"C14.PreservesIntegral"} ELSE {})
  \cup (IF ~NonNegative(o) THEN {"C14.NonNegative"} ELSE {})
  \cup (IF ~NoOvershoot(o) THEN {"C14.NoOvershoot"} ELSE {})
  \cup (IF ~HalvesAtBandwidth(o) THEN {"C14.HalvesAtBandwidth"} ELSE {})
  \cup (IF ~FallWithinAssumption(o) THEN {"C14.FallWithinAssumption"} ELSE {})
  \cup (IF ~FallCoversTail(o) THEN {"C14.FallCoversTail"} ELSE {})

Judge ==
  Mode = "judge" =>
    LET v == Violated(Obs[pt]) IN
    IF v = {} THEN TRUE ELSE PrintT("PT|" \o ToJson([i |-> pt, v |-> v]))
=============================================================================
