------------------------------ MODULE Aliasing ------------------------------
(***************************************************************************)
(* C17 (no shared state): "objects of the same class never share state:    *)
(* constructing or decoding one never changes another".                    *)
(*                                                                         *)
(* A heap of live objects.  An object is a value [k: kind, v: variant,     *)
(* m: how many times it was mutated through its own public mutator].       *)
(* Operations (the behaviours TLC enumerates are replayed by the harness   *)
(* on the real classes, with a deep snapshot of every live object after    *)
(* every step):                                                            *)
(*   <<"C", k, v>>  construct a new object of kind k from parameter set v  *)
(*                  (fresh argument objects)                                *)
(*   <<"A", k, v>>  construct a new object of kind k from the argument     *)
(*                  objects the user keeps for (k, v) and hands to every   *)
(*                  "A" construction of that (k, v): the same lists,       *)
(*                  dictionaries, arrays and observable instances          *)
(*   <<"D", i, 0>>  serialise live object i and decode the document into   *)
(*                  a NEW object (its value equals the one of i)           *)
(*   <<"M", i, 0>>  change live object i through itself (Results: store    *)
(*                  one more value; VirtualDevice: change_rydberg_level;   *)
(*                  configurations: update the mutable option values and   *)
(*                  the observables the configuration hands out)           *)
(*   <<"S", i, 0>>  serialise live object i and discard the document       *)
(* Frame condition (the property): a step changes at most the object it    *)
(* targets - C, A and D only append, S changes nothing, M changes object i *)
(* only, also when i was built from the same argument objects as others.   *)
(* The variable prev holds the heap before the last step so that the frame *)
(* condition is a state invariant.                                         *)
(***************************************************************************)
EXTENDS Integers, Sequences, FiniteSets, TLC, Json

CONSTANTS Use,      \* set of kinds used in this run
          Depth,    \* number of operations per behaviour
          MaxMut    \* bound on mutations per object
VARIABLES hist, live, prev

(* kind -> [nv: number of parameter sets, ser: can be decoded, mut: can be changed through
   itself, arg: "A" constructions are enumerated for it] *)
KT == [
  StateRepr      |-> [nv |-> 3, ser |-> TRUE, mut |-> FALSE, arg |-> FALSE],
  QutipState     |-> [nv |-> 3, ser |-> TRUE, mut |-> FALSE, arg |-> FALSE],
  OperatorRepr   |-> [nv |-> 2, ser |-> TRUE, mut |-> FALSE, arg |-> FALSE],
  QutipOperator  |-> [nv |-> 2, ser |-> TRUE, mut |-> FALSE, arg |-> FALSE],
  NoiseModel     |-> [nv |-> 3, ser |-> TRUE, mut |-> FALSE, arg |-> FALSE],
  SimConfig      |-> [nv |-> 2, ser |-> FALSE, mut |-> FALSE, arg |-> FALSE],
  EmulationConfig|-> [nv |-> 2, ser |-> TRUE, mut |-> TRUE, arg |-> TRUE],
  QutipConfig    |-> [nv |-> 2, ser |-> TRUE, mut |-> TRUE, arg |-> TRUE],
  Observable     |-> [nv |-> 3, ser |-> FALSE, mut |-> FALSE, arg |-> FALSE],
  Results        |-> [nv |-> 2, ser |-> TRUE, mut |-> TRUE, arg |-> FALSE],
  Register       |-> [nv |-> 2, ser |-> TRUE, mut |-> FALSE, arg |-> FALSE],
  Register3D     |-> [nv |-> 2, ser |-> TRUE, mut |-> FALSE, arg |-> FALSE],
  Layout         |-> [nv |-> 2, ser |-> TRUE, mut |-> FALSE, arg |-> FALSE],
  DetuningMap    |-> [nv |-> 2, ser |-> TRUE, mut |-> FALSE, arg |-> FALSE],
  Device         |-> [nv |-> 2, ser |-> TRUE, mut |-> FALSE, arg |-> FALSE],
  VirtualDevice  |-> [nv |-> 2, ser |-> TRUE, mut |-> TRUE, arg |-> TRUE]
]
ASSUME Use \subseteq DOMAIN KT

Obj(k, v, m) == [k |-> k, v |-> v, m |-> m]

Construct(k, v) ==
  /\ hist' = Append(hist, <<"C", k, v>>)
  /\ live' = Append(live, Obj(k, v, 0))
ConstructShared(k, v) ==
  /\ KT[k].arg
  /\ hist' = Append(hist, <<"A", k, v>>)
  /\ live' = Append(live, Obj(k, v, 0))
Decode(i) ==
  /\ KT[live[i].k].ser
  /\ hist' = Append(hist, <<"D", i, 0>>)
  /\ live' = Append(live, live[i])
Serialise(i) ==
  /\ KT[live[i].k].ser
  /\ hist' = Append(hist, <<"S", i, 0>>)
  /\ live' = live
Mutate(i) ==
  /\ KT[live[i].k].mut /\ live[i].m < MaxMut
  /\ hist' = Append(hist, <<"M", i, 0>>)
  /\ live' = [live EXCEPT ![i].m = @ + 1]

Init == hist = <<>> /\ live = <<>> /\ prev = <<>>
Next ==
  /\ Len(hist) < Depth
  /\ prev' = live
  /\ \/ \E k \in Use : \E v \in 1..KT[k].nv : Construct(k, v) \/ ConstructShared(k, v)
     \/ \E i \in 1..Len(live) : Decode(i) \/ Mutate(i) \/ Serialise(i)
Spec == Init /\ [][Next]_<<hist, live, prev>>

(* ---- laws ---------------------------------------------------------------- *)
LastOp == hist[Len(hist)]
Target == IF Len(hist) = 0 \/ LastOp[1] # "M" THEN 0 ELSE LastOp[2]
Frame ==
  /\ Len(prev) <= Len(live) /\ Len(live) <= Len(prev) + 1
  /\ \A j \in 1..Len(prev) : j # Target => live[j] = prev[j]
DecodedEqualsSource ==
  (Len(hist) > 0 /\ LastOp[1] = "D") => live[Len(live)] = prev[LastOp[2]]
OnlyMutatorsMutate ==
  \A j \in 1..Len(live) : live[j].m > 0 => KT[live[j].k].mut

(* every behaviour is a path of a tree (hist is part of the state): each state is printed once;
   the harness replays the maximal ones (their prefixes are checked on the way) *)
Emit == Len(hist) = Depth => PrintT("PT|" \o ToJson([h |-> hist]))
=============================================================================
