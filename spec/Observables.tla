----------------------------- MODULE Observables -----------------------------
(***************************************************************************)
(* C20: TLC enumerates a lattice of operator representations, operator     *)
(* pairs, states and Hamiltonians (Gaussian-integer coefficients, qudit    *)
(* dimension 2..4, 1..4 qudits, several eigenstate orders), checks the     *)
(* laws of the reference of QuditAlgebra on every point and prints the     *)
(* expected matrices / vectors / observable values (exact rationals:       *)
(* integer numerators over integer denominators), one state per point.     *)
(* The harness (harness/props/C20.py) executes every printed point on      *)
(* QutipOperator / QutipState / the default observables.                   *)
(*                                                                         *)
(* One TLC state per lattice point (plus one root and one state per bucket  *)
(* of points, see Buckets).  Modes (constant Mode):                                                  *)
(*   "rep"  operator representation -> matrix, accept / reject             *)
(*   "alg"  A + B, g A, A @ B on pairs of operators                        *)
(*   "act"  A applied to kets and density matrices, expectation values     *)
(*   "obs"  occupation, correlation, energy, second moment, variance,      *)
(*          fidelity, expectation, bitstring probabilities                 *)
(***************************************************************************)
EXTENDS QuditAlgebra, TLC, Json

CONSTANTS Mode,      \* "rep" | "alg" | "act" | "obs"
          DN,        \* set of <<d, n, sel1, sel2, lean, ords>>: qudit dimension, number of qudits, ids of
                     \* the qudit operators used by the first / second term of "rep" operators (sel2 = {}:
                     \* single-term operators only), lean = TRUE: reduced catalogues (large systems),
                     \* ords = eigenstate orders, subset of {"id", "rev", "rot"}
          MaxLaw,    \* laws that need matrix products are checked for Size <= MaxLaw
          MaxRep,    \* laws of the representation are checked for Size <= MaxRep
          MaxProd    \* matrix products are printed for Size <= MaxProd
VARIABLE pt

(* ---------------- catalogue of single-qudit operators (level names 1..4) ---------------- *)
QCat == <<
  << <<1, 1, G1>> >>,                                                    \* 1  |1><1|
  << <<1, 2, G1>>, <<2, 1, G1>> >>,                                      \* 2  X on levels 1,2
  << <<1, 2, <<0, 1>>>>, <<2, 1, <<0, -1>>>> >>,                         \* 3  i|1><2| - i|2><1|
  << <<1, 1, G1>>, <<2, 2, <<-1, 0>>>> >>,                               \* 4  Z on levels 1,2
  << <<2, 1, <<1, 2>>>>, <<2, 2, <<3, 0>>>> >>,                          \* 5  non-Hermitian
  << <<3, 1, <<2, 0>>>>, <<2, 3, <<0, 1>>>>, <<3, 3, <<-1, 0>>>> >>,     \* 6  needs d >= 3
  << <<4, 4, G1>>, <<1, 4, <<1, -1>>>> >>,                               \* 7  needs d = 4
  << <<1, 3, G1>>, <<3, 1, G1>> >>                                       \* 8  X on levels 1,3
>>
QMaxLvl(q) == CHOOSE x \in {q[j][1] : j \in 1..Len(q)} \cup {q[j][2] : j \in 1..Len(q)} :
                 \A j \in 1..Len(q) : q[j][1] <= x /\ q[j][2] <= x
QIds(d) == {i \in 1..Len(QCat) : QMaxLvl(QCat[i]) <= d}
Proj(l) == << <<l, l, G1>> >>

OrdOf(d, kind) ==
  CASE kind = "id" -> [i \in 1..d |-> i]
    [] kind = "rev" -> [i \in 1..d |-> d + 1 - i]
    [] kind = "rot" -> [i \in 1..d |-> (i % d) + 1]
Ords(dn) == {OrdOf(dn[1], k) : k \in dn[6]}
Ctx(dn, o) == [d |-> dn[1], n |-> dn[2], s |-> Pow(dn[1], dn[2]), ord |-> o, lean |-> dn[5]]
Ctxs == UNION {{Ctx(dn, o) : o \in Ords(dn)} : dn \in DN}
All(c) == 0..(c.n - 1)

(* a TensorOp from an assignment qudit -> operator id (0 = none): qudits sharing an operator
   are grouped in one (QuditOp, set) pair *)
RECURSIVE TFrom(_, _, _)
TFrom(a, n, id) ==
  IF id > Len(QCat) THEN <<>>
  ELSE LET S == {k \in 0..(n - 1) : a[k] = id}
       IN (IF S = {} THEN <<>> ELSE << <<QCat[id], S>> >>) \o TFrom(a, n, id + 1)
TensorOps(c, ids) == {TFrom(a, c.n, 1) : a \in [All(c) -> (ids \cap QIds(c.d)) \cup {0}]}

(* ---------------- mode "rep" ---------------- *)
Coef1 == {G1, <<0, 1>>}
Coef2 == {<<-2, 0>>, <<1, 1>>}
(* points of one bucket: first term = the bucket's TensorOp t1; second term over the ids Sel2 *)
RepValid(c, t1, Sel2) ==
  LET T2 == TensorOps(c, Sel2)
      one == {<< <<g, t1>> >> : g \in Coef1}
      two == IF Sel2 = {} THEN {} ELSE {<< <<G1, t1>>, <<g2, t2>> >> : g2 \in Coef2, t2 \in T2}
  IN {[m |-> "rep", c |-> c, f |-> f, bad |-> "none"] : f \in one \cup two}
RepSpecial(c) ==
  LET n == c.n
      X0 == <<QCat[2], {0}>>
      N0 == <<QCat[1], {0}>>
      NL == <<QCat[1], {n - 1}>>
  IN {[m |-> "rep", c |-> c, f |-> << <<G1, <<X0, <<QCat[1], {n}>> >> >> >>, bad |-> "index"],
      [m |-> "rep", c |-> c, f |-> << <<G1, << <<QCat[5], {0 - 1}>> >> >> >>, bad |-> "negindex"],
      [m |-> "rep", c |-> c, f |-> << <<G1, <<X0, N0>> >> >>, bad |-> "overlap"],
      [m |-> "rep", c |-> c, f |-> << <<G1, << <<QCat[4], All(c)>>, NL >> >> >>, bad |-> "overlap"],
      [m |-> "rep", c |-> c, f |-> << <<G1, <<X0>> >>, <<G1, <<N0, X0>> >> >>, bad |-> "overlap2nd"],
      [m |-> "rep", c |-> c, f |-> << <<G1, << <<Proj(c.d + 1), {0}>> >> >> >>, bad |-> "key"],
      [m |-> "rep", c |-> c, f |-> << <<G1, << << << <<1, c.d + 1, G1>> >>, {n - 1}>> >> >> >>, bad |-> "key"],
      [m |-> "rep", c |-> c, f |-> << <<<<2, -1>>, <<>> >> >>, bad |-> "none"],                 \* identity
      [m |-> "rep", c |-> c, f |-> << <<G1, << <<QCat[2], {}>>, NL >> >> >>, bad |-> "none"],   \* empty set
      [m |-> "rep", c |-> c, f |-> << <<Z0, <<X0>> >>, <<G1, <<NL>> >> >>, bad |-> "none"],     \* zero coeff
      [m |-> "rep", c |-> c, f |-> << <<G1, <<X0>> >>, <<<<-1, 0>>, <<X0>> >> >>, bad |-> "none"] \* cancels
     }
(* ---------------- catalogue of operators for "alg", "act", "obs" ---------------- *)
OpSeq(c) ==
  LET n == c.n
      base == <<
        << <<G1, << <<QCat[2], {0}>> >> >> >>,
        << <<<<0, 1>>, << <<QCat[5], {n - 1}>> >> >>, <<<<2, 0>>, << <<QCat[1], All(c)>> >> >> >>,
        << <<G1, << <<QCat[3], {0}>>, <<QCat[4], All(c) \ {0}>> >> >> >>,
        << <<<<1, -1>>, <<>> >>, <<G1, << <<QCat[4], {n - 1}>> >> >> >> >>
      d3 == IF c.d >= 3
            THEN << << <<G1, << <<QCat[6], {0}>> >> >>, <<<<-1, 0>>, << <<QCat[8], {n - 1}>> >> >> >> >>
            ELSE <<>>
      d4 == IF c.d >= 4 THEN << << <<<<0, 2>>, << <<QCat[7], All(c)>> >> >> >> >> ELSE <<>>
  IN IF c.lean THEN SubSeq(base, 1, 2) ELSE base \o d3 \o d4
OpCat(c) == {OpSeq(c)[i] : i \in 1..Len(OpSeq(c))}
Scalars(c) == IF c.lean THEN {<<1, -1>>} ELSE {<<2, 0>>, <<0, 1>>, <<1, -1>>, Z0}

(* Hermitian operators used as Hamiltonians *)
HamCat(c) ==
  LET n == c.n
      xs == [k \in 1..n |-> <<G1, << <<QCat[2], {k - 1}>> >> >>]
      ns == [k \in 1..n |-> <<<<-2, 0>>, << <<QCat[1], {k - 1}>> >> >>]
      h1 == xs \o << <<<<2, 0>>, << <<QCat[1], {0}>> >> >> >>
      h2 == << <<<<3, 0>>, << <<QCat[4], All(c)>> >> >>, <<G1, << <<QCat[3], {n - 1}>> >> >> >>
      h3 == xs \o ns \o << <<<<5, 0>>, << <<QCat[1], {0, n - 1}>> >> >> >>
      h4 == << <<G1, << <<QCat[8], {0}>> >> >>, <<<<2, 0>>, << <<Proj(c.d), All(c)>> >> >> >>
  IN IF c.lean THEN (IF Size(c) > 27 THEN {h2} ELSE IF n >= 2 THEN {h3} ELSE {h1})
     ELSE {h1, h2} \cup (IF n >= 2 THEN {h3} ELSE {}) \cup (IF c.d >= 3 THEN {h4} ELSE {})

(* ---------------- catalogue of states ---------------- *)
BAll(c, l) == [k \in 1..c.n |-> l]
BOne(c, pos, l, rest) == [k \in 1..c.n |-> IF k = pos THEN l ELSE rest]
BAlt(c) == [k \in 1..c.n |-> IF (k % 2) = 1 THEN 1 ELSE 2]
BOfIndex(c, r) == [k \in 1..c.n |-> ((r \div Pow(c.d, c.n - k)) % c.d) + 1]
RECURSIVE DedupFrom(_, _)
DedupFrom(a, i) ==
  IF i > Len(a) THEN <<>>
  ELSE (IF \E j \in 1..(i - 1) : a[j][1] = a[i][1] THEN <<>> ELSE <<a[i]>>) \o DedupFrom(a, i + 1)
Dedup(a) == DedupFrom(a, 1)          \* a mapping has one amplitude per basis state: keep the first
DistinctKeys(amps) == \A i, j \in 1..Len(amps) : i # j => amps[i][1] # amps[j][1]
KetCat(c) ==
  LET a1 == BAll(c, 1)  aD == BAll(c, c.d)  b2 == BOne(c, 1, 2, 1)  lst == BOne(c, c.n, c.d, 1)
      alt == BAlt(c)
      dense == [r \in 1..Size(c) |-> <<BOfIndex(c, r - 1), IF ((r - 1) % 3) = 0 THEN G1 ELSE IF ((r - 1) % 3) = 1 THEN <<0, 1>> ELSE <<-1, 0>> >>]
      raw == { << <<a1, G1>> >>,
               << <<b2, G1>> >>,
               << <<aD, <<0, 1>>>> >>,
               << <<a1, G1>>, <<aD, G1>> >>,
               << <<a1, G1>>, <<b2, <<0, 1>>>> >>,
               << <<a1, G1>>, <<aD, <<-1, 0>>>>, <<b2, <<1, 1>>>> >>,
               << <<b2, <<2, 0>>>>, <<lst, <<1, -2>>>>, <<a1, <<-1, 0>>>> >>,
               << <<alt, G1>>, <<aD, <<0, 1>>>>, <<b2, G1>> >> }
             \cup (IF Size(c) <= 16 THEN {dense} ELSE {})
      lean == { << <<a1, G1>>, <<aD, G1>> >>, << <<b2, <<2, 0>>>>, <<lst, <<1, -2>>>>, <<a1, <<-1, 0>>>> >> }
  IN {Dedup(k) : k \in (IF c.lean THEN lean ELSE raw)}
K1(c) == << <<BAll(c, 1), G1>> >>
K2(c) == << <<BOne(c, 1, 2, 1), G1>> >>
K3(c) == << <<BAll(c, c.d), <<0, 1>>>> >>
K4(c) == << <<BAll(c, 1), G1>>, <<BAll(c, c.d), G1>> >>
K5(c) == << <<BAll(c, 1), G1>>, <<BOne(c, 1, 2, 1), <<0, 1>>>> >>
K6(c) == Dedup(<< <<BAll(c, 1), G1>>, <<BAll(c, c.d), <<-1, 0>>>>, <<BOne(c, 1, 2, 1), <<1, 1>>>> >>)
StateCat(c) ==
  {[kind |-> "ket", comps |-> << <<1, k>> >>] : k \in KetCat(c)}
  \cup {[kind |-> "dm", comps |-> << <<1, K5(c)>> >>],                      \* a pure state given as a matrix
        [kind |-> "dm", comps |-> << <<1, K4(c)>>, <<2, K2(c)>> >>]}        \* mixed, not diagonal
  \cup (IF c.lean THEN {} ELSE
       {[kind |-> "dm", comps |-> << <<1, K1(c)>>, <<1, K2(c)>> >>],        \* diagonal, weights 1/2 1/2
        [kind |-> "dm", comps |-> << <<1, K1(c)>>, <<3, K3(c)>> >>],        \* diagonal, weights 1/4 3/4
        [kind |-> "dm", comps |-> << <<1, K6(c)>>, <<4, K1(c)>>, <<2, K5(c)>> >>]})
Targets(c) == IF c.lean THEN <<K1(c), K6(c)>> ELSE <<K1(c), K3(c), K4(c), K6(c)>>
Ones(c) == IF c.lean THEN {1} ELSE 1..c.d

(* The state graph has three levels so that TLC's workers share the load (initial states and the
   successors of one state are computed by a single thread): root -> buckets -> points.  Laws
   and Emit are evaluated on the points by the worker that expands the bucket. *)
Bucket(k, c, x, y) == [m |-> "bucket", k |-> k, c |-> c, x |-> x, y |-> y]
Buckets ==
  CASE Mode = "rep" ->
         UNION {UNION {{Bucket("rep", Ctx(dn, o), t1, dn[4]) : t1 \in TensorOps(Ctx(dn, o), dn[3])}
                       \cup {Bucket("repS", Ctx(dn, o), <<>>, {})} : o \in Ords(dn)} : dn \in DN}
    [] Mode = "alg" -> UNION {{Bucket("alg", c, A, B) : A \in OpCat(c), B \in OpCat(c)} : c \in Ctxs}
    [] Mode = "act" -> UNION {{Bucket("act", c, A, st) : A \in OpCat(c), st \in StateCat(c)} : c \in Ctxs}
    [] Mode = "obs" -> UNION {{Bucket("obs", c, <<H, one>>, st) : H \in HamCat(c), one \in Ones(c), st \in StateCat(c)} : c \in Ctxs}
PointsOf(b) ==
  CASE b.k = "rep" -> RepValid(b.c, b.x, b.y)
    [] b.k = "repS" -> RepSpecial(b.c)
    [] b.k = "alg" -> {[m |-> "alg", c |-> b.c, A |-> b.x, B |-> b.y, g |-> g] : g \in Scalars(b.c)}
    [] b.k = "act" -> {[m |-> "act", c |-> b.c, A |-> b.x, st |-> b.y]}
    [] b.k = "obs" -> {[m |-> "obs", c |-> b.c, st |-> b.y, H |-> b.x[1], one |-> b.x[2]]}

Init == pt = [m |-> "root"]
Next ==
  \/ pt.m = "root" /\ pt' \in Buckets
  \/ pt.m = "bucket" /\ pt' \in PointsOf(pt)
Spec == Init /\ [][Next]_pt
IsPoint == pt.m \notin {"root", "bucket"}

(* ======================= laws of the reference ======================= *)
(* position of an index under the identity order, given its digits are positions under c.ord *)
RelabelTab(c) ==
  LET dg == DigTab(c)
  IN Ev([r \in Idx(c) |->
          ISumTo([k \in 0..(c.n - 1) |-> (c.ord[dg[r][k] + 1] - 1) * Pow(c.d, c.n - 1 - k)], c.n - 1)])
IdCtx(c) == [d |-> c.d, n |-> c.n, s |-> c.s, ord |-> OrdOf(c.d, "id"), lean |-> c.lean]

RepLaws ==
  pt.m = "rep" /\ ValidRep(pt.c, pt.f) /\ Size(pt.c) <= MaxRep =>
    LET c == pt.c  f == pt.f  M == OpMat(c, f)
    IN /\ \A m \in 1..Len(f) : TensorMat(c, f[m][2]) = KronTo(c, Factors(c, f[m][2]), c.n - 1)
       /\ Len(f) = 2 => M = MatAdd(c, OpMat(c, <<f[1]>>), OpMat(c, <<f[2]>>))
       /\ \A m \in 1..Len(f) : OpMat(c, <<f[m]>>) = MatScale(c, f[m][1], TensorMat(c, f[m][2]))
       /\ LET Mid == OpMat(IdCtx(c), f)
              rl == RelabelTab(c)
          IN \A x \in Idx2(c) : M[x] = Mid[(rl[x \div c.s] * c.s) + rl[x % c.s]]

AlgLaws ==
  pt.m = "alg" =>
    LET c == pt.c  A == OpMat(c, pt.A)  B == OpMat(c, pt.B)
    IN /\ OpMat(c, pt.A \o pt.B) = MatAdd(c, A, B)                          \* sum of representations
       /\ OpMat(c, [m \in 1..Len(pt.A) |-> <<GMul(pt.g, pt.A[m][1]), pt.A[m][2]>>]) = MatScale(c, pt.g, A)
       /\ MatAdd(c, A, B) = MatAdd(c, B, A)
       /\ Size(c) <= MaxLaw =>
            /\ Dagger(c, MatMul(c, A, B)) = MatMul(c, Dagger(c, B), Dagger(c, A))
            /\ MatMul(c, MatAdd(c, A, B), A) = MatAdd(c, MatMul(c, A, A), MatMul(c, B, A))
            /\ MatMul(c, MatScale(c, pt.g, A), B) = MatScale(c, pt.g, MatMul(c, A, B))

ActLaws ==
  pt.m = "act" =>
    LET c == pt.c  A == OpMat(c, pt.A)  R == Rho(c, pt.st)
        psi == Vec(c, pt.st.comps[1][2])
    IN /\ Hermitian(c, R)
       /\ Trace(c, R)[1] > 0 /\ Trace(c, R)[2] = 0
       /\ Len(pt.st.comps) = 1 =>
            /\ Size(c) <= MaxLaw => Outer(c, ApplyVec(c, A, psi)) = MatMul(c, MatMul(c, A, R), Dagger(c, A))
            /\ Inner(c, psi, ApplyVec(c, A, psi)) = TrProd(c, R, A)         \* <psi|A|psi> = Tr[rho A]
       /\ Size(c) <= MaxLaw =>
            Trace(c, MatMul(c, MatMul(c, A, R), Dagger(c, A))) = TrProd(c, R, MatMul(c, Dagger(c, A), A))

NumberOp(c, one, S) == << <<G1, << <<Proj(one), S>> >> >> >>
ObsLaws ==
  pt.m = "obs" =>
    LET c == pt.c  R == Rho(c, pt.st)  H == OpMat(c, pt.H)  den == Trace(c, R)[1]
        E == TrProd(c, R, H)
        m2 == M2Num(c, H, pt.st)
        bt == BitsTab(c, pt.one)
    IN /\ Hermitian(c, H) /\ Hermitian(c, R) /\ den > 0
       /\ E[2] = 0
       /\ (m2 * den) - (E[1] * E[1]) >= 0                                     \* variance >= 0
       /\ Size(c) <= MaxLaw =>              \* n_i = |one><one| on qudit i, n_i n_j on {i, j}
            /\ \A i \in All(c) : OccNum(c, R, pt.one, i) = TrProd(c, R, OpMat(c, NumberOp(c, pt.one, {i})))[1]
            /\ \A i, j \in All(c) :
                 CorrNum(c, R, pt.one, i, j) = TrProd(c, R, OpMat(c, NumberOp(c, pt.one, {i, j})))[1]
       /\ \A i, j \in All(c) :
            /\ CorrNum(c, R, pt.one, i, j) = CorrNum(c, R, pt.one, j, i)
            /\ CorrNum(c, R, pt.one, i, i) = OccNum(c, R, pt.one, i)
       /\ ISumTo([b \in 0..(Pow(2, c.n) - 1) |-> BitNum(c, R, bt, b)], Pow(2, c.n) - 1) = den
       /\ \A i \in All(c) :
            ISumTo([b \in 0..(Pow(2, c.n) - 1) |->
                      IF ((b \div Pow(2, c.n - 1 - i)) % 2) = 1 THEN BitNum(c, R, bt, b) ELSE 0],
                   Pow(2, c.n) - 1) = OccNum(c, R, pt.one, i)
       /\ Size(c) <= MaxLaw => m2 = TrProd(c, R, MatMul(c, H, H))[1]          \* = Tr[rho H^2]
       /\ \A k \in 1..Len(Targets(c)) :
            LET phi == Vec(c, Targets(c)[k])  fn == FidNum(c, R, phi)
            IN fn[2] = 0 /\ fn[1] >= 0 /\ fn[1] <= VNorm2(c, phi) * den
       /\ pt.st.kind = "ket" =>
            \A k \in 1..Len(Targets(c)) :
               LET phi == Vec(c, Targets(c)[k])  psi == Vec(c, pt.st.comps[1][2])
               IN FidNum(c, R, phi)[1] = GNorm2(Inner(c, phi, psi))           \* |<phi|psi>|^2

Laws == RepLaws /\ AlgLaws /\ ActLaws /\ ObsLaws

(* ======================= emission ======================= *)
EmitRec ==
  CASE pt.m = "rep" ->
         LET ok == ValidRep(pt.c, pt.f)
         IN [m |-> "rep", c |-> pt.c, f |-> pt.f, bad |-> pt.bad, ok |-> ok,
             mat |-> IF ok THEN Sparse(pt.c, OpMat(pt.c, pt.f)) ELSE {}]
    [] pt.m = "alg" ->
         LET c == pt.c  A == OpMat(c, pt.A)  B == OpMat(c, pt.B)
         IN [m |-> "alg", c |-> c, A |-> pt.A, B |-> pt.B, g |-> pt.g,
             sum |-> Sparse(c, MatAdd(c, A, B)), scaled |-> Sparse(c, MatScale(c, pt.g, A)),
             hasprod |-> Size(c) <= MaxProd,
             prod |-> IF Size(c) <= MaxProd THEN Sparse(c, MatMul(c, A, B)) ELSE {},
             probe |-> K6(c),                \* (A @ B) applied to a ket = A (B ket), cheap at any size
             pv |-> SparseVec(c, ApplyVec(c, A, ApplyVec(c, B, Vec(c, K6(c)))))]
    [] pt.m = "act" ->
         LET c == pt.c  A == OpMat(c, pt.A)  R == Rho(c, pt.st)
         IN [m |-> "act", c |-> c, A |-> pt.A, st |-> pt.st,
             den |-> Trace(c, R)[1],
             rho |-> Sparse(c, R),
             vec |-> IF pt.st.kind = "ket" THEN SparseVec(c, Vec(c, pt.st.comps[1][2])) ELSE {},
             avec |-> IF pt.st.kind = "ket" THEN SparseVec(c, ApplyVec(c, A, Vec(c, pt.st.comps[1][2]))) ELSE {},
             hasarho |-> pt.st.kind = "dm" /\ Size(c) <= MaxProd,
             arho |-> IF pt.st.kind = "dm" /\ Size(c) <= MaxProd
                      THEN Sparse(c, MatMul(c, MatMul(c, A, R), Dagger(c, A))) ELSE {},
             ex |-> TrProd(c, R, A)]
    [] pt.m = "obs" ->
         LET c == pt.c  R == Rho(c, pt.st)  H == OpMat(c, pt.H)  den == Trace(c, R)[1]
             E == TrProd(c, R, H)  m2 == M2Num(c, H, pt.st)
             ops == OpSeq(c)
             bt == BitsTab(c, pt.one)
         IN [m |-> "obs", c |-> c, st |-> pt.st, H |-> pt.H, one |-> pt.one, den |-> den,
             occ |-> [i \in 1..c.n |-> OccNum(c, R, pt.one, i - 1)],
             corr |-> [i \in 1..c.n |-> [j \in 1..c.n |-> CorrNum(c, R, pt.one, i - 1, j - 1)]],
             en |-> E[1], m2 |-> m2, varn |-> (m2 * den) - (E[1] * E[1]),
             tg |-> Targets(c),
             fid |-> [k \in 1..Len(Targets(c)) |->
                        <<FidNum(c, R, Vec(c, Targets(c)[k]))[1], VNorm2(c, Vec(c, Targets(c)[k]))>>],
             ox |-> ops,
             ex |-> [k \in 1..Len(ops) |-> TrProd(c, R, OpMat(c, ops[k]))],
             bits |-> {<<b, BitNum(c, R, bt, b)>> : b \in {x \in 0..(Pow(2, c.n) - 1) : BitNum(c, R, bt, x) > 0}}]
Emit == IsPoint => PrintT("PT|" \o ToJson(EmitRec))
=============================================================================
