----------------------------- MODULE PulserProps -----------------------------
(***************************************************************************)
(* Declarative statements of the listed properties over the state of       *)
(* PulserSeq.  They are written independently of the operators that mirror *)
(* the code (no use of FindAddDelay / MakeSlot / AddTarget), as predicates *)
(* over a transition (pre-state, call, result) or over a single state.     *)
(* Viol(pre, c, r, h) is the set of names of the predicates that are false *)
(* on that transition.  It is evaluated                                     *)
(*   - by TLC on every transition of the mirrored model (PulserSeqMC), and *)
(*   - by TLC on transitions logged from the implementation                *)
(*     (PulserSeqTrace), where pre / r.st are states of the real object.   *)
(***************************************************************************)
EXTENDS PulserSeq

(* phases compared on the circle within PhaseTol units *)
PhEq(a, b) ==
  IF PhaseTol = 0 THEN a = b
  ELSE LET d == Abs(a - b) % PhaseMod IN Min2(d, PhaseMod - d) <= PhaseTol

IsPrefixSeq(a, b) == Len(a) <= Len(b) /\ \A k \in 1..Len(a) : a[k] = b[k]

(* the mode a slot was played in: _ChannelSchedule.in_eom_mode(time_slot) *)
PlayedInEom(c, op) ==
  \E b \in 1..Len(c.eb) :
     c.eb[b].ti <= op.ti /\ (c.eb[b].tf = -1 \/ op.ti < c.eb[b].tf)
PlayedFall(c, op) == IF PlayedInEom(c, op) THEN op.fe ELSE op.fs

RoundUp(d, clock) == IF d % clock = 0 THEN d ELSE d + clock - (d % clock)

-----------------------------------------------------------------------------
(* C02: tiling of every channel timeline *)
TilingChan(cfg, c) ==
  /\ Len(c.sl) > 0 =>
       /\ c.sl[1].k = "t" /\ c.sl[1].ti = -1 /\ c.sl[1].tf = 0
  /\ \A k \in 2..Len(c.sl) :
       LET op == c.sl[k] IN
       /\ op.ti = c.sl[k - 1].tf
       /\ op.tf >= op.ti
       /\ op.ti >= 0
       /\ op.ti % cfg.clock = 0
       /\ op.tf % cfg.clock = 0
       /\ op.k = "p" => (op.tf - op.ti = op.w[1] /\ op.tf - op.ti >= cfg.minDur)
       /\ (op.k = "d" \/ (op.k = "t" /\ op.tf > op.ti)) => op.tf - op.ti >= cfg.minDur
       /\ op.k \in {"d", "p"} => op.tg = c.sl[k - 1].tg

Tiling(st) == \A i \in 1..Len(st.ch) : TilingChan(CfgOf(st, i), st.ch[i])

(* declarative duration with fall time: end of the last instruction, or the *)
(* end of the last pulse plus its fall time (current mode, as reported by   *)
(* the implementation) if that is later                                     *)
DeclDurFall(c) ==
  LET lp == LastPulseIdx(c, FALSE) IN
  IF lp = 0 THEN ChanDur(c)
  ELSE Max2(ChanDur(c), c.sl[lp].tf + FallOf(c.sl[lp], InEom(c)))

SlotsOnlyGrow(pre, post) ==
  /\ Len(pre.ch) <= Len(post.ch)
  /\ \A i \in 1..Len(pre.ch) :
       /\ post.ch[i].nm = pre.ch[i].nm
       /\ IsPrefixSeq(pre.ch[i].sl, post.ch[i].sl)

-----------------------------------------------------------------------------
(* C03: protocols *)
(* Which fall time does a pulse-typed slot have?  A slot played inside an EOM *)
(* block ramps down with the EOM bandwidth, one played outside with the       *)
(* channel's; the implementation takes the fall time with the channel's       *)
(* CURRENT mode, and for slots at the boundary of a block (buffers, the last  *)
(* pulse before disabling) either reading is defensible.  The predicates      *)
(* therefore use a don't-care band: "no conflict" is checked with the weakest *)
(* reading (smallest plausible fall time, zero-amplitude detuned delays do    *)
(* not conflict), "minimal" with the strongest (largest plausible fall time,  *)
(* any pulse-typed slot).  On channels that never entered EOM mode the two    *)
(* readings coincide up to the treatment of detuned delays (which only exist  *)
(* in EOM mode).                                                              *)
FallWeak(c, op) == IF c.eb = <<>> THEN op.fs ELSE Min2(op.fs, op.fe)
FallStrong(c, op) == IF c.eb = <<>> THEN op.fs ELSE Max2(op.fs, op.fe)
(* reported duration with fall time: exact on a channel that never used the EOM; on one that did, *)
(* anything between the two readings of the last pulse's fall time (DESIGN 12.2)                  *)
DurFallInBand(c, x) ==
  LET lp == LastPulseIdx(c, FALSE) IN
  IF lp = 0 THEN x = ChanDur(c)
  ELSE /\ x >= Max2(ChanDur(c), c.sl[lp].tf + FallWeak(c, c.sl[lp]))
       /\ x <= Max2(ChanDur(c), c.sl[lp].tf + FallStrong(c, c.sl[lp]))

(* end (with fall time) of the most recent conflicting slot of channel j *)
ConflictEnd(st, j, mytg, proto, strong) ==
  LET c == st.ch[j]
      I == {k \in 1..Len(c.sl) :
              /\ c.sl[k].k = "p"
              /\ (strong \/ ~c.sl[k].dd)
              /\ (proto = "wait-for-all" \/ Meet(c.sl[k].tg, mytg, NQ(st)))}
  IN IF I = {} THEN 0
     ELSE LET k == CHOOSE k \in I : \A l \in I : l <= k IN
          c.sl[k].tf + (IF strong THEN FallStrong(c, c.sl[k]) ELSE FallWeak(c, c.sl[k]))

(* phase-jump requirement counted from the end of the previous real pulse *)
PJNeed(cfg, c, prev, strong) ==
  IF strong
  THEN Max2(cfg.pjt, IF c.eb # <<>> THEN 2 * cfg.rise ELSE 0) + FallStrong(c, prev)
  ELSE (IF InEom(c) THEN Max2(cfg.pjt, 2 * cfg.erise) ELSE cfg.pjt) + FallWeak(c, prev)

(* is start time t allowed for a pulse of phase ph added to channel i? *)
StartAllowed(pre, i, proto, ph, t, strong) ==
  LET c == pre.ch[i]
      cfg == CfgOf(pre, i)
      last == LastOf(c.sl)
      t0 == last.tf
      bi == RefIdx(pre, cfg.basis)
      lp == LastPulseIdx(c, TRUE)
  IN
  /\ t >= t0
  /\ t >= RefBarrier(pre, bi, last.tg)
  /\ proto # "no-delay" =>
       /\ \A j \in 1..Len(pre.ch) : j # i => t >= ConflictEnd(pre, j, last.tg, proto, strong)
       \* with quantised phases (PhaseTol > 0) phases closer than the tolerance may or may not be
       \* bitwise different for the implementation: the weak reading requires the phase-jump wait
       \* only for clearly different phases, the strong one whenever they might differ
       /\ (lp # 0 /\ (IF PhaseTol = 0 THEN c.sl[lp].ph # ph
                       ELSE (strong \/ ~PhEq(c.sl[lp].ph, ph)))) =>
             t - c.sl[lp].tf >= PJNeed(cfg, c, c.sl[lp], strong)
  /\ \/ t = t0
     \/ /\ t - t0 >= cfg.minDur
        /\ (t - t0) % cfg.clock = 0

-----------------------------------------------------------------------------
(* C10 *)
(* consecutive real pulses (detuned delays skipped) of different phase *)
PhaseJumpOK(cfg, c, k, noDelay) ==
  LET op == c.sl[k]
      P == {l \in 1..(k - 1) : c.sl[l].k = "p" /\ ~c.sl[l].dd}
  IN
  (op.k = "p" /\ ~op.dd /\ P # {} /\ ~noDelay) =>
    LET l == CHOOSE l \in P : \A m \in P : m <= l
        prev == c.sl[l]
        need == IF PlayedInEom(c, op) THEN Max2(cfg.pjt, 2 * cfg.erise) ELSE cfg.pjt
    IN (IF PhaseTol = 0 THEN prev.ph # op.ph ELSE ~PhEq(prev.ph, op.ph)) =>
         op.ti - prev.tf >= need + FallWeak(c, prev)

RetargetOK(cfg, c, k) ==
  LET op == c.sl[k]
      T == {l \in 1..(k - 1) : c.sl[l].k = "t"}
      P == {l \in 1..(k - 1) : c.sl[l].k = "p"}
  IN
  (op.k = "t" /\ k > 1) =>
    /\ T # {} => op.tf - c.sl[CHOOSE l \in T : \A m \in T : m <= l].tf >= cfg.minRet
    /\ op.tf - op.ti >= cfg.fixRet
    /\ P # {} => LET l == CHOOSE l \in P : \A m \in P : m <= l IN
                 op.ti >= c.sl[l].tf + FallWeak(c, c.sl[l])

-----------------------------------------------------------------------------
TimelineChanging ==
  {"declare", "target", "delay", "add", "align", "eom_on", "eom_off", "eom_mod", "eom_add",
   "detmap", "dmm_add"}
ReadOnly == {"est"}

Timeline(st) == [i \in 1..Len(st.ch) |-> <<st.ch[i].nm, st.ch[i].sl, st.ch[i].eb>>]

(* was the previous call of the history an estimate of the same add? *)
PrevEstimate(c, h) ==
  IF Len(h) = 0 THEN <<FALSE, 0>>
  ELSE LET e == h[Len(h)]
           pc == Calls[e[1]]
       IN IF pc.op = "est" /\ e[2] = "ok" /\ c.op = "add"
             /\ pc.nm = c.nm /\ pc.p = c.p /\ pc.proto = c.proto
          THEN <<TRUE, e[3]>> ELSE <<FALSE, 0>>

(* slots appended by the transition: <<channel index, slot index>> *)
NewSlots(pre, post) ==
  {<<j, k>> \in UNION {{j} \X (1..Len(post.ch[j].sl)) : j \in 1..Len(post.ch)} :
       j > Len(pre.ch) \/ k > Len(pre.ch[j].sl)}

-----------------------------------------------------------------------------
(* C01: a scheduled pulse is within the limits of its channel *)
PulseWithinLimitsX(cfg, c, op, avgToo) ==
  LET w == op.w
      d == op.tf - op.ti
  IN
  /\ w[10] = 1                                              \* finite samples
  /\ cfg.maxAmp # -1 => w[4] <= cfg.maxAmp
  /\ cfg.maxDet # -1 => w[8] <= cfg.maxDet
  /\ (avgToo => (w[5] = 0 \/ w[5] >= cfg.minAvg \/ w[5] < 0))
  /\ d % cfg.clock = 0 /\ d >= cfg.minDur /\ (cfg.maxDur # -1 => d <= cfg.maxDur)
  /\ cfg.kind = "dmm" =>
        /\ w[11] <= 0
        /\ cfg.bottom # NoLim => c.mp[1] * w[9] >= 2 * cfg.bottom
        /\ cfg.tbottom # NoLim => c.mp[2] * w[9] >= 2 * cfg.tbottom

PulseWithinLimits(cfg, c, op) == PulseWithinLimitsX(cfg, c, op, TRUE)

FactsWithinLimits(cfg, P) ==
  /\ P.fin
  /\ cfg.maxAmp # -1 => P.am <= cfg.maxAmp
  /\ cfg.maxDet # -1 => P.dm <= cfg.maxDet
  /\ (P.av <= 0 \/ P.av >= cfg.minAvg)
  /\ P.dur >= cfg.minDur /\ (cfg.maxDur # -1 => P.dur <= cfg.maxDur)
  /\ (P.dur % cfg.clock = 0 \/ P.rs)

-----------------------------------------------------------------------------
(* C15: pulses inside an EOM block *)
BlockOf(c, op) ==
  LET B == {b \in 1..Len(c.eb) : c.eb[b].ti <= op.ti /\ (c.eb[b].tf = -1 \/ op.ti < c.eb[b].tf)}
  IN IF B = {} THEN 0 ELSE CHOOSE b \in B : \A x \in B : x <= b
EomSquareOK(c, op) ==
  LET b == BlockOf(c, op) IN
  (op.k = "p" /\ b # 0) =>
    LET blk == c.eb[b] w == op.w IN
    /\ w[2] = w[4] /\ w[3] = w[4] /\ w[6] = w[7]          \* flat
    /\ \/ (w[4] = blk.amp /\ w[6] = blk.don /\ (~op.dd \/ blk.amp = 0))
       \/ (w[4] = 0 /\ w[6] = blk.doff /\ op.dd)

(* C15: phase-drift correction.  While a channel idles in EOM mode the detuning *)
(* is doff, so the qubit frame drifts by -doff * dt with respect to the pulses;  *)
(* a corrected operation shifts the reference (and the pulse's phase) by the     *)
(* drift of the idle intervals it closes.  Drift of an interval of dt ns at      *)
(* off-detuning doff (1e-6 rad/us), in 1e-6 rad: -doff * dt / 1000.              *)
DriftOf(doff, dt) == ((-doff) \div 1000) * dt + (((-doff) % 1000) * dt) \div 1000

(* start of the current idle interval of channel c (in EOM mode): the end of the *)
(* last real pulse, or the start of the current block if that is later           *)
IdleOrigin(c) ==
  LET lp == LastPulseIdx(c, TRUE) IN
  Max2(LastOf(c.eb).ti, IF lp = 0 THEN 0 ELSE c.sl[lp].tf)

(* the reference shift a drift-corrected EOM operation must apply to its targets *)
ExpectedDriftShift(pre, post, c, i) ==
  LET cp == pre.ch[i]
      cq == post.ch[i]
      buf == LastOf(cq.sl)
  IN
  CASE c.op = "eom_add" ->
         -DriftOf(LastOf(cp.eb).doff, LastOf(cq.sl).ti - IdleOrigin(cp))
    [] c.op = "eom_off" ->
         -DriftOf(LastOf(cp.eb).doff, LastOf(cq.eb).tf - IdleOrigin(cp))
    [] c.op = "eom_on" ->
         \* the buffer idles at the new off-detuning from the end (with fall time) of what
         \* was there before
         -DriftOf(LastOf(cq.eb).doff, ChanDur(cq) - DeclDurFall(cp))
    [] c.op = "eom_mod" ->
         \* old off-detuning up to the moment of the modification (the channel's end), the
         \* new one during the buffer that follows
         -(DriftOf(LastOf(cp.eb).doff, ChanDur(cp) - IdleOrigin(cp))
           + DriftOf(LastOf(cq.eb).doff, ChanDur(cq) - ChanDur(cp)))

(* C13: the documented EOM mode of a channel follows the successful enable / disable calls *)
DocEom(hh, nm) ==
  LET E == {k \in 1..Len(hh) : hh[k][2] = "ok" /\ Calls[hh[k][1]].op \in {"eom_on", "eom_off"}
                               /\ Calls[hh[k][1]].nm = nm}
  IN E # {} /\ Calls[hh[CHOOSE k \in E : \A l \in E : l <= k][1]].op = "eom_on"

(* C15: buffers.  Adj = a wait as the channel can represent it *)
AdjLen(cfg, x) == RoundUp(Max2(x, cfg.minDur), cfg.clock)
(* remaining fall time of the channel's last pulse at its current end, weakest / strongest reading *)
PendingFall(c, strong) ==
  LET lp == LastPulseIdx(c, FALSE) IN
  IF lp = 0 THEN 0
  ELSE Max2(0, c.sl[lp].tf + (IF strong THEN FallStrong(c, c.sl[lp]) ELSE FallWeak(c, c.sl[lp])) - ChanDur(c))
BuffersOK(pre, post, c, i) ==
  LET cp == pre.ch[i]
      cq == post.ch[i]
      cfg == CfgOf(pre, i)
      B == AdjLen(cfg, cfg.ebuf)
      waitLo == IF PendingFall(cp, FALSE) > 0 THEN AdjLen(cfg, PendingFall(cp, FALSE)) ELSE 0
      waitHi == IF PendingFall(cp, TRUE) > 0 THEN AdjLen(cfg, PendingFall(cp, TRUE)) ELSE 0
  IN
  CASE c.op = "eom_on" ->
         \* on a non-empty channel: wait for the previous pulse to ramp down, then one buffer
         IF ChanDur(cp) = 0 THEN LastOf(cq.eb).ti = ChanDur(cp)
         ELSE /\ LastOf(cq.eb).ti >= ChanDur(cp) + waitLo + B
              /\ LastOf(cq.eb).ti <= ChanDur(cp) + waitHi + B
    [] c.op = "eom_mod" ->
         IF ChanDur(cp) = 0 THEN LastOf(cq.eb).ti = 0
         ELSE LastOf(cq.eb).ti = ChanDur(cp) + B
    [] c.op = "eom_off" ->
         /\ LastOf(cq.eb).tf = ChanDur(cp)
         /\ IF cfg.ecustom THEN ChanDur(cq) = ChanDur(cp) + B
            ELSE ChanDur(cq) >= ChanDur(cp) + waitLo /\ ChanDur(cq) <= ChanDur(cp) + waitHi
    [] OTHER -> TRUE

-----------------------------------------------------------------------------
Viol(pre, c, r, h) ==
  LET post == r.st
      rawOk == r.out = "ok"
      \* the schedule-level predicates speak of calls executed on a sequence being built; a
      \* parametrized sequence only stores the call (C08 relates it to the built sequence)
      ok == rawOk /\ pre.bld /\ post.bld
      i == IF "nm" \in DOMAIN c THEN ChIdx(pre, c.nm) ELSE 0
      isAdd == c.op \in {"add", "eom_add", "dmm_add"} /\ ok
      new == LastOf(post.ch[i].sl)                 \* only used when isAdd
      proto == c.proto                             \* only used when isAdd
      t0 == ChanDur(pre.ch[i])
      cfgi == CfgOf(pre, i)
      \* with an SLM trigger the pulse of the call is not the last slot of any other channel;
      \* on its own channel it still is
      NewPh == new.ph
      bi == RefIdx(pre, cfgi.basis)
      lastTg == LastOf(pre.ch[i].sl).tg
      cpd == "cpd" \in DOMAIN c /\ c.cpd
      RefLast(st, b, q) == LastOf(st.rf[b].q[q].ps)
      \* the shift this call is documented to apply to qubit q of basis index b (no drift terms)
      Shift(b, q) ==
        IF c.op = "pshift" /\ ok /\ b = RefIdx(pre, c.basis)
           /\ (c.tg = 0 \/ HasBit(c.tg, q)) THEN c.phi
        ELSE IF c.op = "add" /\ ok /\ b = bi /\ HasBit(lastTg, q) THEN Pulses[c.p].pps
        ELSE IF c.op = "eom_add" /\ ok /\ b = bi /\ HasBit(lastTg, q) THEN PMod(c.pps)
        ELSE 0
  IN
  (IF ~Tiling(post) THEN {"C02.Tiling"} ELSE {})
  \cup (IF ~SlotsOnlyGrow(pre, post) THEN {"C02.SlotsOnlyGrow"} ELSE {})
  \cup (IF \E j \in 1..Len(post.ch) :
             ~DurFallInBand(post.ch[j], ChanDurFall(CfgOf(post, j), post.ch[j]))
        THEN {"C02.DurFall"} ELSE {})
  \cup (IF ~rawOk /\ post # pre THEN {"C09.FailUnchanged"} ELSE {})
  \* the documented effect of a successful call is there: the channel addresses the atoms it was told to,
  \* a plain delay lengthens the channel by the requested time (rounded up to what the clock can represent)
  \cup (IF ok /\ pre.bld /\ post.bld /\ c.op = "target" /\ i # 0 /\ ChIdx(post, c.nm) # 0
           /\ LastOf(post.ch[ChIdx(post, c.nm)].sl).tg # c.tg
        THEN {"C09.TargetTakesEffect"} ELSE {})
  \cup (IF ok /\ pre.bld /\ post.bld /\ c.op = "delay" /\ ~c.rest /\ i # 0 /\ ChIdx(post, c.nm) # 0
           /\ LET d == ChanDur(post.ch[ChIdx(post, c.nm)]) - ChanDur(pre.ch[i]) IN
              ~(IF c.d = 0 THEN d = 0 ELSE d >= c.d /\ d < c.d + cfgi.clock /\ d % cfgi.clock = 0)
        THEN {"C09.DelayTakesEffect"} ELSE {})
  \cup (IF c.op \in ReadOnly /\ post # pre THEN {"C09.ReadOnly"} ELSE {})
  \* ---- C13 -------------------------------------------------------------
  \cup (IF Measured(pre) /\ (Timeline(post) # Timeline(pre) \/ (c.op \in TimelineChanging /\ rawOk))
        THEN {"C13.FrozenAfterMeasure"} ELSE {})
  \* once a variable is used the sequence is parametrized: inspection is refused, calls are stored
  \cup (IF ~pre.bld /\ c.op \in {"getdur", "est"} /\ rawOk
        THEN {"C13.TemplateRefusesInspection"} ELSE {})
  \cup (IF ~pre.bld /\ (post.bld \/ Timeline(post) # Timeline(pre)) /\ c.op # "declare"
        THEN {"C13.TemplateStoresCalls"} ELSE {})
  \cup (IF IsPar(c) /\ rawOk /\ c.op \notin {"declare", "magfield", "getdur", "est"} /\ post.bld
        THEN {"C13.VariableParametrizes"} ELSE {})
  \* a parametrized sequence schedules nothing, so a RuntimeError can only be a mode refusal:
  \* measured, inspection, or the EOM discipline OF THE CHANNEL OF THE CALL
  \cup (IF ~post.bld /\ r.out = "RE" /\ c.op # "declare"
           /\ ~Measured(pre)
           /\ c.op \notin {"getdur", "est"}
           /\ ~("nm" \in DOMAIN c /\ DeclaredT(pre, c.nm)
                /\ LET ine == IF pre.bld THEN (i # 0 /\ InEom(pre.ch[i])) ELSE InEomT(pre, c.nm) IN
                   \/ (ine /\ c.op \in {"add", "target", "eom_on"})
                   \/ (~ine /\ c.op \in {"eom_add", "eom_off", "eom_mod"}))
        THEN {"C13.RefusalHasModeReason"} ELSE {})
  \cup (IF ~DevOf(post).reusable
           /\ \/ \E j, k \in 1..Len(post.ch) : j # k /\ post.ch[j].cid = post.ch[k].cid
              \* a DMM whose configuration is only stored (parametrized sequence) is declared too
              \/ \E j, k \in 1..Len(post.tb) :
                    j # k /\ post.tb[j][1] = "detmap" /\ post.tb[k] = post.tb[j]
              \/ \E j \in 1..Len(post.tb), k \in 1..Len(post.ch) :
                    post.tb[j][1] = "detmap" /\ post.tb[j][2] = post.ch[k].cid
        THEN {"C13.OncePerId"} ELSE {})
  \cup (IF \E j, k \in 1..Len(post.ch) : j # k /\ post.ch[j].nm = post.ch[k].nm
        THEN {"C13.UniqueNames"} ELSE {})
  \cup (IF \E j, k \in 1..Len(post.ch) :
             CfgOf(post, j).basis = "XY" /\ CfgOf(post, k).basis # "XY"
        THEN {"C13.XYExclusive"} ELSE {})
  \cup (IF i # 0 /\ rawOk /\
           LET ine == IF pre.bld THEN InEom(pre.ch[i]) ELSE InEomT(pre, c.nm) IN
           \/ (ine /\ c.op \in {"add", "target", "eom_on"})
           \/ (~ine /\ c.op \in {"eom_add", "eom_off", "eom_mod"})
        THEN {"C13.EomDiscipline"} ELSE {})
  \cup (IF i # 0 /\ ok /\ c.op \in {"add", "eom_add"} /\ Len(pre.ch[i].sl) = 0
        THEN {"C13.TargetBeforePulse"} ELSE {})
  \cup (IF \E x \in NewSlots(pre, post) : post.ch[x[1]].sl[x[2]].k = "p" /\ post.ch[x[1]].sl[x[2]].tg = 0
        THEN {"C13.TargetBeforePulse"} ELSE {})
  \* ---- C01 -------------------------------------------------------------
  \* reported under its own name: the only limit broken is the minimum average amplitude, by a pulse
  \* that was itself inside every limit and has been lengthened to the clock (area-preserving shapes)
  \cup (LET Bad == {x \in NewSlots(pre, post) :
                     LET op == post.ch[x[1]].sl[x[2]] IN
                     op.k = "p" /\ ~PulseWithinLimits(CfgOf(post, x[1]), post.ch[x[1]], op)}
             Stretch(x) == LET op == post.ch[x[1]].sl[x[2]] IN
                           /\ c.op = "add" /\ ok /\ i = x[1] /\ x[2] = Len(post.ch[i].sl)
                           /\ PulseWithinLimitsX(CfgOf(post, x[1]), post.ch[x[1]], op, FALSE)
                           /\ op.tf - op.ti > Pulses[c.p].dur
                           /\ FactsWithinLimits(cfgi, Pulses[c.p])
         IN (IF \E x \in Bad : ~Stretch(x) THEN {"C01.WithinLimits"} ELSE {})
            \cup (IF \E x \in Bad : Stretch(x) THEN {"C01.MinAvgAfterStretch"} ELSE {}))
  \cup (IF DevOf(post).maxSeq # -1 /\ \E j \in 1..Len(post.ch) : ChanDur(post.ch[j]) > DevOf(post).maxSeq
        THEN {"C01.SeqDuration"} ELSE {})
  \cup (IF c.op = "add" /\ ok
           /\ \/ new.w[1] # RoundUp(Pulses[c.p].dur, cfgi.clock)
              \/ (Pulses[c.p].dur % cfgi.clock = 0 /\ new.w # PF[pre.dev][pre.ch[i].cid][c.p].w)
              \* a lengthened pulse keeps its defining end points (first / last amplitude and detuning)
              \/ (Pulses[c.p].fin /\ Pulses[c.p].ep /\ (new.w[2] # Pulses[c.p].a0 \/ new.w[3] # Pulses[c.p].a1
                                      \/ new.w[6] # Pulses[c.p].d0 \/ new.w[7] # Pulses[c.p].d1))
        THEN {"C01.OnlyLengthened"} ELSE {})
  \cup (IF c.op = "add" /\ pre.bld /\ ~IsPar(c) /\ r.out \in {"VE", "TE"} /\ i # 0 /\ ~Measured(pre)
           /\ ~InEom(pre.ch[i]) /\ cfgi.kind # "dmm" /\ c.proto \in Protocols
           /\ Len(pre.ch[i].sl) > 0 /\ Cardinality(RefPhases(pre, bi, lastTg)) = 1
           /\ FactsWithinLimits(cfgi, Pulses[c.p])
           /\ (cfgi.maxDur = -1 \/ \E t \in t0..(t0 + cfgi.maxDur) :
                  StartAllowed(pre, i, c.proto,
                               PMod(Pulses[c.p].ph + (CHOOSE x \in RefPhases(pre, bi, lastTg) : TRUE)),
                               t, TRUE))
        THEN {"C01.AcceptInside"} ELSE {})
  \* the same converse for a DMM: a waveform that is never positive and stays above the per-atom and total
  \* bottom detuning of THIS channel's map is accepted (devices without a sequence-duration limit)
  \cup (IF c.op = "dmm_add" /\ pre.bld /\ ~IsPar(c) /\ r.out \in {"VE", "TE"} /\ i # 0 /\ ~Measured(pre)
           /\ cfgi.kind = "dmm" /\ c.proto \in Protocols /\ DevOf(pre).maxSeq = -1
           /\ pre.slmNm # c.nm                    \* the DMM of the SLM mask is documented not to take user pulses
           /\ LET P == Pulses[c.p] IN
              /\ P.fin /\ P.am = 0 /\ P.dx <= 0
              /\ (cfgi.bottom # NoLim => pre.ch[i].mp[1] * P.dn >= 2 * cfgi.bottom)
              /\ (cfgi.tbottom # NoLim => pre.ch[i].mp[2] * P.dn >= 2 * cfgi.tbottom)
              /\ P.dur >= cfgi.minDur /\ (cfgi.maxDur # -1 => P.dur <= cfgi.maxDur)
              /\ P.dur % cfgi.clock = 0
        THEN {"C01.AcceptInsideDmm"} ELSE {})
  \* ---- C03 -------------------------------------------------------------
  \cup (IF isAdd /\ ~StartAllowed(pre, i, proto, NewPh, new.ti, FALSE)
        THEN {"C03.NoConflict"} ELSE {})
  \cup (IF isAdd /\ (\E t \in t0..(new.ti - 1) : StartAllowed(pre, i, proto, NewPh, t, TRUE))
        THEN {"C03.Minimal"} ELSE {})
  \cup (IF isAdd /\ proto = "no-delay" /\ new.ti - t0 > 0
           /\ new.ti # t0 + RoundUp(Max2(RefBarrier(pre, bi, lastTg) - t0, cfgi.minDur), cfgi.clock)
        THEN {"C03.NoDelayExact"} ELSE {})
  \cup (IF isAdd /\ c.op = "add" /\ PrevEstimate(c, h)[1] /\ PrevEstimate(c, h)[2] # new.ti - t0
        THEN {"C03.EstimateExact"} ELSE {})
  \cup (IF c.op = "align" /\ ok
           /\ LET I == {ChIdx(pre, c.nms[k]) : k \in 1..Len(c.nms)}
                  End(j) == IF c.rest THEN DeclDurFall(pre.ch[j]) ELSE ChanDur(pre.ch[j])
                  T == CHOOSE t \in {End(j) : j \in I} : \A j \in I : End(j) <= t
              IN \E j \in I :
                   LET cfg == CfgOf(pre, j)
                       need == T - ChanDur(pre.ch[j])
                       e == ChanDur(post.ch[j])
                   IN \* every aligned channel ends at the common time, rounded up to what
                      \* the channel can represent (minimum duration, clock period)
                      e # (IF need > 0
                           THEN ChanDur(pre.ch[j]) + RoundUp(Max2(need, cfg.minDur), cfg.clock)
                           ELSE ChanDur(pre.ch[j]))
        THEN {"C03.AlignTogether"} ELSE {})
  \* ---- C10 -------------------------------------------------------------
  \cup (IF \E x \in NewSlots(pre, post) :
             ~PhaseJumpOK(CfgOf(post, x[1]), post.ch[x[1]], x[2],
                          isAdd /\ x[1] = i /\ proto = "no-delay")
        THEN {"C10.PhaseJump"} ELSE {})
  \cup (IF \E x \in NewSlots(pre, post) : ~RetargetOK(CfgOf(post, x[1]), post.ch[x[1]], x[2])
        THEN {"C10.Retarget"} ELSE {})
  \cup (IF c.op = "target" /\ ok /\ i # 0 /\ Len(pre.ch[i].sl) > 0
           /\ LastOf(pre.ch[i].sl).tg = c.tg /\ post.ch[i].sl # pre.ch[i].sl
        THEN {"C10.SameTargetNoop"} ELSE {})
  \* ---- C07 -------------------------------------------------------------
  \cup (IF isAdd /\ new.ti < RefBarrier(pre, bi, lastTg)
        THEN {"C07.Barrier"} ELSE {})
  \* the time stamped on the next phase shift of an atom is never before the end of a pulse that
  \* already acted on it in that basis (so that "no pulse starts before the latest shift" is meaningful)
  \cup (IF post.bld /\ \E b \in 1..Len(post.rf) : \E q \in 1..NQ(post) :
             \E j \in 1..Len(post.ch) : \E k \in 1..Len(post.ch[j].sl) :
                /\ CfgOf(post, j).basis = post.rf[b].b
                /\ post.ch[j].sl[k].k = "p" /\ ~post.ch[j].sl[k].dd /\ HasBit(post.ch[j].sl[k].tg, q)
                /\ post.rf[b].q[q].lu < post.ch[j].sl[k].tf
        THEN {"C07.ShiftTimeAfterPulses"} ELSE {})
  \cup (IF isAdd /\ ~cpd /\ c.op \in {"add", "eom_add"}
           /\ LET prog == IF c.op = "add" THEN Pulses[c.p].ph ELSE PMod(c.ph)
                  R == RefPhases(pre, bi, lastTg)
              IN ~(\E x \in R : PhEq(new.ph, PMod(prog + x)))
        THEN {"C07.PhaseIsProgPlusRef"} ELSE {})
  \cup (IF ~cpd /\ pre.bld /\ post.bld /\ Len(post.rf) >= Len(pre.rf)
           /\ \E b \in 1..Len(pre.rf) : \E q \in 1..NQ(pre) :
                 ~PhEq(RefLast(post, b, q), PMod(RefLast(pre, b, q) + Shift(b, q)))
        THEN {"C07.Additive"} ELSE {})
  \* ---- C15 -------------------------------------------------------------
  \cup (IF \E x \in NewSlots(pre, post) : ~EomSquareOK(post.ch[x[1]], post.ch[x[1]].sl[x[2]])
        THEN {"C15.EomSquare"} ELSE {})
  \cup (IF ok /\ i # 0 /\ c.op \in {"eom_on", "eom_mod", "eom_off"} /\ ~BuffersOK(pre, post, c, i)
        THEN {"C15.Buffers"} ELSE {})
  \* the off-detuning of a new block is the member of the allowed set closest to the requested optimum
  \* (dref: computed by the harness from the option set, ties included; empty when not computable)
  \cup (IF ok /\ i # 0 /\ c.op \in {"eom_on", "eom_mod"} /\ pre.bld /\ post.bld
           /\ Len(post.ch[i].eb) > 0
           /\ LET S == SP[pre.dev][pre.ch[i].cid][c.sp]
                  b == LastOf(post.ch[i].eb)
              IN "dref" \in DOMAIN S /\ Len(S.dref) > 0
                 /\ \A k \in 1..Len(S.dref) : Abs(b.doff - S.dref[k]) > 1
        THEN {"C15.OffDetuningClosest"} ELSE {})
  \* the mode of every channel is the one its successful enable / disable calls document; charged to
  \* the step that introduces the disagreement (the channel agreed with its calls before the step)
  \cup (IF post.bld
           /\ \E j \in 1..Len(post.ch) :
                 LET nmj == post.ch[j].nm
                     jp == ChIdx(pre, nmj)
                     doc == IF rawOk /\ c.op \in {"eom_on", "eom_off"} /\ c.nm = nmj
                            THEN c.op = "eom_on" ELSE DocEom(h, nmj)
                 IN /\ InEom(post.ch[j]) # doc
                    /\ (jp = 0 \/ InEom(pre.ch[jp]) = DocEom(h, nmj))
        THEN {"C13.EomModeFollowsCalls"} ELSE {})
  \cup (IF cpd /\ ok /\ i # 0 /\ c.op \in {"eom_add", "eom_off", "eom_on", "eom_mod"}
        THEN LET e == ExpectedDriftShift(pre, post, c, i)
                 tgs == IF c.op = "eom_add" THEN lastTg ELSE LastOf(post.ch[i].sl).tg
                 extra == IF c.op = "eom_add" THEN PMod(c.pps) ELSE 0
                 \* the reference of every atom = previous reference + post-phase-shift + drift correction
                 refBad == \E q \in 1..NQ(pre) :
                             ~PhEq(RefLast(post, bi, q),
                                   PMod(RefLast(pre, bi, q) + (IF HasBit(tgs, q) THEN e + extra ELSE 0)))
                 phBad == c.op = "eom_add"
                          /\ ~(\E x \in RefPhases(pre, bi, lastTg) : PhEq(new.ph, PMod(PMod(c.ph) + x + e)))
             IN (IF refBad \/ phBad THEN {"C15.DriftCorrection"} ELSE {})
                \cup (IF refBad THEN {"C07.Additive"} ELSE {})
                \cup (IF phBad THEN {"C07.PhaseIsProgPlusRef"} ELSE {})
        ELSE {})

=============================================================================
