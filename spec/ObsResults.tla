----------------------------- MODULE ObsResults -----------------------------
(***************************************************************************)
(* C20: "Results hold one value per requested evaluation time, in          *)
(* ascending order, retrievable by observable or tag."                     *)
(*                                                                         *)
(* Mode "store": the Results store as a state machine.  A behaviour is a   *)
(* sequence of store attempts (observable, time); an attempt at a time     *)
(* already held by that observable, or earlier than its last time, is      *)
(* refused and changes nothing; every other attempt appends.  The value    *)
(* stored by attempt number k is k, so that retrieval is checked exactly.  *)
(* Times are integers (numerators over 12).  Every state is printed with   *)
(* its history; the harness replays the history on pulser's Results.       *)
(*                                                                         *)
(* Mode "times": which relative times an emulation stores for each         *)
(* observable, as a function of the configuration:                         *)
(*   an observable with its own evaluation times stores exactly at those;  *)
(*   an observable without stores at the configuration's default times;    *)
(*   default "Full" = every step of the emulation (every ns sample, the    *)
(*   end, and every time requested by any observable).                     *)
(* Times are integers in units of 1/den of the sequence duration, den =    *)
(* 12 (or the duration T in ns when the default is "Full"; T is then a     *)
(* multiple of 12 so that every requested time is a sample time).          *)
(***************************************************************************)
EXTENDS Integers, Sequences, FiniteSets, TLC, Json

CONSTANTS Mode,                      \* "store" | "times"
          NObs, Times, Depth,        \* store mode
          Durations,                 \* times mode: durations T (ns) of the direct lattice
          DefChoices,                \* [full: BOOLEAN, ts: subset of 0..12]
          OwnChoices,                \* [has: BOOLEAN, ts: subset of 0..12]
          BackendPts                 \* times mode: extra points [T, def, own, basis, noise] run on the backend
VARIABLES st, hist

vars == <<st, hist>>

(* ------------------------------ store ------------------------------ *)
TimesOf(s) == {s[i][1] : i \in 1..Len(s)}
Outcome(s, t) ==
  IF t \in TimesOf(s) THEN "dup"
  ELSE IF Len(s) > 0 /\ t < s[Len(s)][1] THEN "order"
  ELSE "ok"
Attempt(o, t) ==
  LET out == Outcome(st[o], t)
  IN /\ st' = IF out = "ok" THEN [st EXCEPT ![o] = Append(@, <<t, Len(hist) + 1>>)] ELSE st
     /\ hist' = Append(hist, <<o, t, out>>)

(* ------------------------------ times ------------------------------ *)
Den(p) == IF p.def.full THEN p.T ELSE 12
Sc(p, S) == IF p.def.full THEN {k * (p.T \div 12) : k \in S} ELSE S
OwnAll(p) == UNION {Sc(p, p.own[o].ts) : o \in 1..Len(p.own)}
Solver(p) == (IF p.def.full THEN 0..p.T ELSE Sc(p, p.def.ts)) \cup OwnAll(p) \cup {0, Den(p)}
Req(p, o) ==
  IF p.own[o].has THEN Sc(p, p.own[o].ts)
  ELSE IF p.def.full THEN Solver(p) ELSE Sc(p, p.def.ts)
RECURSIVE SortSet(_)
SortSet(S) == IF S = {} THEN <<>>
              ELSE LET x == CHOOSE y \in S : \A z \in S : y <= z IN <<x>> \o SortSet(S \ {x})
Expected(p) == [o \in 1..Len(p.own) |-> SortSet(Req(p, o))]

DirectPts == {p \in {[T |-> T, def |-> d, own |-> <<o1, o2>>, basis |-> "direct", noise |-> "none"] :
                       T \in Durations, d \in DefChoices, o1 \in OwnChoices, o2 \in OwnChoices} :
                 p.def.full => (p.T % 12) = 0}       \* "Full": every requested time is a ns sample
TimePts == DirectPts \cup BackendPts

Init ==
  IF Mode = "store"
  THEN st = [o \in 1..NObs |-> <<>>] /\ hist = <<>>
  ELSE st \in TimePts /\ hist = <<>>
Next ==
  IF Mode = "store"
  THEN Len(hist) < Depth /\ \E o \in 1..NObs, t \in Times : Attempt(o, t)
  ELSE UNCHANGED vars
Spec == Init /\ [][Next]_vars

(* ------------------------------ laws ------------------------------ *)
StoreLaws ==
  Mode = "store" =>
    /\ \A o \in 1..NObs :
         /\ \A i \in 1..(Len(st[o]) - 1) : st[o][i][1] < st[o][i + 1][1]          \* ascending, unique
         /\ TimesOf(st[o]) = {hist[k][2] : k \in {j \in 1..Len(hist) : hist[j][1] = o /\ hist[j][3] = "ok"}}
         /\ \A i \in 1..Len(st[o]) :                                                \* value of the accepted attempt
              LET k == st[o][i][2] IN hist[k][1] = o /\ hist[k][2] = st[o][i][1] /\ hist[k][3] = "ok"
    /\ \A k \in 1..Len(hist) : hist[k][3] \in {"ok", "dup", "order"}
TimeLaws ==
  Mode = "times" =>
    /\ st.def.full => (st.T % 12) = 0
    /\ \A o \in 1..Len(st.own) :
         /\ Req(st, o) \subseteq Solver(st)                        \* every requested time is an emulation step
         /\ Req(st, o) \subseteq 0..Den(st)
         /\ Len(Expected(st)[o]) = Cardinality(Req(st, o))       \* one value per requested time
         /\ \A i \in 1..(Len(Expected(st)[o]) - 1) : Expected(st)[o][i] < Expected(st)[o][i + 1]
         /\ st.own[o].has => Cardinality(Req(st, o)) = Cardinality(st.own[o].ts)
Laws == StoreLaws /\ TimeLaws

EmitRec ==
  IF Mode = "store"
  THEN [m |-> "store", h |-> hist,
        exp |-> [o \in 1..NObs |-> [t |-> [i \in 1..Len(st[o]) |-> st[o][i][1]],
                                     v |-> [i \in 1..Len(st[o]) |-> st[o][i][2]]]]]
  ELSE [m |-> "times", p |-> st, den |-> Den(st), solver |-> SortSet(Solver(st)), exp |-> Expected(st)]
Emit == PrintT("PT|" \o ToJson(EmitRec))
=============================================================================
