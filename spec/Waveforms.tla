------------------------------ MODULE Waveforms ------------------------------
(***************************************************************************)
(* C16: waveforms and pulses honour their defining contracts.              *)
(*                                                                         *)
(* Exact integer reference of the documented semantics of                  *)
(*   ConstantWaveform, RampWaveform, CustomWaveform, CompositeWaveform,    *)
(*   InterpolatedWaveform (at its data points only),                       *)
(*   indexing / slicing, w * k, -w, w / k, change_duration, ==,            *)
(*   Pulse(amplitude, detuning, phase, post_phase_shift) and               *)
(*   Pulse.ArbitraryPhase(amplitude, phase waveform).                      *)
(*                                                                         *)
(* Units.  A waveform PARAMETER p (value, start, stop, custom sample,      *)
(* interpolation value) is an integer standing for the real p/4.  A        *)
(* SAMPLE n is an integer standing for the real n/(4*DEN) with DEN = 60,   *)
(* so that a ramp of duration d with (d-1) | 60 has integer samples for    *)
(* every pair of end points (slopes need not be representable floats).     *)
(* Phases of pulses are integers in units of pi/4.                         *)
(*                                                                         *)
(* The module is a lattice of POINTS (variable pt, one TLC state per       *)
(* point, no transitions).  Each point belongs to a family (field f); the  *)
(* reference answer of the point is computed by the operators below and    *)
(* printed once by Emit; the laws of the reference itself are invariants   *)
(* (TLC checks the design: linearity of scaling, concatenation laws,       *)
(* python index/slice normalisation against its set-theoretic definition,  *)
(* the phase reconstruction identity of ArbitraryPhase, ...).              *)
(*                                                                         *)
(* The reference is a pure function of the term: READING IS NOT AN           *)
(* OPERATION.  There is no state besides the point itself, so every history *)
(* of reads (samples, indices, slices, first/last value, integral, ==) of   *)
(* one waveform must return the values below; the harness enforces this on  *)
(* the implementation by scribbling over everything a read hands out and    *)
(* reading again (clause read_is_pure).                                     *)
(*                                                                         *)
(* Families "dur", "win" and "maxval" only ENUMERATE inputs (class,         *)
(* duration, area, beta, maximum value): Blackman and Kaiser windows are   *)
(* real-analysis objects, their contracts are evaluated by the harness on  *)
(* the implementation's own samples (monitored observations, not model     *)
(* checking).                                                              *)
(***************************************************************************)
EXTENDS Integers, Sequences, FiniteSets, TLC, Json

CONSTANTS
  Vals,          \* parameters of constant / ramp waveforms (quarter units)
  ConstDurs,     \* durations of constant waveforms
  RampDurs,      \* durations of ramps: 1 or (d-1) | DEN
  CustomVals, CustomMaxLen,
  CompVals,      \* parameters of the leaves combined into composites
  TinyVals,      \* parameters of the leaves of triple / nested composites
  Factors,       \* scaling factors (non-zero integers of either sign)
  CompFactors,   \* scaling factors applied to composites
  IdxDurs,       \* durations of the index / slice families
  NewDurs,       \* targets of change_duration
  InterpDurs, InterpVals, InterpMaxLen,
  InterpNewDurs, \* change_duration targets of interpolated waveforms (0 = none)
  TimeSets,      \* explicit interpolation times: sequences of numerators over TD
  AllDurMax,     \* family "dur": every class x 1..AllDurMax
  DurVariants,   \* number of parameter variants per class in family "dur"
  PhaseUnits, PpsUnits,   \* pulse phases / post phase shifts (units of pi/4)
  PhaseSpecial,  \* symbolic phase classes handled by the harness (strings)
  ArbVals, ArbMaxLen,     \* custom phase waveforms of ArbitraryPhase
  WinDurs, WinAreas, Betas,          \* family "win"
  MaxVals, MaxAreas, MaxDur,         \* family "maxval"
  Fams           \* the families enumerated by this run (the harness runs groups in parallel)

DEN == 60
TD == 12
NoneV == 9999            \* python None in a slice

ASSUME \A d \in RampDurs : d = 1 \/ (DEN % (d - 1)) = 0
ASSUME \A k \in Factors : k # 0

-----------------------------------------------------------------------------
(* waveform terms: uniform records                                          *)
W(k, d, a, b, s, c) == [k |-> k, d |-> d, a |-> a, b |-> b, s |-> s, c |-> c]
Const(d, v)   == W("const", d, v, 0, <<>>, <<>>)
Ramp(d, a, b) == W("ramp", d, a, b, <<>>, <<>>)
Custom(s)     == W("custom", Len(s), 0, 0, s, <<>>)
Comp(c)       == W("comp", 0, 0, 0, <<>>, c)

RECURSIVE Flatten(_)
Flatten(ss) == IF ss = <<>> THEN <<>> ELSE Head(ss) \o Flatten(Tail(ss))
RECURSIVE SumSeq(_)
SumSeq(s) == IF s = <<>> THEN 0 ELSE Head(s) + SumSeq(Tail(s))

RECURSIVE Dur(_)
Dur(w) == IF w.k = "comp" THEN SumSeq([i \in 1..Len(w.c) |-> Dur(w.c[i])]) ELSE w.d

(* documented values:                                                       *)
(*  constant: every sample is the value                                     *)
(*  ramp: first sample = start, last sample = stop, linear in between       *)
(*        (duration 1: first = last; defined here as start; the harness     *)
(*        compares it only when start = stop, otherwise only finiteness)    *)
(*  custom: the given samples; composite: the concatenation                 *)
RECURSIVE Samples(_)
Samples(w) ==
  CASE w.k = "const"  -> [i \in 1..w.d |-> w.a * DEN]
    [] w.k = "ramp"   -> IF w.d = 1 THEN <<w.a * DEN>>
                         ELSE [i \in 1..w.d |-> w.a * DEN + (i - 1) * (w.b - w.a) * (DEN \div (w.d - 1))]
    [] w.k = "custom" -> [i \in 1..Len(w.s) |-> w.s[i] * DEN]
    [] w.k = "comp"   -> Flatten([i \in 1..Len(w.c) |-> Samples(w.c[i])])

RECURSIVE Ambiguous(_)
Ambiguous(w) ==   \* contains a one-sample ramp with start # stop
  CASE w.k = "ramp" -> w.d = 1 /\ w.a # w.b
    [] w.k = "comp" -> \E i \in 1..Len(w.c) : Ambiguous(w.c[i])
    [] OTHER -> FALSE

(* scaling acts on the defining parameters *)
RECURSIVE MulW(_, _)
MulW(w, k) ==
  CASE w.k = "const"  -> Const(w.d, w.a * k)
    [] w.k = "ramp"   -> Ramp(w.d, w.a * k, w.b * k)
    [] w.k = "custom" -> Custom([i \in 1..Len(w.s) |-> w.s[i] * k])
    [] w.k = "comp"   -> Comp([i \in 1..Len(w.c) |-> MulW(w.c[i], k)])
MulSeq(s, k) == [i \in 1..Len(s) |-> s[i] * k]

ChangeDur(w, nd) ==   \* same defining parameters, new duration
  CASE w.k = "const" -> Const(nd, w.a)
    [] w.k = "ramp"  -> Ramp(nd, w.a, w.b)

-----------------------------------------------------------------------------
(* python indexing and slicing of a sequence of length d                    *)
IndexPos(d, i) == IF i >= 0 THEN i ELSE d + i
IndexOK(d, i)  == IndexPos(d, i) \in 0..(d - 1)

Bound(d, x) == IF x < 0 THEN d + x ELSE x
SlicePos(d, st, sp) ==      \* set-theoretic definition of s[st:sp]
  {j \in 0..(d - 1) : (st = NoneV \/ j >= Bound(d, st)) /\ (sp = NoneV \/ j < Bound(d, sp))}
MinS(S) == CHOOSE x \in S : \A y \in S : x <= y
SliceLo(d, st, sp) == IF SlicePos(d, st, sp) = {} THEN 0 ELSE MinS(SlicePos(d, st, sp))
SliceN(d, st, sp)  == Cardinality(SlicePos(d, st, sp))

Clamp(d, x) == IF x < 0 THEN 0 ELSE IF x > d THEN d ELSE x
ClampStart(d, st) == IF st = NoneV THEN 0 ELSE Clamp(d, Bound(d, st))
ClampStop(d, st, sp) ==
  LET a == ClampStart(d, st)
      b == IF sp = NoneV THEN d ELSE Clamp(d, Bound(d, sp))
  IN IF b < a THEN a ELSE b

-----------------------------------------------------------------------------
(* interpolated waveform: value v[i] sits at round(t[i] * (d-1)); only the  *)
(* data points are defined by the documentation.  A point whose position    *)
(* is an exact tie (x.5), or whose positions collide, is a don't-care.      *)
IPos(tn, td, d) == (2 * tn * (d - 1) + td) \div (2 * td)
ITie(tn, td, d) == ((2 * tn * (d - 1) + td) % (2 * td)) = 0
ITn(ts, n, i) == IF ts = <<>> THEN i - 1 ELSE ts[i]
ITd(ts, n)    == IF ts = <<>> THEN n - 1 ELSE TD
IPositions(d, n, ts) == [i \in 1..n |-> IPos(ITn(ts, n, i), ITd(ts, n), d)]
IDontCare(d, n, ts) ==
  \/ n < 2
  \/ \E i \in 1..n : ITie(ITn(ts, n, i), ITd(ts, n), d)
  \/ \E i \in 1..(n - 1) : IPositions(d, n, ts)[i] >= IPositions(d, n, ts)[i + 1]

-----------------------------------------------------------------------------
(* pulses *)
PMod(p) == p % 8                                  \* phase modulo 2 pi (units of pi/4)
PulseOutcome(amp, det) ==
  IF Dur(amp) # Dur(det) THEN "dur"
  ELSE IF \E i \in 1..Dur(amp) : Samples(amp)[i] < 0 THEN "neg"
  ELSE "ok"

(* ArbitraryPhase: phi(t) = phi_c - sum_{k<=t} delta(k).  One admissible    *)
(* choice (the documented one: same value in the first two detuning         *)
(* samples).  The harness only demands the reconstruction identity.         *)
ArbDet(p) ==
  IF Len(p) = 1 THEN <<0>>
  ELSE [i \in 1..Len(p) |-> IF i = 1 THEN -(p[2] - p[1]) ELSE -(p[i] - p[i - 1])]
ArbPhaseC(p) == p[1] + ArbDet(p)[1]
RECURSIVE Prefix(_, _)
Prefix(s, i) == IF i = 0 THEN 0 ELSE s[i] + Prefix(s, i - 1)
ArbReconstruct(p) == [i \in 1..Len(p) |-> ArbPhaseC(p) - Prefix(ArbDet(p), i)]

-----------------------------------------------------------------------------
(* the lattice.  Large families are generated by quantification inside Init  *)
(* (never as materialised sets: TLC's UNION is quadratic); only the small    *)
(* base sets below are values.                                               *)
SeqsUpTo(S, n) == UNION {[1..m -> S] : m \in 1..n}

CompBase == {Const(d, v) : d \in {1, 2}, v \in CompVals}
            \cup {Ramp(d, a, b) : d \in {1, 2, 3}, a \in CompVals, b \in CompVals}
            \cup {Custom(s) : s \in SeqsUpTo(CompVals, 2)}
TinyBase == {Const(2, v) : v \in TinyVals} \cup {Ramp(3, a, b) : a \in TinyVals, b \in TinyVals}
            \cup {Custom(<<v>>) : v \in TinyVals}
TinyPairs == {Comp(<<x, y>>) : x \in TinyBase, y \in TinyBase}
EqSet  == CompBase \cup TinyPairs
AmpSet == CompBase
DetSet == {Const(d, v) : d \in {1, 2, 3}, v \in {-3, 2}} \cup {Ramp(3, -3, 2), Custom(<<2, -3>>), Custom(<<0>>)}
Classes == {"const", "ramp", "custom", "comp", "interp", "blackman", "kaiser"}
(* family "maxval": maximum value m/4 rad/us, area a/32 rad, both signs;    *)
(* the window lasts about 1000*area/(0.42*max) ns: bounded by MaxDur        *)
MaxOK(m, a) == a * 6250 <= MaxDur * m * 21    \* a/32*1000/(0.42*m/4) <= MaxDur, 32-bit safe

GenConsts(P(_))  == \E d \in ConstDurs, v \in Vals : P(Const(d, v))
GenRamps(P(_))   == \E d \in RampDurs, a \in Vals, b \in Vals : P(Ramp(d, a, b))
GenCustoms(P(_)) == \E n \in 1..CustomMaxLen : \E s \in [1..n -> CustomVals] : P(Custom(s))
GenLeaves(P(_))  == GenConsts(P) \/ GenRamps(P) \/ GenCustoms(P)
GenPairs(P(_))   == \E x \in CompBase, y \in CompBase : P(Comp(<<x, y>>))
GenTriples(P(_)) == \E x \in TinyBase, y \in TinyBase, z \in TinyBase : P(Comp(<<x, y, z>>))
GenNested(P(_))  == \E x \in TinyBase, y \in TinyBase, z \in TinyBase :
                       P(Comp(<<Comp(<<x, y>>), z>>)) \/ P(Comp(<<x, Comp(<<y, z>>)>>))
GenArb(P(_))     == \/ \E n \in 1..ArbMaxLen : \E s \in [1..n -> ArbVals] : P(Custom(s))
                    \/ \E w \in CompBase \cup TinyPairs : P(w)
                    \/ GenRamps(P)

VARIABLE pt
On(f) == f \in Fams
Init ==
  \/ On("wf") /\ \/ GenLeaves(LAMBDA w : pt = [f |-> "wf", w |-> w])
                 \/ GenPairs(LAMBDA w : pt = [f |-> "wf", w |-> w])
                 \/ GenTriples(LAMBDA w : pt = [f |-> "wf", w |-> w])
                 \/ GenNested(LAMBDA w : pt = [f |-> "wf", w |-> w])
  \/ On("mul") /\ \/ \E k \in Factors : GenLeaves(LAMBDA w : pt = [f |-> "mul", w |-> w, k |-> k])
                  \/ \E k \in CompFactors : GenPairs(LAMBDA w : pt = [f |-> "mul", w |-> w, k |-> k])
                  \/ \E k \in CompFactors : GenNested(LAMBDA w : pt = [f |-> "mul", w |-> w, k |-> k])
  \/ On("idx") /\ \E d \in IdxDurs : \E i \in -(d + 2)..(d + 1) : pt = [f |-> "idx", d |-> d, i |-> i]
  \/ On("slice") /\ \E d \in IdxDurs :
         \E st \in {NoneV} \cup -(d + 2)..(d + 2), sp \in {NoneV} \cup -(d + 2)..(d + 2) :
            pt = [f |-> "slice", d |-> d, st |-> st, sp |-> sp]
  \/ On("chdur") /\ \/ \E nd \in NewDurs : GenConsts(LAMBDA w : pt = [f |-> "chdur", w |-> w, nd |-> nd])
                    \/ \E nd \in NewDurs \cap RampDurs : GenRamps(LAMBDA w : pt = [f |-> "chdur", w |-> w, nd |-> nd])
  \/ On("eq") /\ \E w \in EqSet, v \in EqSet : pt = [f |-> "eq", w |-> w, v |-> v]
  \/ On("interp") /\
        \/ \E d \in InterpDurs, n \in 2..InterpMaxLen, nd \in InterpNewDurs : \E v \in [1..n -> InterpVals] :
              pt = [f |-> "interp", d |-> d, vals |-> v, ts |-> <<>>, nd |-> nd]
        \/ \E d \in InterpDurs, t \in TimeSets, nd \in InterpNewDurs : \E v \in [1..Len(t) -> InterpVals] :
              pt = [f |-> "interp", d |-> d, vals |-> v, ts |-> t, nd |-> nd]
  \/ On("dur") /\ \E c \in Classes, d \in 1..AllDurMax, v \in 1..DurVariants :
         pt = [f |-> "dur", cls |-> c, d |-> d, var |-> v]
  \/ On("pulse") /\
        \/ \E a \in AmpSet, dt \in DetSet, p \in {0, 3} :
              pt = [f |-> "pulse", amp |-> a, det |-> dt, ph |-> p, pps |-> 0]
        \/ \E a \in {Const(2, 2), Ramp(2, 0, 2)}, p \in PhaseUnits, q \in PpsUnits :
              (p \notin {0, 3} \/ q # 0 \/ a \notin AmpSet) /\
              pt = [f |-> "pulse", amp |-> a, det |-> Const(2, -3), ph |-> p, pps |-> q]
  \/ On("phase") /\ \E c \in PhaseSpecial, d \in {1, 4} : pt = [f |-> "phase", cls |-> c, d |-> d]
  \/ On("arb") /\ GenArb(LAMBDA w : pt = [f |-> "arb", p |-> w])
  \/ On("win") /\
        \/ \E d \in WinDurs, a \in WinAreas :
              pt = [f |-> "win", cls |-> "blackman", d |-> d, area |-> a, beta |-> 0]
        \/ \E d \in WinDurs, a \in WinAreas, b \in Betas :
              pt = [f |-> "win", cls |-> "kaiser", d |-> d, area |-> a, beta |-> b]
  \/ On("maxval") /\ \E m \in MaxVals, a \in MaxAreas, sg \in {1, -1} : MaxOK(m, a) /\
        \/ pt = [f |-> "maxval", cls |-> "blackman", m |-> m, a |-> a, sg |-> sg, beta |-> 0]
        \/ \E b \in Betas : pt = [f |-> "maxval", cls |-> "kaiser", m |-> m, a |-> a, sg |-> sg, beta |-> b]
Next == UNCHANGED pt
Spec == Init /\ [][Next]_pt

-----------------------------------------------------------------------------
(* laws of the reference (invariants; each is vacuous outside its family)   *)
IsLinear(s) == \A i \in 2..(Len(s) - 1) : s[i + 1] - s[i] = s[i] - s[i - 1]
Between(x, a, b) == (a <= x /\ x <= b) \/ (b <= x /\ x <= a)

LawLength ==
  pt.f = "wf" => /\ Len(Samples(pt.w)) = Dur(pt.w)
                 /\ Dur(pt.w) >= 1
LawLeafValues ==
  pt.f = "wf" =>
    LET w == pt.w  s == Samples(pt.w) IN
    /\ w.k = "const" => \A i \in 1..Len(s) : s[i] = w.a * DEN
    /\ (w.k = "ramp" /\ w.d > 1) =>
          /\ s[1] = w.a * DEN /\ s[Len(s)] = w.b * DEN /\ IsLinear(s)
          /\ \A i \in 1..Len(s) : Between(s[i], w.a * DEN, w.b * DEN)
    /\ (w.k = "ramp" /\ w.a = w.b) => s = Samples(Const(w.d, w.a))
    /\ w.k = "custom" => Len(s) = Len(w.s)
LawConcat ==      \* a composite is the concatenation; concatenation is associative
  (pt.f = "wf" /\ pt.w.k = "comp") =>
    LET c == pt.w.c IN
    /\ Samples(pt.w) = Flatten([i \in 1..Len(c) |-> Samples(c[i])])
    /\ Dur(pt.w) = SumSeq([i \in 1..Len(c) |-> Dur(c[i])])
    /\ (Len(c) = 2 /\ c[1].k = "comp") =>
          Samples(pt.w) = Samples(Comp(<<c[1].c[1], c[1].c[2], c[2]>>))
    /\ (Len(c) = 2 /\ c[2].k = "comp") =>
          Samples(pt.w) = Samples(Comp(<<c[1], c[2].c[1], c[2].c[2]>>))
LawScaling ==     \* scaling the parameters scales every sample; -(-w) = w; (w*k)*k' = (w*k')*k
  pt.f = "mul" =>
    /\ Samples(MulW(pt.w, pt.k)) = MulSeq(Samples(pt.w), pt.k)
    /\ Dur(MulW(pt.w, pt.k)) = Dur(pt.w)
    /\ MulW(MulW(pt.w, -1), -1) = pt.w
    /\ MulW(MulW(pt.w, pt.k), -1) = MulW(MulW(pt.w, -1), pt.k)
    /\ MulW(pt.w, 1) = pt.w
LawIndex ==
  pt.f = "idx" =>
    /\ IndexOK(pt.d, pt.i) <=> (-pt.d <= pt.i /\ pt.i < pt.d)
    /\ (pt.i < 0 /\ IndexOK(pt.d, pt.i)) => IndexPos(pt.d, pt.i) = IndexPos(pt.d, pt.i + pt.d)
    /\ IndexOK(pt.d, pt.i) => IndexPos(pt.d, pt.i) = (pt.i % pt.d)
LawSlice ==       \* the clamping algorithm computes exactly the set-theoretic slice
  pt.f = "slice" =>
    LET P == SlicePos(pt.d, pt.st, pt.sp)
        a == ClampStart(pt.d, pt.st)  b == ClampStop(pt.d, pt.st, pt.sp) IN
    /\ b - a = Cardinality(P)
    /\ P # {} => (a = MinS(P) /\ P = a..(b - 1))
    /\ 0 <= a /\ a <= b /\ b <= pt.d
LawChangeDur ==
  pt.f = "chdur" =>
    LET w2 == ChangeDur(pt.w, pt.nd) IN
    /\ Dur(w2) = pt.nd /\ Len(Samples(w2)) = pt.nd
    /\ w2.a = pt.w.a /\ w2.b = pt.w.b /\ w2.k = pt.w.k
    /\ ChangeDur(w2, pt.w.d) = pt.w
LawEq ==          \* sample-wise equality is reflexive and symmetric
  pt.f = "eq" =>
    /\ (pt.w = pt.v => Samples(pt.w) = Samples(pt.v))
    /\ (Samples(pt.w) = Samples(pt.v)) = (Samples(pt.v) = Samples(pt.w))
    /\ (Samples(pt.w) = Samples(pt.v)) => Dur(pt.w) = Dur(pt.v)
LawInterp ==
  (pt.f = "interp" /\ ~IDontCare(pt.d, Len(pt.vals), pt.ts)) =>
    LET P == IPositions(pt.d, Len(pt.vals), pt.ts) IN
    /\ \A i \in 1..Len(P) : P[i] \in 0..(pt.d - 1)
    /\ (pt.ts = <<>>) => (P[1] = 0 /\ P[Len(P)] = pt.d - 1)
LawPulse ==
  pt.f = "pulse" =>
    /\ PMod(pt.ph) \in 0..7 /\ PMod(pt.ph + 8) = PMod(pt.ph) /\ PMod(PMod(pt.ph)) = PMod(pt.ph)
    /\ ((pt.ph - PMod(pt.ph)) % 8) = 0
    /\ PulseOutcome(pt.amp, pt.det) = "ok" =>
          (Dur(pt.amp) = Dur(pt.det) /\ \A i \in 1..Dur(pt.amp) : Samples(pt.amp)[i] >= 0)
LawArb ==         \* the documented extraction reproduces the phase at every sample
  pt.f = "arb" =>
    LET p == Samples(pt.p) IN
    /\ ArbReconstruct(p) = p
    /\ Len(ArbDet(p)) = Len(p)
    /\ Len(p) >= 2 => ArbDet(p)[1] = ArbDet(p)[2]

-----------------------------------------------------------------------------
RECURSIVE Enc(_)
Enc(w) ==         \* compact printed form of a term
  CASE w.k = "const"  -> <<"c", w.d, w.a>>
    [] w.k = "ramp"   -> <<"r", w.d, w.a, w.b>>
    [] w.k = "custom" -> <<"u", w.s>>
    [] w.k = "comp"   -> <<"m", [i \in 1..Len(w.c) |-> Enc(w.c[i])]>>

Out ==
  CASE pt.f = "wf"    -> [f |-> "wf", w |-> Enc(pt.w), d |-> Dur(pt.w), s |-> Samples(pt.w),
                          amb |-> Ambiguous(pt.w), sum |-> SumSeq(Samples(pt.w))]
    [] pt.f = "mul"   -> [f |-> "mul", w |-> Enc(pt.w), k |-> pt.k, amb |-> Ambiguous(pt.w),
                          s |-> Samples(pt.w), ms |-> Samples(MulW(pt.w, pt.k))]
    [] pt.f = "idx"   -> [f |-> "idx", d |-> pt.d, i |-> pt.i,
                          pos |-> IF IndexOK(pt.d, pt.i) THEN IndexPos(pt.d, pt.i) ELSE -1]
    [] pt.f = "slice" -> [f |-> "slice", d |-> pt.d, st |-> pt.st, sp |-> pt.sp,
                          lo |-> SliceLo(pt.d, pt.st, pt.sp), n |-> SliceN(pt.d, pt.st, pt.sp)]
    [] pt.f = "chdur" -> [f |-> "chdur", w |-> Enc(pt.w), nd |-> pt.nd,
                          amb |-> Ambiguous(ChangeDur(pt.w, pt.nd)),
                          s |-> Samples(ChangeDur(pt.w, pt.nd))]
    [] pt.f = "eq"    -> [f |-> "eq", w |-> Enc(pt.w), v |-> Enc(pt.v),
                          amb |-> (Ambiguous(pt.w) \/ Ambiguous(pt.v)),
                          eq |-> (Samples(pt.w) = Samples(pt.v))]
    [] pt.f = "interp" -> [f |-> "interp", d |-> pt.d, vals |-> pt.vals, ts |-> pt.ts, nd |-> pt.nd,
                           dc |-> IDontCare(pt.d, Len(pt.vals), pt.ts),
                           pos |-> IPositions(pt.d, Len(pt.vals), pt.ts),
                           ndc |-> IF pt.nd = 0 THEN TRUE ELSE IDontCare(pt.nd, Len(pt.vals), pt.ts),
                           npos |-> IF pt.nd = 0 THEN <<>> ELSE IPositions(pt.nd, Len(pt.vals), pt.ts)]
    [] pt.f = "dur"   -> [f |-> "dur", cls |-> pt.cls, d |-> pt.d, var |-> pt.var,
                          \* interpolated variant v has v+1 evenly spread values
                          dc |-> IF pt.cls = "interp" THEN IDontCare(pt.d, pt.var + 1, <<>>) ELSE FALSE]
    [] pt.f = "pulse" -> [f |-> "pulse", amp |-> Enc(pt.amp), det |-> Enc(pt.det), ph |-> pt.ph, pps |-> pt.pps,
                          out |-> PulseOutcome(pt.amp, pt.det), phm |-> PMod(pt.ph), ppsm |-> PMod(pt.pps)]
    [] pt.f = "phase" -> pt
    [] pt.f = "arb"   -> [f |-> "arb", p |-> Enc(pt.p), amb |-> Ambiguous(pt.p), s |-> Samples(pt.p),
                          det |-> ArbDet(Samples(pt.p)), pc |-> ArbPhaseC(Samples(pt.p))]
    [] pt.f = "win"   -> pt
    [] pt.f = "maxval" -> pt

Emit == PrintT("PT|" \o ToJson(Out))
=============================================================================
