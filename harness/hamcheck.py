"""C05: the Hamiltonian of the QuTiP emulator against the documented formula.
Structure of H (which matrix entries carry which term, in the documented state ordering and
register tensor order) comes from spec/Hamiltonian.tla, enumerated and law-checked by TLC.
Per-atom Omega_i(t), delta_i(t), phi_i(t) come from the reference rendering of the schedule
(spec/PulserRender.tla, all_local view).  Numbers (C6, distances, C3, magnetic field) are
evaluated here from the device / register the harness built."""
import json
import os

import numpy as np

from .env import assert_tree

assert_tree()

_TERMS = {}


def load_terms(points):
    """points: records printed by Hamiltonian.tla -> cache keyed by (n, levels)."""
    for r in points:
        _TERMS[(r["n"], tuple(r["lv"]))] = r["terms"]


LEVELS = {"ground-rydberg": ("r", "g"), "digital": ("g", "h"), "all": ("r", "g", "h"), "XY": ("u", "d"),
          "ground-rydberg_with_error": ("r", "g", "x"), "digital_with_error": ("g", "h", "x"),
          "all_with_error": ("r", "g", "h", "x"), "XY_with_error": ("u", "d", "x")}


def _arr(x):
    return np.asarray(x.as_array(detach=True) if hasattr(x, "as_array") else x, dtype=float)


def per_atom(seq, R, nq, t):
    """Omega, delta, phi of every (basis, atom) at time t from the reference contributions.
    Returns dict[(basis, q)] = (omega, delta, phi or None if ambiguous)."""
    scheds = list(seq._schedule.values())
    acc = {}
    for (bucket, basis, q, i, k, a, b, w2) in R["loc"]:
        if not (a <= t < b):
            continue
        sl = scheds[i - 1].slots[k - 1]
        off = t - sl.ti
        om = float(_arr(sl.type.amplitude.samples)[off])
        de = float(_arr(sl.type.detuning.samples)[off]) * (w2 / 2)
        ph = float(sl.type.phase)
        e = acc.setdefault((basis, q), [0.0, 0.0, [], 0])
        e[0] += om
        e[1] += de
        # the phase of a zero-amplitude contribution does not matter
        if om != 0.0:
            e[2].append(ph)
    return acc


def reference_h(seq, R, nq, t, levels, coords, c6, c3, mag, mask_tg, mask_end, in_xy, phase_override=None):
    terms = _TERMS[(nq, tuple(levels))]
    dim = len(levels) ** nq
    H = np.zeros((dim, dim), dtype=complex)
    acc = per_atom(seq, R, nq, t)
    if phase_override is not None:
        for kk, e in acc.items():
            if kk in phase_override:
                e[2] = [phase_override[kk]]
    for (r, c, kind, basis, i, j) in terms:
        if kind in ("drive", "driveC", "det"):
            e = acc.get((basis, i))
            if e is None:
                continue
            om, de, phs = e[0], e[1], e[2]
            if kind == "det":
                H[r, c] += -de
            else:
                if om == 0.0:
                    continue
                if len(set(phs)) != 1:
                    return None      # several pulses of different phase on one atom and basis: not specified
                ph = phs[0]
                H[r, c] += om / 2 * np.exp((-1j if kind == "drive" else 1j) * ph)
        elif kind == "vdw":
            d = np.linalg.norm(coords[i - 1] - coords[j - 1])
            H[r, c] += c6 / d ** 6
        elif kind == "xy":
            if t < mask_end and (((mask_tg >> (i - 1)) & 1) or ((mask_tg >> (j - 1)) & 1)):
                continue
            dv = np.zeros(3)
            dv[:len(coords[i - 1])] = coords[i - 1] - coords[j - 1]
            d = np.linalg.norm(dv)
            cos = float(np.dot(dv, mag)) / (d * np.linalg.norm(mag))
            H[r, c] += c3 * (1 - 3 * cos ** 2) / d ** 3
    return H


def check_hamiltonian(seq, R, proj, nq, times=None):
    """Returns list of (pred, detail)."""
    from pulser_simulation import QutipEmulator
    import warnings
    out = []
    maxdur = max([r["len"] for r in R["ch"]] + [0])
    if maxdur == 0:
        return out
    try:
        with warnings.catch_warnings():
            warnings.simplefilter("ignore")
            sim = QutipEmulator.from_sequence(seq)
    except Exception as e:  # noqa: BLE001
        # an empty sequence (no pulse at all) or one shorter than 4 ns is refused by the emulator:
        # not part of the statement
        if all(all(s["k"] != "p" for s in ch["sl"]) for ch in proj["ch"]) or "data points" in str(e):
            return out
        return [("C05.Hamiltonian", {"clause": "emulator_raises", "exc": repr(e)[:200]})]
    levels = LEVELS.get(sim.basis_name)
    if levels is None or (nq, tuple(levels)) not in _TERMS:
        return [("C05.Hamiltonian", {"clause": "unknown_basis", "basis_name": sim.basis_name})]
    reg = seq.register
    rids = list(reg.qubit_ids)      # position k <-> id rids[k - 1] (ids need not be q<k>)
    coords = [np.asarray(_arr(reg.qubits[rids[k - 1]]), dtype=float) for k in range(1, nq + 1)]
    in_xy = proj["mode"] == "xy"
    c6 = float(seq.device.interaction_coeff)
    c3 = float(seq.device.interaction_coeff_xy or 0.0)
    mag = np.asarray(seq.magnetic_field, dtype=float) if in_xy else np.zeros(3)
    if times is None:
        bounds = sorted({b for r in R["ch"] for seg in r["segs"] for b in (seg[0], seg[1] - 1)})
        times = sorted({t for t in bounds + [maxdur // 2, maxdur - 1] if 0 <= t < maxdur})[:10]
    sims = [("fresh", sim)]
    try:
        # the Hamiltonian is a function of the sequence and the CURRENT configuration: after a noisy
        # configuration has been set and removed again it must be the noiseless one
        from pulser_simulation import SimConfig
        with warnings.catch_warnings():
            warnings.simplefilter("ignore")
            sim2 = QutipEmulator.from_sequence(seq)
            sim2.set_config(SimConfig(noise="SPAM", eta=0.999, epsilon=0.0, epsilon_prime=0.0, runs=1,
                                      samples_per_run=1))
            sim2.reset_config()
        sims.append(("after_config_round_trip", sim2))
    except Exception:  # noqa: BLE001
        pass
    for which, sim in sims:
      for t in (times if which == "fresh" else times[:3]):
          Href = reference_h(seq, R, nq, t, levels, coords, c6, c3, mag, proj["slmTg"], R["maskEnd"], in_xy)
          if Href is None:
              continue
          try:
              H = sim.get_hamiltonian(float(t)).full()
          except Exception as e:  # noqa: BLE001
              out.append(("C05.Hamiltonian", {"clause": "get_hamiltonian_raises", "t": t, "exc": repr(e)[:200]}))
              break
          scale = max(1.0, float(np.max(np.abs(Href))))
          if H.shape != Href.shape or not np.allclose(H, Href, rtol=0, atol=1e-9 * scale):
              rr, cc = (np.unravel_index(int(np.argmax(np.abs(H - Href))), H.shape)
                        if H.shape == Href.shape else (-1, -1))
              # classification aid: is the only difference that the implementation ADDS the phase
              # arrays of all the channels of a basis (the held phase of an idle channel included)?
              phase_sum = False
              if H.shape == Href.shape:
                  try:
                      from pulser.sampler import sampler as _s
                      # the drive coefficient under the recorded defect, computed from the CHANNEL samples
                      # (checked against the reference by C06), not from the per-atom view itself: per
                      # bucket the amplitudes AND the phase arrays of all contributing channels are summed
                      ss = _s.sample(seq)
                      maxd = ss.max_duration
                      mk = ss._slm_mask
                      Gb, Lb = {}, {}
                      for chname, smp in zip(ss.channels, ss.samples_list):
                          cs = smp.extend_duration(maxd) if smp.duration != maxd else smp
                          obj = ss._ch_objs[chname]
                          basis = obj.basis
                          is_dmm = type(obj).__name__ == "DMM"
                          xy_ = basis == "XY"
                          if t >= len(cs.amp):
                              continue
                          if obj.addressing == "Global" and not is_dmm:
                              start_t = mk.end if xy_ else 0
                              if t >= start_t:
                                  g = Gb.setdefault(basis, [0.0, 0.0])
                                  g[0] += float(cs.amp[t])
                                  g[1] += float(cs.phase[t])
                              elif cs.slots:
                                  for q_ in set(cs.slots[0].targets) - set(mk.targets):
                                      l_ = Lb.setdefault((basis, q_), [0.0, 0.0])
                                      l_[0] += float(cs.amp[t])
                                      l_[1] += float(cs.phase[t])
                          else:
                              for sl_ in cs.slots:
                                  for q_ in sl_.targets:
                                      ti_ = sl_.ti
                                      if xy_ and q_ in mk.targets:
                                          ti_ = max(ti_, mk.end)
                                      if ti_ <= t < sl_.tf:
                                          l_ = Lb.setdefault((basis, q_), [0.0, 0.0])
                                          l_[0] += float(cs.amp[t])
                                          l_[1] += float(cs.phase[t])
                      coef = {}
                      for basis in {b_ for b_ in Gb} | {k_[0] for k_ in Lb}:
                          for q in range(1, nq + 1):
                              z = 0j
                              if basis in Gb:
                                  z += Gb[basis][0] / 2 * np.exp(-1j * Gb[basis][1])
                              l_ = Lb.get((basis, rids[q - 1]))
                              if l_ is not None:
                                  z += l_[0] / 2 * np.exp(-1j * l_[1])
                              coef[(basis, q)] = z
                      Halt = Href.copy()
                      for (r_, c_, kind, basis, i_, j_) in _TERMS[(nq, tuple(levels))]:
                          if kind == "drive":
                              Halt[r_, c_] = coef.get((basis, i_), 0j)
                          elif kind == "driveC":
                              Halt[r_, c_] = np.conj(coef.get((basis, i_), 0j))
                      nb = {}
                      for ch_ in seq._schedule.values():
                          if type(ch_.channel_obj).__name__ != "DMM":
                              nb[ch_.channel_obj.basis] = nb.get(ch_.channel_obj.basis, 0) + 1
                      phase_sum = bool(Halt is not None and np.allclose(H, Halt, rtol=0, atol=1e-9 * scale)
                                       and max(nb.values()) >= 2)
                  except Exception:  # noqa: BLE001
                      phase_sum = False
              out.append(("C05.Hamiltonian", {
                  "clause": "entry", "t": t, "emulator": which, "basis_name": sim.basis_name, "row": int(rr), "col": int(cc),
                  "got": str(H[rr, cc]) if rr >= 0 else None,
                  "expected": str(Href[rr, cc]) if rr >= 0 else None,
                  "diag_only": bool(rr == cc),
                  "only_phase_of_several_channels_summed": phase_sum,
                  "xy_mask_edge": bool(in_xy and R["maskEnd"] > 0 and t == R["maskEnd"])}))
              if len(out) >= 3:
                  break
              continue
          if not np.allclose(H, H.conj().T, atol=1e-9 * scale):
              out.append(("C05.Hamiltonian", {"clause": "hermitian", "t": t}))
              break
    return out
