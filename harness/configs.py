"""Bounded configurations (DESIGN section 4): devices, pulse catalogue, call lattice.
Every numeric constant the model needs (rise, phase-jump time, fall times, EOM off-detuning)
is read from the working tree when the configuration is instantiated, never stored."""
import math
import os
import warnings

from .env import assert_tree

assert_tree()
import numpy as np  # noqa: E402
import pulser  # noqa: E402
from pulser import Pulse  # noqa: E402
from pulser.sequence._schedule import _ChannelSchedule  # noqa: E402
from pulser.waveforms import (BlackmanWaveform, ConstantWaveform, CustomWaveform,  # noqa: E402
                              InterpolatedWaveform, RampWaveform)

from . import devices as D  # noqa: E402
from .project import fall_times, pulse_facts, qv  # noqa: E402
from .tla import to_tla  # noqa: E402


class Config:
    def __init__(self, name, devs, pulses, calls, init_calls, max_depth, phase_unit=0.5,
                 phase_mod=0, ptol=0, setpoints=(), cf_max=64):
        self.name = name
        self.devs = devs
        self.real_devices = [D.make_device(d, f"vdev{k}") for k, d in enumerate(devs, 1)]
        self.real_pulses = pulses
        self.calls = calls
        self.init_calls = init_calls
        self.max_depth = max_depth
        self.phase_unit = phase_unit
        self.phase_mod = phase_mod
        self.ptol = ptol
        self.setpoints = list(setpoints)      # (amp_on, detuning_on, optimal_detuning_off)
        self.cf_max = cf_max                  # CF tables cover durations up to cf_max * clock

    # ---- constants of the model -------------------------------------------------------
    def ph(self, x):
        return int(round(float(x) / self.phase_unit))

    def dev_records(self):
        return [D.dev_record(rd, d) for rd, d in zip(self.real_devices, self.devs)]

    def pulse_records(self):
        out = []
        for p in self.real_pulses:
            f = pulse_facts(p)
            try:
                with warnings.catch_warnings():
                    warnings.simplefilter("ignore")
                    p.amplitude.change_duration(p.duration + 1)
                    p.detuning.change_duration(p.duration + 1)
                rs = True
            except NotImplementedError:
                rs = False
            out.append({"dur": f[0], "rs": rs, "ph": self.ph(p.phase), "pps": self.ph(p.post_phase_shift),
                        "dd": bool(_ChannelSchedule.is_detuned_delay(p)),
                        "am": f[3], "av": f[4], "dm": f[7], "dn": f[8], "dx": f[10], "fin": f[9] == 1,
                        "a0": f[1], "a1": f[2], "d0": f[5], "d1": f[6],
                        # waveform kinds whose defining parameters are their end points
                        "ep": all(type(w).__name__ in ("ConstantWaveform", "RampWaveform", "InterpolatedWaveform")
                                  for w in (p.amplitude, p.detuning))})
        return out

    def _adjusted(self, p, ch):
        """The pulse as Sequence._validate_and_adjust_pulse would store it (or None)."""
        try:
            with warnings.catch_warnings():
                warnings.simplefilter("ignore")
                d = ch.validate_duration(p.duration)
                if d != p.duration:
                    return Pulse(p.amplitude.change_duration(d), p.detuning.change_duration(d),
                                 p.phase, p.post_phase_shift)
                return p
        except Exception:  # noqa: BLE001
            return None

    def pf(self):
        tab = []
        for rd, d in zip(self.real_devices, self.devs):
            per_dev = []
            for k in range(1, len(d["ids"] if "ids" in d else d["chs"]) + 1):
                ch = D.real_channel(rd, d, k)
                row = []
                for p in self.real_pulses:
                    a = self._adjusted(p, ch)
                    if a is None:
                        row.append({"fs": 0, "fe": 0, "w": [], "ok": False})
                    else:
                        fs, fe = fall_times(a, ch)
                        row.append({"fs": fs, "fe": fe, "w": pulse_facts(a), "ok": True})
                per_dev.append(row)
            tab.append(per_dev)
        return tab

    def sp_cf(self):
        """SP[d][cid] setpoint records and CF[d][cid][sp][kind][k] fall-time tables."""
        SP, CF = [], []
        for rd, d in zip(self.real_devices, self.devs):
            sp_dev, cf_dev = [], []
            for k in range(1, len(d["ids"] if "ids" in d else d["chs"]) + 1):
                ch = D.real_channel(rd, d, k)
                sps, cfs = [], []
                if ch.supports_eom():
                    for (amp, don, opt) in self.setpoints:
                        rec = {"amp": qv(amp), "don": qv(don), "doff": 0, "out": "ok", "dref": []}
                        # the documented choice, made here: the member(s) of the allowed set closest to the optimum
                        try:
                            with warnings.catch_warnings():
                                warnings.simplefilter("ignore")
                                opts = np.asarray(ch.eom_config.detuning_off_options(amp, don).as_array(detach=True),
                                                  dtype=float).ravel()
                            dist = np.abs(opts - float(opt))
                            rec["dref"] = sorted({qv(o) for o, dd in zip(opts, dist) if dd <= dist.min() + 1e-9})
                        except Exception:  # noqa: BLE001
                            rec["dref"] = []
                        try:
                            with warnings.catch_warnings():
                                warnings.simplefilter("ignore")
                                ch.validate_pulse(Pulse.ConstantPulse(ch.min_duration, amp, don, 0.0))
                                doff = float(ch.eom_config.calculate_detuning_off(amp, don, float(opt)))
                                ch.validate_pulse(Pulse.ConstantPulse(ch.min_duration, 0.0, doff, 0.0))
                            rec["doff"] = qv(doff)
                        except ValueError:
                            rec["out"] = "VE"
                            doff = 0.0
                        sps.append(rec)
                        kinds = []
                        for (a_, d_) in ((amp, don), (0.0, doff)):
                            row = []
                            for j in range(1, self.cf_max + 1):
                                pl = Pulse.ConstantPulse(j * ch.clock_period, a_, d_, 0.0)
                                row.append(list(fall_times(pl, ch)))
                            kinds.append(row)
                        cfs.append(kinds)
                sp_dev.append(sps)
                cf_dev.append(cfs)
            SP.append(sp_dev)
            CF.append(cf_dev)
        return SP, CF

    def sp_lookup(self, dev_index):
        if not hasattr(self, "_spcf"):
            self._spcf = self.sp_cf()
        SP, _ = self._spcf
        def f(cid, amp, don, doff):
            for k, r in enumerate(SP[dev_index - 1][cid - 1], 1):
                if r["amp"] == qv(amp) and r["don"] == qv(don) and r["doff"] == qv(doff):
                    return k
            return 0
        return f

    def gen_module(self, name="MC_gen", root="PulserSeqMC"):
        if not hasattr(self, "_spcf"):
            self._spcf = self.sp_cf()
        SP, CF = self._spcf
        defs = {
            "G_Devs": self.dev_records(),
            "G_Pulses": self.pulse_records(),
            "G_PF": self.pf(),
            "G_SP": SP,
            "G_CF": CF,
            "G_Calls": self.calls,
            "G_InitCalls": self.init_calls,
        }
        body = "\n".join(f"{k} ==\n  {to_tla(v)}" for k, v in defs.items())
        return f"---- MODULE {name} ----\nEXTENDS {root}\n{body}\n====\n"

    def cfg_text(self, invariants=("Emit", "TilingInv", "TypeOK"), depth=None):
        lines = ["SPECIFICATION Spec", "CONSTANTS",
                 "  Devs <- G_Devs", "  Pulses <- G_Pulses", "  PF <- G_PF", "  SP <- G_SP",
                 "  CF <- G_CF", "  Calls <- G_Calls", "  InitCalls <- G_InitCalls",
                 f"  PhaseMod = {self.phase_mod}", f"  PhaseTol = {self.ptol}",
                 f"  NAssign = {len(getattr(self, 'assignments', []))}",
                 "  InitDevs = {" + ", ".join(str(d) for d in getattr(self, "init_devs", None)
                                                or range(1, len(self.devs) + 1)) + "}",
                 f"  MaxDepth = {self.max_depth if depth is None else depth}"]
        for inv in invariants:
            lines.append(f"INVARIANT {inv}")
        return "\n".join(lines) + "\n"


# ---------------------------------------------------------------------------------------
def _core_devs():
    return [{
        "nq": 2,
        "chs": [
            {"kind": "ryd", "addr": "G", "clock": 4, "minDur": 8, "bw": 80.0},
            {"kind": "ryd", "addr": "G", "clock": 2, "minDur": 4},
            {"kind": "ram", "addr": "L", "clock": 4, "minDur": 4, "bw": 160.0, "minRet": 20,
             "fixRet": 8, "maxTg": 1},
        ],
    }]


def core(depth=3):
    pulses = [
        Pulse.ConstantPulse(16, 1.0, 0.0, 0.0),
        Pulse(RampWaveform(12, 0.0, 2.0), ConstantWaveform(12, -1.0), 0.5, post_phase_shift=0.5),
        Pulse.ConstantAmplitude(1.5, BlackmanWaveform(24, 0.1), 0.0),
    ]
    calls = [
        {"op": "declare", "nm": 1, "cid": 1, "it": 0},
        {"op": "declare", "nm": 2, "cid": 2, "it": 0},
        {"op": "declare", "nm": 3, "cid": 3, "it": 1},
    ]
    init = [1, 2, 3]
    for nm in (1, 2, 3):
        for p in (1, 2, 3):
            for proto in ("min-delay", "no-delay", "wait-for-all"):
                if p == 3 and proto != "min-delay":
                    continue
                calls.append({"op": "add", "nm": nm, "p": p, "proto": proto})
    for nm in (1, 2, 3):
        calls.append({"op": "delay", "nm": nm, "d": 8, "rest": False})
        calls.append({"op": "delay", "nm": nm, "d": 16, "rest": True})
    calls.append({"op": "delay", "nm": 1, "d": 3, "rest": True})       # invalid duration
    calls.append({"op": "target", "nm": 3, "tg": 2})
    calls.append({"op": "target", "nm": 3, "tg": 1})
    calls.append({"op": "align", "nms": [1, 2], "rest": True})
    calls.append({"op": "align", "nms": [3, 1], "rest": False})
    calls.append({"op": "align", "nms": [2, 3], "rest": True})
    calls.append({"op": "pshift", "phi": 1, "tg": 1, "basis": "ground-rydberg"})
    calls.append({"op": "pshift", "phi": 3, "tg": 0, "basis": "digital"})
    calls.append({"op": "est", "nm": 1, "p": 2, "proto": "min-delay"})
    calls.append({"op": "est", "nm": 3, "p": 1, "proto": "wait-for-all"})
    return Config("core", _core_devs(), pulses, calls, init, depth)


def eom(depth=3, custom_buf=None, micro=False, cpjt=None, chbw=8.0, ebw=40.0):
    """EOM mode: enable / modify / pulse / delay / disable interleavings next to a plain channel.
    micro=True: phases in 1e-6 rad with drift correction enabled (tolerance compare)."""
    devs = [{
        "nq": 2,
        "chs": [
            {"kind": "ryd", "addr": "G", "clock": 4, "minDur": 16, "bw": chbw, "cpjt": cpjt,
             "eom": {"bw": ebw, "buf": custom_buf, "controlled_beams": ("BLUE", "RED")}},
            {"kind": "ryd", "addr": "G", "clock": 4, "minDur": 4},
        ],
    }]
    pulses = [Pulse.ConstantPulse(100, 1.0, 0.0, 0.0),
              Pulse.ConstantPulse(52, 2.0, -1.0, 0.5)]
    # the third one asks for a POSITIVE off-detuning while options of both signs are equally far in magnitude
    setpoints = [(1.0, 0.0, 0.0), (2.0, -1.0, -10.0), (1.0, 0.0, 1.0)]
    calls = [{"op": "declare", "nm": 1, "cid": 1, "it": 0}, {"op": "declare", "nm": 2, "cid": 2, "it": 0}]
    cpds = (False, True) if micro else (False,)
    for sp in (1, 2, 3):
        for cpd in cpds:
            calls.append({"op": "eom_on", "nm": 1, "sp": sp, "cpd": cpd})
            calls.append({"op": "eom_mod", "nm": 1, "sp": sp, "cpd": cpd})
    for cpd in cpds:
        calls.append({"op": "eom_off", "nm": 1, "cpd": cpd})
    u = 500000 if micro else 1          # 0.5 rad in phase units
    for (dur, ph, proto) in ((16, 0, "min-delay"), (100, u, "min-delay"), (40, u, "no-delay")):
        for cpd in cpds:
            calls.append({"op": "eom_add", "nm": 1, "dur": dur, "ph": ph, "pps": 0, "proto": proto, "cpd": cpd})
    calls.append({"op": "delay", "nm": 1, "d": 18, "rest": False})      # not a clock multiple: rounded up
    calls.append({"op": "delay", "nm": 1, "d": 40, "rest": True})
    if micro:
        calls.append({"op": "eom_add", "nm": 1, "dur": 16, "ph": 0, "pps": u, "proto": "min-delay", "cpd": True})
    calls.append({"op": "add", "nm": 1, "p": 1, "proto": "min-delay"})
    calls.append({"op": "add", "nm": 1, "p": 2, "proto": "min-delay"})
    calls.append({"op": "add", "nm": 2, "p": 1, "proto": "min-delay"})
    calls.append({"op": "add", "nm": 2, "p": 2, "proto": "wait-for-all"})
    calls.append({"op": "align", "nms": [1, 2], "rest": True})
    calls.append({"op": "measure", "basis": "ground-rydberg"})     # every EOM operation is refused afterwards
    c = Config("eom", devs, pulses, calls, [1, 2], depth, setpoints=setpoints, cf_max=80 if cpjt is None else 220,
               phase_unit=1e-6 if micro else 0.5, phase_mod=6283185 if micro else 0,
               ptol=50 if micro else 0)
    return c


def typestate(depth=3):
    """Every public building call with valid and invalid argument classes from every mode:
    physical-like (channels declared once) and reusable devices, XY-capable, DMM + SLM."""
    chs = [
        {"kind": "ryd", "addr": "G", "clock": 4, "minDur": 8, "bw": 8.0, "maxAmp": 10.0,
         "eom": {"bw": 40.0, "controlled_beams": ("BLUE", "RED")}},
        {"kind": "ram", "addr": "L", "clock": 4, "minDur": 8, "minRet": 20, "fixRet": 0, "maxTg": 1},
        {"kind": "mw", "addr": "G", "clock": 4, "minDur": 8},
        {"kind": "dmm", "clock": 4, "minDur": 8, "bottom": -20.0, "totalBottom": -30.0},
        {"kind": "dmm", "clock": 4, "minDur": 8},
    ]
    devs = [{"nq": 2, "slm": True, "reusable": False, "chs": chs},
            {"nq": 2, "slm": True, "reusable": True, "chs": chs}]
    pulses = [Pulse.ConstantPulse(16, 1.0, 0.0, 0.0),
              Pulse.ConstantAmplitude(0, ConstantWaveform(16, -5.0), 0.0),
              Pulse.ConstantAmplitude(0, ConstantWaveform(16, -18.0), 0.0),
              # inside the limits of the half-weight map (-12.5 per atom and in total), outside those of the
              # first map (-25 on the atom of weight 1): a re-used DMM must be judged by its own map
              Pulse.ConstantAmplitude(0, ConstantWaveform(16, -25.0), 0.0)]
    setpoints = [(1.0, 0.0, 0.0), (20.0, 0.0, 0.0)]      # the second one is above the channel's max_amp
    P = "min-delay"
    calls = [
        {"op": "declare", "nm": 1, "cid": 1, "it": 0},
        {"op": "declare", "nm": 2, "cid": 2, "it": 1},
        {"op": "declare", "nm": 2, "cid": 2, "it": 0},
        {"op": "declare", "nm": 3, "cid": 3, "it": 0},
        {"op": "declare", "nm": 4, "cid": 1, "it": 0},      # id used twice
        {"op": "declare", "nm": 1, "cid": 2, "it": 4},      # name used twice / unknown qubit
        {"op": "declare", "nm": 5, "cid": 9, "it": 0},      # unknown id
        {"op": "declare", "nm": 6, "cid": 3, "it": 0},      # the Microwave id under a second name
        {"op": "target", "nm": 2, "tg": 2},
        {"op": "target", "nm": 1, "tg": 1},                 # global channel
        {"op": "add", "nm": 1, "p": 1, "proto": P},
        {"op": "add", "nm": 2, "p": 1, "proto": P},
        {"op": "add", "nm": 3, "p": 1, "proto": P},
        {"op": "add", "nm": 1, "p": 1, "proto": "bad"},
        {"op": "add", "nm": 100, "p": 2, "proto": P},       # add() on a DMM
        {"op": "delay", "nm": 1, "d": 16, "rest": False},
        {"op": "delay", "nm": 100, "d": 16, "rest": False},
        {"op": "measure", "basis": "ground-rydberg"},
        {"op": "measure", "basis": "XY"},
        {"op": "pshift", "phi": 1, "tg": 1, "basis": "ground-rydberg"},
        {"op": "detmap", "mp": [2, 3], "w2": [2, 1], "cid": 4},
        {"op": "detmap", "mp": [2, 2], "w2": [0, 2], "cid": 5},
        {"op": "detmap", "mp": [2, 2], "w2": [0, 2], "cid": 1},    # not a DMM
        {"op": "detmap", "mp": [1, 1], "w2": [1, 0], "cid": 4},    # another map for the first DMM (reusable device)
        {"op": "dmm_add", "nm": 110, "p": 4, "proto": "no-delay"},  # on the second configuration of that DMM
        {"op": "dmm_add", "nm": 100, "p": 4, "proto": "no-delay"},
        {"op": "slm", "tg": 1, "cid": 4},
        {"op": "slm", "tg": 3, "cid": 5},
        {"op": "dmm_add", "nm": 100, "p": 2, "proto": "no-delay"},
        {"op": "dmm_add", "nm": 100, "p": 3, "proto": "no-delay"},   # below bottom * weight
        {"op": "dmm_add", "nm": 101, "p": 3, "proto": P},
        {"op": "dmm_add", "nm": 1, "p": 2, "proto": P},              # not a DMM
        {"op": "magfield", "zero": False},
        {"op": "magfield", "zero": True},
        {"op": "align", "nms": [1, 2], "rest": True},
        {"op": "eom_on", "nm": 1, "sp": 1, "cpd": False},
        {"op": "eom_on", "nm": 1, "sp": 2, "cpd": False},       # rejected setpoint
        {"op": "eom_mod", "nm": 1, "sp": 2, "cpd": False},      # rejected setpoint while in EOM mode
        {"op": "eom_add", "nm": 1, "dur": 16, "ph": 0, "pps": 0, "proto": P, "cpd": False},
        {"op": "eom_off", "nm": 1, "cpd": False},
        {"op": "est", "nm": 1, "p": 1, "proto": P},
    ]
    return Config("typestate", devs, pulses, calls, [], depth, setpoints=setpoints, cf_max=40)


def randsched(seed, depth=3, ncalls=30):
    """A seeded random scheduler configuration: 2-3 channels with random hardware parameters,
    3 pulses, a call lattice of about `ncalls` calls.  Exact phase regime (unit 0.5 rad, no wrap)."""
    import random
    rng = random.Random(seed)
    nq = rng.choice([2, 3])
    nch = rng.choice([2, 3, 3])
    chs = []
    for k in range(nch):
        local = (k == nch - 1 and rng.random() < 0.7) or rng.random() < 0.2
        clock = rng.choice([1, 1, 2, 4, 4, 8])
        mind = rng.choice([1, 4, 8, 16])
        c = {"kind": rng.choice(["ryd", "ryd", "ram"]), "addr": "L" if local else "G",
             "clock": clock, "minDur": mind,
             "bw": rng.choice([None, None, 160.0, 80.0, 40.0, 20.0, 8.0]),
             "maxDur": rng.choice([None, None, None, 400, 120]),
             "maxAmp": rng.choice([None, 10.0, 2.0]), "maxDet": rng.choice([None, 50.0, 1.0]),
             "minAvg": rng.choice([0, 0, 0.5])}
        if c["bw"] is not None:
            c["cpjt"] = rng.choice([None, None, 0, 20, 200])
        else:
            c["cpjt"] = rng.choice([None, None, 20])
        if local:
            c["minRet"] = rng.choice([0, 20, 100, 220])
            c["fixRet"] = rng.choice([0, 0, 8, 10, 300])
            c["maxTg"] = rng.choice([1, 2, None])
        chs.append(c)
    dev = {"nq": nq, "chs": chs, "maxSeq": rng.choice([-1, -1, 150, 308, 640])}
    def rpulse():
        dur = rng.choice([5, 8, 16, 24, 52, 100])
        amp = rng.choice([0.0, 0.5, 1.0, 2.0, 2.5, 10.0])
        det = rng.choice([0.0, -1.0, 1.0, 1.0000004, 1.0000006, 25.0])
        ph = rng.choice([0.0, 0.0, 0.5, 1.0])
        pps = rng.choice([0.0, 0.0, 0.5])
        kind = rng.choice(["const", "const", "ramp", "blackman", "custom"])
        if kind == "const":
            return Pulse.ConstantPulse(dur, amp, det, ph, post_phase_shift=pps)
        if kind == "ramp":
            return Pulse(RampWaveform(dur, 0.0, amp), ConstantWaveform(dur, det), ph, post_phase_shift=pps)
        if kind == "blackman":
            return Pulse.ConstantDetuning(BlackmanWaveform(max(dur, 8), 0.05 * max(amp, 0.5)), det, ph,
                                          post_phase_shift=pps)
        return Pulse(CustomWaveform([amp * (j % 3) / 2 for j in range(dur)]), ConstantWaveform(dur, det), ph,
                     post_phase_shift=pps)
    pulses = [rpulse() for _ in range(3)]
    calls, init = [], []
    for k in range(nch):
        it = 0
        if chs[k]["addr"] == "L":
            it = rng.choice([1, 1, 2])
        calls.append({"op": "declare", "nm": k + 1, "cid": k + 1, "it": it})
        init.append(k + 1)
    pool = []
    for k in range(nch):
        nm = k + 1
        for p in (1, 2, 3):
            for proto in ("min-delay", "no-delay", "wait-for-all"):
                pool.append({"op": "add", "nm": nm, "p": p, "proto": proto})
        for d in sorted({1, chs[k]["minDur"], 13, 40, 3 * chs[k]["clock"]}):
            pool.append({"op": "delay", "nm": nm, "d": d, "rest": rng.random() < 0.5})
        if chs[k]["addr"] == "L":
            for tg in (1, 2, 3, 1 << nq):
                pool.append({"op": "target", "nm": nm, "tg": tg})
        pool.append({"op": "est", "nm": nm, "p": rng.choice([1, 2, 3]),
                     "proto": rng.choice(["min-delay", "wait-for-all", "no-delay"])})
    for a in range(1, nch + 1):
        for b in range(1, nch + 1):
            if a != b:
                pool.append({"op": "align", "nms": [a, b], "rest": rng.random() < 0.6})
    bases = sorted({"ground-rydberg" if c["kind"] == "ryd" else "digital" for c in chs})
    for b in bases:
        pool.append({"op": "pshift", "phi": rng.choice([1, 2]), "tg": rng.choice([0, 1, 2]), "basis": b})
    pool.append({"op": "measure", "basis": bases[0]})
    rng.shuffle(pool)
    # keep at least the add calls of a random subset, then fill
    calls += pool[:max(0, ncalls - len(calls))]
    return Config(f"rs{seed}", [dev], pulses, calls, init, depth)


def limits(depth=2, seqs=(36, 52, 136, 140, 156, -1), virtual=False):
    """Acceptance at / just inside / just outside every limit (C01), with the sequence-duration
    bound hit after automatically inserted delays.  One device per max_sequence_duration."""
    def dev(ms):
        return {"nq": 2, "maxSeq": ms, "chs": [
            {"kind": "ryd", "addr": "G", "clock": 4, "minDur": 16, "maxDur": 120, "maxAmp": 10.0,
             "maxDet": 50.0, "minAvg": 0.5, "cpjt": 20},
            {"kind": "ryd", "addr": "G", "clock": 4, "minDur": 16, "bw": 80.0},
            {"kind": "ram", "addr": "L", "clock": 2, "minDur": 4, "minRet": 0, "fixRet": 0, "maxTg": 2},
        ]}
    devs = [dev(ms) for ms in seqs]
    if virtual:
        # every subset of the optional limits of the first channel left undefined
        devs = []
        for (ma, md, mx) in ((None, None, None), (None, 50.0, 120), (10.0, None, None), (None, None, 120),
                             (10.0, 0.0, 120)):      # a limit of exactly 0 is a limit, not "undefined"
            d = dev(-1)
            d["chs"][0].update({"maxAmp": ma, "maxDet": md, "maxDur": mx})
            devs.append(d)
    C = Pulse.ConstantPulse
    nanwf = CustomWaveform([1.0] * 8 + [float("nan")] + [1.0] * 7)
    pulses = [
        C(16, 10.0, 50.0, 0.0),                    # 1 exactly at both limits
        C(16, 10.0001, 0.0, 0.0),                  # 2 amplitude just over
        C(16, 1.0, 50.0000004, 0.0),               # 3 detuning rounds inside
        C(16, 1.0, -50.0000006, 0.0),              # 4 detuning rounds outside
        C(16, 0.4999, 0.0, 0.0),                   # 5 below min average
        C(16, 0.5, 0.0, 0.5),                      # 6 at min average, other phase
        C(15, 1.0, 0.0, 0.0),                      # 7 below min duration
        C(18, 1.0, 0.0, 0.0),                      # 8 rounded up to 20
        C(120, 1.0, 0.0, 0.0),                     # 9 at max duration
        C(121, 1.0, 0.0, 0.0),                     # 10 over max duration
        Pulse(nanwf, ConstantWaveform(16, 0.0), 0.0),                       # 11 NaN sample
        Pulse(CustomWaveform([1.0] * 18), ConstantWaveform(18, 0.0), 0.0),  # 12 not resizable
        C(16, 0.0, 0.0, 0.0),                      # 13 zero amplitude (avg 0 is allowed)
        Pulse(RampWaveform(18, 0.0, 10.0), RampWaveform(18, -50.0, 50.0), 0.0),   # 14 ramps ending AT the limits, lengthened to 20
        Pulse(RampWaveform(18, 10.0, 0.0), ConstantWaveform(18, 0.0), 0.0),       # 15 falling ramp ending at 0, lengthened
        Pulse(ConstantWaveform(16, 1.0), CustomWaveform([0.0] * 8 + [float("-inf")] + [0.0] * 7), 0.0),  # 16 -inf detuning sample
        Pulse(CustomWaveform([1.0] * 8 + [float("inf")] + [1.0] * 7), ConstantWaveform(16, 0.0), 0.0),   # 17 +inf amplitude sample
    ]
    calls = [{"op": "declare", "nm": 1, "cid": 1, "it": 0}, {"op": "declare", "nm": 2, "cid": 2, "it": 0},
             {"op": "declare", "nm": 3, "cid": 3, "it": 1}]
    for p in range(1, 18):
        calls.append({"op": "add", "nm": 1, "p": p, "proto": "min-delay"})
    for p in (1, 6, 8, 9, 11, 16, 17):
        calls.append({"op": "add", "nm": 2, "p": p, "proto": "min-delay"})
        calls.append({"op": "add", "nm": 1, "p": p, "proto": "no-delay"})
    for p in (1, 8):
        calls.append({"op": "add", "nm": 3, "p": p, "proto": "wait-for-all"})
    calls.append({"op": "delay", "nm": 1, "d": 16, "rest": False})
    calls.append({"op": "delay", "nm": 2, "d": 20, "rest": True})
    calls.append({"op": "delay", "nm": 1, "d": 121, "rest": False})
    calls.append({"op": "align", "nms": [1, 2], "rest": True})
    calls.append({"op": "target", "nm": 3, "tg": 2})
    calls.append({"op": "pshift", "phi": 1, "tg": 0, "basis": "ground-rydberg"})
    return Config("limits", devs, pulses, calls, [1, 2, 3], depth)


def fine(depth=3, seeded=False, seed_nm=1):
    """Clock 1 / minimum duration 1 channels with slow modulation: short trailing delays inside
    the fall time of the pulse before them (the backwards scans of _find_add_delay/get_duration)."""
    devs = [{"nq": 2, "chs": [
        {"kind": "ryd", "addr": "G", "clock": 1, "minDur": 1, "bw": 40.0},
        {"kind": "ryd", "addr": "G", "clock": 1, "minDur": 1},
        {"kind": "ram", "addr": "L", "clock": 1, "minDur": 1, "bw": 20.0, "minRet": 0, "fixRet": 0, "maxTg": 2},
    ]}]
    pulses = [Pulse.ConstantPulse(10, 1.0, 0.0, 0.0),
              Pulse.ConstantDetuning(BlackmanWaveform(20, 0.05), 0.0, 0.5),
              Pulse.ConstantPulse(5, 2.0, 1.0, 0.0, post_phase_shift=0.5)]
    calls = [{"op": "declare", "nm": 1, "cid": 1, "it": 0}, {"op": "declare", "nm": 2, "cid": 2, "it": 0},
             {"op": "declare", "nm": 3, "cid": 3, "it": 1}]
    for nm in (1, 2, 3):
        for p in (1, 2, 3):
            for proto in ("min-delay", "wait-for-all"):
                if p == 3 and proto == "wait-for-all":
                    continue
                calls.append({"op": "add", "nm": nm, "p": p, "proto": proto})
        for d in (1, 5, 13, 30):
            calls.append({"op": "delay", "nm": nm, "d": d, "rest": False})
    calls.append({"op": "add", "nm": 2, "p": 1, "proto": "no-delay"})
    calls.append({"op": "target", "nm": 3, "tg": 2})
    calls.append({"op": "target", "nm": 3, "tg": 3})
    calls.append({"op": "align", "nms": [1, 2], "rest": True})
    calls.append({"op": "align", "nms": [3, 2], "rest": True})
    calls.append({"op": "est", "nm": 2, "p": 1, "proto": "min-delay"})
    init = [1, 2, 3]
    if seeded:
        # start from a state where the modulated global channel already carries a pulse
        init += [k + 1 for k, c in enumerate(calls)
                 if c["op"] == "add" and c["p"] == 1 and c["proto"] == "min-delay" and c["nm"] == seed_nm]
    return Config("fine", devs, pulses, calls, init, depth)


def oddmin(depth=3):
    """Minimum durations that are not clock multiples (clock 4 / min 6, clock 4 / min 10) with waits
    shorter than the minimum: tiny custom phase-jump time, tiny fixed retarget time, EOM-free."""
    devs = [{"nq": 2, "chs": [
        {"kind": "ryd", "addr": "G", "clock": 4, "minDur": 6, "cpjt": 2},
        {"kind": "ram", "addr": "L", "clock": 4, "minDur": 10, "minRet": 0, "fixRet": 2, "maxTg": 1},
        {"kind": "ryd", "addr": "G", "clock": 2, "minDur": 3, "bw": 160.0},
    ]}]
    pulses = [Pulse.ConstantPulse(12, 1.0, 0.0, 0.0), Pulse.ConstantPulse(8, 1.0, 0.0, 0.5),
              Pulse.ConstantPulse(10, 1.0, 0.0, 1.0)]
    calls = [{"op": "declare", "nm": 1, "cid": 1, "it": 0}, {"op": "declare", "nm": 2, "cid": 2, "it": 1},
             {"op": "declare", "nm": 3, "cid": 3, "it": 0}]
    for nm in (1, 2, 3):
        for p in (1, 2, 3):
            calls.append({"op": "add", "nm": nm, "p": p, "proto": "min-delay"})
        calls.append({"op": "add", "nm": nm, "p": 2, "proto": "no-delay"})
    calls += [{"op": "target", "nm": 2, "tg": 2}, {"op": "target", "nm": 2, "tg": 1},
              {"op": "delay", "nm": 1, "d": 6, "rest": False}, {"op": "delay", "nm": 2, "d": 10, "rest": True},
              {"op": "delay", "nm": 3, "d": 3, "rest": False},
              {"op": "align", "nms": [1, 3], "rest": True}, {"op": "align", "nms": [2, 1], "rest": False},
              {"op": "pshift", "phi": 1, "tg": 0, "basis": "ground-rydberg"}]
    return Config("oddmin", devs, pulses, calls, [1, 2, 3], depth)


def localconf(depth=3):
    """Two local channels on one basis plus a global one: conflicts with an OLDER pulse of a channel
    that has since been retargeted and has pulsed elsewhere.  Exploration starts after
    pulse(q1) - retarget(q3) - pulse(q3) on the first local channel."""
    devs = [{"nq": 3, "chs": [
        {"kind": "ram", "addr": "L", "clock": 1, "minDur": 1, "bw": 40.0, "minRet": 0, "fixRet": 0, "maxTg": 1},
        {"kind": "ram", "addr": "L", "clock": 1, "minDur": 1, "minRet": 0, "fixRet": 0, "maxTg": 2},
        {"kind": "ram", "addr": "G", "clock": 1, "minDur": 1},
    ]}]
    pulses = [Pulse.ConstantPulse(100, 1.0, 0.0, 0.0), Pulse.ConstantPulse(20, 1.0, 0.0, 0.5)]
    calls = [{"op": "declare", "nm": 1, "cid": 1, "it": 1}, {"op": "declare", "nm": 2, "cid": 2, "it": 2},
             {"op": "declare", "nm": 3, "cid": 3, "it": 0},
             {"op": "add", "nm": 1, "p": 1, "proto": "min-delay"}, {"op": "target", "nm": 1, "tg": 4},
             {"op": "add", "nm": 1, "p": 2, "proto": "no-delay"}]
    for nm in (2, 3):
        for p in (1, 2):
            for proto in ("min-delay", "wait-for-all", "no-delay"):
                calls.append({"op": "add", "nm": nm, "p": p, "proto": proto})
    calls += [{"op": "target", "nm": 2, "tg": 1}, {"op": "target", "nm": 2, "tg": 5}, {"op": "target", "nm": 2, "tg": 2},
              {"op": "target", "nm": 1, "tg": 1}, {"op": "delay", "nm": 2, "d": 30, "rest": False},
              {"op": "est", "nm": 2, "p": 1, "proto": "min-delay"}]
    return Config("localconf", devs, pulses, calls, [1, 2, 3, 4, 5, 6], depth)


def retarget(depth=3, full=True):
    """Local channels over min_retarget_interval x fixed_retarget_t x clock x min duration x rise."""
    devs = []
    for (mr, fr) in ((0, 0), (20, 0), (20, 8), (100, 300), (220, 10), (0, 10), (100, 100)):
        for (clock, mind) in ((1, 1), (4, 16), (4, 4)) if full else ((1, 1), (4, 16)):
            for bw in (None, 160.0) if full else ((160.0,) if mr == 20 else (None,)):
                devs.append({"nq": 3, "chs": [
                    {"kind": "ram", "addr": "L", "clock": clock, "minDur": mind, "bw": bw,
                     "minRet": mr, "fixRet": fr, "maxTg": 2},
                    {"kind": "ram", "addr": "G", "clock": 1, "minDur": 1}]})
    pulses = [Pulse.ConstantPulse(16, 1.0, 0.0, 0.0), Pulse.ConstantPulse(250, 1.0, 0.0, 0.5),
              # no amplitude, but a detuning that has to ramp down like any other output
              Pulse.ConstantPulse(16, 0.0, -20.0, 0.0)]
    calls = [{"op": "declare", "nm": 1, "cid": 1, "it": 1}, {"op": "declare", "nm": 2, "cid": 2, "it": 0}]
    for tg in (1, 2, 3, 7):
        calls.append({"op": "target", "nm": 1, "tg": tg})
    for p in (1, 2, 3):
        calls.append({"op": "add", "nm": 1, "p": p, "proto": "min-delay"})
    calls.append({"op": "add", "nm": 2, "p": 1, "proto": "min-delay"})
    calls.append({"op": "delay", "nm": 1, "d": 16, "rest": False})
    calls.append({"op": "delay", "nm": 1, "d": 100, "rest": True})
    calls.append({"op": "align", "nms": [1, 2], "rest": True})
    return Config("retarget", devs, pulses, calls, [1, 2], depth)


def phasejump(depth=3):
    """One channel over phase-jump time derived / custom 0 / 20 / 200 x modulation bandwidth,
    a second channel and phase shifts to create barriers; phases 0 / 0.5 / 1.0 rad."""
    devs = []
    for bw in (None, 80.0, 8.0):
        for cpjt in (None, 0, 20, 200):
            devs.append({"nq": 2, "chs": [
                {"kind": "ryd", "addr": "G", "clock": 4, "minDur": 8, "bw": bw, "cpjt": cpjt},
                {"kind": "ryd", "addr": "G", "clock": 1, "minDur": 1}]})
    pulses = [Pulse.ConstantPulse(16, 1.0, 0.0, 0.0), Pulse.ConstantPulse(16, 1.0, 0.0, 0.5),
              Pulse.ConstantPulse(101, 1.0, 0.0, 1.0, post_phase_shift=0.5)]
    calls = [{"op": "declare", "nm": 1, "cid": 1, "it": 0}, {"op": "declare", "nm": 2, "cid": 2, "it": 0}]
    for p in (1, 2):
        for proto in ("min-delay", "no-delay", "wait-for-all"):
            calls.append({"op": "add", "nm": 1, "p": p, "proto": proto})
    for p in (1, 3):
        calls.append({"op": "add", "nm": 2, "p": p, "proto": "no-delay"})
    calls.append({"op": "delay", "nm": 1, "d": 8, "rest": False})
    calls.append({"op": "delay", "nm": 1, "d": 100, "rest": False})
    calls.append({"op": "pshift", "phi": 1, "tg": 0, "basis": "ground-rydberg"})
    calls.append({"op": "est", "nm": 1, "p": 2, "proto": "min-delay"})
    return Config("phasejump", devs, pulses, calls, [1, 2], depth)


def phases(depth=3, wrap=False):
    """Phase references: a global and a multi-target local channel on ONE basis plus a channel on
    another basis; shifts on single atoms and on all, post-phase-shifts, retargeting.
    wrap=True: unit 2*pi/8 with negative and > 2*pi values on unmodulated channels (where the
    equal/different-phase decision cannot move the timeline)."""
    devs = [{"nq": 3, "chs": [
        {"kind": "ryd", "addr": "G", "clock": 1, "minDur": 1, "bw": None if wrap else 80.0},
        {"kind": "ryd", "addr": "L", "clock": 1, "minDur": 1, "minRet": 0, "fixRet": 0, "maxTg": 2},
        {"kind": "ram", "addr": "L", "clock": 4, "minDur": 4, "minRet": 0, "fixRet": 0, "maxTg": 3},
    ]}]
    import math
    u = 2 * math.pi / 8 if wrap else 0.5
    pulses = [Pulse.ConstantPulse(100, 1.0, 0.0, 0.0, post_phase_shift=(5 if wrap else 1) * u),
              Pulse.ConstantPulse(20, 1.0, 0.0, (3 if wrap else 1) * u),
              Pulse.ConstantPulse(8, 1.0, 0.0, (7 if wrap else 2) * u, post_phase_shift=(-3 if wrap else 1) * u)]
    calls = [{"op": "declare", "nm": 1, "cid": 1, "it": 0}, {"op": "declare", "nm": 2, "cid": 2, "it": 2},
             {"op": "declare", "nm": 3, "cid": 3, "it": 1}]
    for nm in (1, 2):
        for p in (1, 2, 3):
            for proto in ("min-delay", "no-delay"):
                calls.append({"op": "add", "nm": nm, "p": p, "proto": proto})
    calls.append({"op": "add", "nm": 3, "p": 3, "proto": "min-delay"})
    for (phi, tg, b) in (((11 if wrap else 1), 1, "ground-rydberg"), ((-3 if wrap else 1), 2, "ground-rydberg"),
                         ((5 if wrap else 2), 0, "ground-rydberg"), ((-3 if wrap else 1), 6, "ground-rydberg"),
                         ((13 if wrap else 1), 1, "digital")):
        calls.append({"op": "pshift", "phi": phi, "tg": tg, "basis": b})
    for tg in (1, 3, 6):
        calls.append({"op": "target", "nm": 2, "tg": tg})
    calls.append({"op": "target", "nm": 3, "tg": 7})
    calls.append({"op": "delay", "nm": 1, "d": 30, "rest": False})
    calls.append({"op": "align", "nms": [1, 2], "rest": False})
    return Config("phases", devs, pulses, calls, [1, 2, 3], depth, phase_unit=u,
                  phase_mod=8 if wrap else 0, ptol=0)


def render_ising(depth=3, dmm_first=False):
    """C06/C05/C14: global + multi-target local + other-basis local + DMM (weights) + SLM mask on
    3 atoms; ramp-shaped pulses so that every sample is distinct."""
    devs = [{"nq": 3, "slm": True, "chs": [
        {"kind": "ryd", "addr": "G", "clock": 1, "minDur": 1, "bw": 80.0},
        {"kind": "ryd", "addr": "L", "clock": 1, "minDur": 1, "minRet": 0, "fixRet": 0, "maxTg": 2},
        {"kind": "ram", "addr": "L", "clock": 1, "minDur": 1, "minRet": 0, "fixRet": 2, "maxTg": 1},
        {"kind": "dmm", "clock": 1, "minDur": 1},
    ]}]
    pulses = [Pulse(RampWaveform(6, 0.5, 2.5), RampWaveform(6, -1.0, 1.0), 0.5),
              Pulse.ConstantPulse(4, 1.5, -2.0, 0.0, post_phase_shift=0.5),
              Pulse.ConstantAmplitude(0, RampWaveform(6, -1.0, -3.0), 0.0),
              Pulse(CustomWaveform([0.25, 0.75, 1.25, 0.5, 0.125]), ConstantWaveform(5, 0.5), 1.0)]
    calls = [{"op": "declare", "nm": 1, "cid": 1, "it": 0}, {"op": "declare", "nm": 2, "cid": 2, "it": 2},
             {"op": "declare", "nm": 3, "cid": 3, "it": 1}]
    P = "min-delay"
    for (nm, p, proto) in ((1, 1, P), (1, 2, "no-delay"), (1, 4, P), (2, 1, P), (2, 2, "no-delay"),
                           (3, 2, P), (3, 4, "wait-for-all")):
        calls.append({"op": "add", "nm": nm, "p": p, "proto": proto})
    calls.append({"op": "target", "nm": 2, "tg": 5})
    calls.append({"op": "target", "nm": 3, "tg": 4})
    calls.append({"op": "delay", "nm": 1, "d": 3, "rest": False})
    calls.append({"op": "delay", "nm": 1, "d": 7, "rest": False})      # longer than the rise time, inside a fall time
    calls.append({"op": "delay", "nm": 2, "d": 2, "rest": True})
    calls.append({"op": "detmap", "mp": [2, 3], "w2": [2, 1, 0], "cid": 4})
    calls.append({"op": "slm", "tg": 5, "cid": 4})
    calls.append({"op": "dmm_add", "nm": 100, "p": 3, "proto": "no-delay"})
    calls.append({"op": "dmm_add", "nm": 100, "p": 3, "proto": P})
    calls.append({"op": "align", "nms": [1, 2], "rest": True})
    calls.append({"op": "pshift", "phi": 1, "tg": 2, "basis": "ground-rydberg"})
    init = [1, 2, 3]
    if dmm_first:
        # this variant also uses integer qubit ids that are not their own position (1, 2, 0)
        devs[0]["intids"] = True
        # the detuning map is configured before the channels are declared (channel order matters
        # for the per-atom view)
        init = [k + 1 for k, c in enumerate(calls) if c["op"] == "detmap"] + init
    c = Config("render_ising", devs, pulses, calls, init, depth)
    c.render = True
    return c


def render_xy(depth=3, masked=False):
    """C06/C05: two Microwave channels (XY mode) with an SLM mask and a magnetic field."""
    devs = [{"nq": 3, "slm": True, "reusable": True, "chs": [
        {"kind": "mw", "addr": "G", "clock": 1, "minDur": 1},
        {"kind": "mw", "addr": "G", "clock": 1, "minDur": 1},
        {"kind": "dmm", "clock": 1, "minDur": 1},
    ]}]
    pulses = [Pulse(RampWaveform(6, 0.5, 2.5), RampWaveform(6, -1.0, 1.0), 0.5),
              Pulse.ConstantPulse(4, 1.5, -2.0, 0.0),
              Pulse.ConstantPulse(3, 0.0, 1.0, 0.0),
              # interpolator with its own keyword (legacy serialisation must keep it; the abstract
              # representation documents that it refuses it)
              Pulse(InterpolatedWaveform(8, [0.5, 2.5, 1.0, 0.2], interpolator="interp1d", kind="quadratic"),
                    ConstantWaveform(8, 0.0), 0.0)]
    calls = [{"op": "declare", "nm": 1, "cid": 1, "it": 0}, {"op": "declare", "nm": 2, "cid": 2, "it": 0}]
    P = "min-delay"
    for (nm, p, proto) in ((1, 1, P), (1, 2, "no-delay"), (2, 1, "no-delay"), (2, 2, P), (2, 3, "no-delay"),
                           (1, 3, P), (1, 4, P)):
        calls.append({"op": "add", "nm": nm, "p": p, "proto": proto})
    calls.append({"op": "delay", "nm": 1, "d": 3, "rest": False})
    calls.append({"op": "delay", "nm": 2, "d": 5, "rest": False})
    if masked:
        # a first pulse on the second channel that starts later but ends earlier than the first channel's
        # (the mask lasts until the end of the pulse that STARTS first)
        calls.append({"op": "delay", "nm": 2, "d": 1, "rest": False})
        calls.append({"op": "add", "nm": 2, "p": 2, "proto": "no-delay"})
    calls.append({"op": "slm", "tg": 5, "cid": 3})
    calls.append({"op": "slm", "tg": 2, "cid": 3})
    calls.append({"op": "magfield", "zero": False})
    calls.append({"op": "magfield", "zero": False, "b": 1})      # (1, 2, 0.5): not a unit vector, not perpendicular
    calls.append({"op": "align", "nms": [1, 2], "rest": True})
    calls.append({"op": "measure", "basis": "XY"})
    init = [1, 2]
    if masked:
        # the SLM mask is configured first, so that three pulses fit after it within the depth bound
        init += [k + 1 for k, c in enumerate(calls) if c["op"] == "slm" and c["tg"] == 5]
    c = Config("render_xy", devs, pulses, calls, init, depth)
    c.render = True
    return c


def template(depth=3):
    """C08 / C13: parametrized sequences.  Calls with par=True take their numeric argument from
    variable expressions; alt[a] is the concrete call for assignment a."""
    devs = [{"nq": 3, "chs": [
        {"kind": "ryd", "addr": "G", "clock": 4, "minDur": 8, "bw": 80.0,
         "eom": {"bw": 40.0, "controlled_beams": ("BLUE", "RED")}},
        # a second channel with an EOM: the mode of one channel says nothing about the other
        {"kind": "ryd", "addr": "G", "clock": 2, "minDur": 4, "bw": 160.0,
         "eom": {"bw": 80.0, "controlled_beams": ("BLUE",)}},
        {"kind": "ram", "addr": "L", "clock": 4, "minDur": 4, "bw": 160.0, "minRet": 20, "fixRet": 8, "maxTg": 1},
        {"kind": "dmm", "clock": 4, "minDur": 4},
    ]}]
    assignments = [{"x": 8, "y": 1.0, "v": [0.0, 1.0, 2.0, 1.0, 0.5]},
                   {"x": 12, "y": 0.5, "v": [0.5, 0.25, 0.0, 2.0, 1.0]},
                   {"x": 22, "y": 2.0, "v": [1.0, 1.0, 0.5, 0.0, 0.0]},
                   # almost the first assignment (a finite-difference step): must still be its own build
                   {"x": 8, "y": 1.000001, "v": [5e-9, 1.000001, 2.0, 1.0, 0.5]}]
    from pulser.waveforms import InterpolatedWaveform
    pulses = [Pulse.ConstantPulse(16, 1.0, 0.0, 0.0),
              Pulse(RampWaveform(12, 0.0, 2.0), ConstantWaveform(12, -1.0), 0.5, post_phase_shift=0.5)]
    setpoints = [(1.0, 0.0, 0.0)]
    calls = [{"op": "declare", "nm": 1, "cid": 1, "it": 0}, {"op": "declare", "nm": 2, "cid": 2, "it": 0},
             {"op": "declare", "nm": 3, "cid": 3, "it": 1}]
    P = "min-delay"
    calls += [
        {"op": "add", "nm": 1, "p": 1, "proto": P}, {"op": "add", "nm": 2, "p": 2, "proto": "no-delay"},
        {"op": "add", "nm": 3, "p": 1, "proto": "wait-for-all"},
        {"op": "delay", "nm": 1, "d": 16, "rest": False}, {"op": "delay", "nm": 2, "d": 3, "rest": True},
        {"op": "target", "nm": 3, "tg": 2}, {"op": "align", "nms": [1, 2], "rest": True},
        {"op": "pshift", "phi": 1, "tg": 1, "basis": "ground-rydberg"},
        {"op": "measure", "basis": "ground-rydberg"}, {"op": "getdur", "nm": 1},
        {"op": "est", "nm": 1, "p": 1, "proto": P},
        {"op": "eom_on", "nm": 1, "sp": 1, "cpd": False},
        {"op": "eom_add", "nm": 1, "dur": 16, "ph": 0, "pps": 0, "proto": P, "cpd": False},
        {"op": "eom_off", "nm": 1, "cpd": False},
        {"op": "eom_on", "nm": 2, "sp": 1, "cpd": False},
        {"op": "detmap", "mp": [2, 3], "w2": [2, 1, 0], "cid": 4},
    ]
    par_real = {}

    def par(base, key, fn, to_call):
        """base: call record without the variable argument; fn(V) -> the real argument;
        to_call(value) -> the fields of the concrete call for an evaluated argument."""
        pk = len(par_real) + 1
        par_real[pk] = fn
        alt = []
        for a in assignments:
            val = fn(a)
            alt.append({**base, **to_call(val)})
        calls.append({**base, **to_call(fn(assignments[0])), "par": True, "pk": pk, "alt": alt})

    def pulse_idx(pl):
        pulses.append(pl)
        return {"p": len(pulses)}

    par({"op": "add", "nm": 1, "proto": P}, "p", lambda V: Pulse.ConstantPulse(V["x"], V["y"], 0.0, 0.0), pulse_idx)
    par({"op": "add", "nm": 2, "proto": "no-delay"}, "p",
        lambda V: Pulse.ConstantPulse(2 * V["x"] + 4, 1.0, -1.0 * V["y"], 0.5), pulse_idx)
    par({"op": "add", "nm": 3, "proto": P}, "p",
        lambda V: Pulse.ConstantAmplitude(V["y"] * 2, RampWaveform(V["x"], 0.0, 1.0), 0.0, post_phase_shift=0.5),
        pulse_idx)
    # array variable: strided slice and item of an array in an interpolated waveform (default times)
    par({"op": "add", "nm": 2, "proto": P}, "p",
        lambda V: Pulse.ConstantDetuning(InterpolatedWaveform(40, V["v"][::2]), -1.0 * V["v"][1], 0.0), pulse_idx)
    par({"op": "delay", "nm": 1, "rest": False}, "d", lambda V: V["x"], lambda v: {"d": int(v)})
    par({"op": "delay", "nm": 3, "rest": True}, "d", lambda V: V["x"] // 2 + 1, lambda v: {"d": int(v)})
    par({"op": "target", "nm": 3}, "tg", lambda V: (V["x"] // 4) % 3, lambda v: {"tg": 1 << int(v)})
    par({"op": "pshift", "tg": 2, "basis": "digital"}, "phi", lambda V: V["y"] * 1.0,
        lambda v: {"phi": int(round(float(v) / 0.5))})
    par({"op": "eom_add", "nm": 1, "ph": 0, "pps": 0, "proto": P, "cpd": False}, "dur",
        lambda V: 2 * V["x"], lambda v: {"dur": int(v)})
    c = Config("template", devs, pulses, calls, [1, 2], depth, setpoints=setpoints, cf_max=40)
    c.variables = [("x", int, None), ("y", float, None), ("v", float, 5)]
    c.assignments = assignments
    c.par_real = par_real
    return c


def switch(depth=2):
    """C18: a base device and variants differing in one channel / device parameter each."""
    import copy
    base = {"nq": 2, "chs": [
        {"kind": "ryd", "addr": "G", "clock": 4, "minDur": 8, "bw": 80.0, "maxAmp": 10.0, "maxDet": 50.0,
         "eom": {"bw": 40.0, "controlled_beams": ("BLUE", "RED")}},
        {"kind": "ram", "addr": "L", "clock": 4, "minDur": 4, "bw": 160.0, "minRet": 20, "fixRet": 8, "maxTg": 1},
    ]}
    variants = [("base", lambda d: None)]

    def ch(i, **kw):
        return lambda d: d["chs"][i].update(kw)

    def eomkw(**kw):
        return lambda d: d["chs"][0]["eom"].update(kw)
    variants += [
        ("clock2", ch(0, clock=2)), ("clock8", ch(0, clock=8)), ("minDur16", ch(0, minDur=16)),
        ("maxDur40", ch(0, maxDur=40)), ("bw40", ch(0, bw=40.0)), ("cpjt40", ch(0, cpjt=40)),
        ("cpjt0", ch(0, cpjt=0)), ("minRet100", ch(1, minRet=100)), ("minRet0", ch(1, minRet=0)),
        ("bwLocalNone", ch(1, bw=None)), ("fixRet0", ch(1, fixRet=0)),
        ("fixRet24", ch(1, fixRet=24)), ("locMinDur16", ch(1, minDur=16)), ("maxAmp0.9", ch(0, maxAmp=0.9)),
        ("maxDet0.5", ch(0, maxDet=0.5)), ("minAvg1.5", ch(0, minAvg=1.5)), ("eombuf48", eomkw(buf=48)),
        ("eombw20", eomkw(bw=20.0)), ("eomdet", eomkw(intermediate_detuning=500 * 2 * np.pi)),
        ("maxSeq60", lambda d: d.update(maxSeq=60)), ("level70", lambda d: d.update(level=70)),
        ("reusable", lambda d: d.update(reusable=True)), ("maxTgNone", ch(1, maxTg=None)),
        ("swapped", lambda d: d["chs"].reverse()),
    ]
    devs, tags = [], []
    for tag, f in variants:
        d = copy.deepcopy(base)
        f(d)
        devs.append(d)
        tags.append(tag)
    pulses = [Pulse.ConstantPulse(16, 1.0, 0.0, 0.0), Pulse.ConstantPulse(12, 2.0, -1.0, 0.5),
              Pulse.ConstantDetuning(BlackmanWaveform(24, 0.05), 0.0, 0.0)]
    setpoints = [(1.0, 0.0, 0.0), (2.0, -1.0, -10.0)]
    calls = [{"op": "declare", "nm": 1, "cid": 1, "it": 0}, {"op": "declare", "nm": 2, "cid": 2, "it": 1}]
    P = "min-delay"
    for (nm, p, proto) in ((1, 1, P), (1, 2, P), (1, 3, "no-delay"), (2, 1, P), (2, 2, "wait-for-all")):
        calls.append({"op": "add", "nm": nm, "p": p, "proto": proto})
    calls += [{"op": "delay", "nm": 1, "d": 8, "rest": False}, {"op": "delay", "nm": 2, "d": 16, "rest": True},
              {"op": "target", "nm": 2, "tg": 2}, {"op": "target", "nm": 2, "tg": 1},
              {"op": "align", "nms": [1, 2], "rest": True},
              {"op": "pshift", "phi": 1, "tg": 1, "basis": "ground-rydberg"},
              {"op": "eom_on", "nm": 1, "sp": 1, "cpd": False}, {"op": "eom_on", "nm": 1, "sp": 2, "cpd": False},
              {"op": "eom_add", "nm": 1, "dur": 16, "ph": 0, "pps": 0, "proto": P, "cpd": False},
              {"op": "eom_off", "nm": 1, "cpd": False}, {"op": "measure", "basis": "ground-rydberg"}]
    c = Config("switch", devs, pulses, calls, [1, 2], depth, setpoints=setpoints, cf_max=60)
    c.switch = True
    c.init_devs = [1]
    c.dev_tags = tags
    # the swapped device has another channel layout: the model's replay (same channel ids) does not apply
    c.skip_model_switch = {len(devs): True}
    return c


def with_prefixes(make, tag, n, seed0, plen=2):
    """Thorough-tier deepening without the state explosion of one more level: `n` copies of a
    configuration whose exploration starts after a seeded random prefix of `plen` successful calls
    (found by running candidates on the real code), each explored to the configuration's depth."""
    import random
    from .replay import Runner
    out = []
    for j in range(n):
        rng = random.Random(seed0 * 7919 + j)
        c = make()
        run = Runner(c, 1)
        for k in c.init_calls:
            run.call(c.calls[k - 1])
        prefix = []
        tries = 0
        while len(prefix) < plen and tries < 200:
            tries += 1
            k = rng.randrange(1, len(c.calls) + 1)
            call = c.calls[k - 1]
            if call["op"] in ("est", "getdur", "measure", "declare") or call.get("par"):
                continue
            if run.call(call)[0] == "ok":
                prefix.append(k)
        c.init_calls = list(c.init_calls) + prefix
        c.name = f"{tag}-p{seed0}x{j}-d{c.max_depth}"
        c.prefix_seed = (seed0, j)
        out.append(c)
    return out


def mappable(depth=3):
    """C08, mappable registers: a sequence on MappableRegister(layout of 5 traps, q1, q2, q3) built
    with full, partial and permuted mappings."""
    devs = [{"nq": 3, "chs": [
        {"kind": "ryd", "addr": "G", "clock": 4, "minDur": 8, "bw": 80.0},
        {"kind": "ram", "addr": "L", "clock": 4, "minDur": 4, "minRet": 20, "fixRet": 8, "maxTg": 2},
    ]}]
    pulses = [Pulse.ConstantPulse(16, 1.0, 0.0, 0.0), Pulse.ConstantPulse(12, 1.0, -1.0, 0.5, post_phase_shift=0.5)]
    calls = [{"op": "declare", "nm": 1, "cid": 1, "it": 0}, {"op": "declare", "nm": 2, "cid": 2, "it": 1}]
    P = "min-delay"
    for (nm, p, proto) in ((1, 1, P), (1, 2, "no-delay"), (2, 1, P), (2, 2, "wait-for-all")):
        calls.append({"op": "add", "nm": nm, "p": p, "proto": proto})
    calls += [{"op": "target", "nm": 2, "tg": 4}, {"op": "target", "nm": 2, "tg": 5}, {"op": "target", "nm": 2, "tg": 2},
              {"op": "delay", "nm": 1, "d": 16, "rest": True}, {"op": "align", "nms": [1, 2], "rest": True},
              {"op": "pshift", "phi": 1, "tg": 1, "basis": "ground-rydberg"},
              {"op": "pshift", "phi": 1, "tg": 0, "basis": "digital"}, {"op": "measure", "basis": "digital"}]
    c = Config("mappable", devs, pulses, calls, [1, 2], depth)
    # partial mappings must name the first qubits of the declared order (documented restriction)
    c.mappings = [{"q1": 0, "q2": 1, "q3": 2}, {"q2": 0, "q1": 3}, {"q3": 4, "q2": 2, "q1": 1}, {"q1": 2}]
    return c


def instances(name, tier):
    """The configurations of family `name` for a tier (each with a unique .name tag)."""
    from .env import seed as _seed0
    quick = tier != "thorough"
    if name == "core":
        c = core(3)
        c.name = "core-d3"
        if quick:
            return [c]
        # depth 4 would be 2.3 M states: depth 3 from 12 seeded 2-call prefixes instead
        return [c] + with_prefixes(lambda: core(3), "core", 12, _seed0())
    if name == "limits":
        a = limits(2)
        a.name = "limits-d2"
        b = limits(3, seqs=(140, -1) if quick else (36, 52, 136, 140, 156, -1))
        b.name = "limits-d3"
        v = limits(2, virtual=True)
        v.name = "limits-virtual-d2"
        return [a, b, v]
    if name == "retarget":
        c = retarget(3, full=not quick)
        c.name = "retarget-d3" if quick else "retarget-full-d3"
        if quick:
            return [c]
        d = retarget(4, full=False)
        d.name = "retarget-d4"
        return [c, d]
    if name == "fine":
        a = fine(3)
        a.name = "fine-d3"
        b = fine(3, seeded=True)
        b.name = "fine-seeded-d3"
        b3 = fine(3, seeded=True, seed_nm=3)
        b3.name = "fine-seeded3-d3"
        if quick:
            return [a, b, b3]
        return [a, b, b3] + with_prefixes(lambda: fine(3), "fine", 8, _seed0())
    if name in ("oddmin", "localconf"):
        c = {"oddmin": oddmin, "localconf": localconf}[name](3 if quick else 4)
        c.name = f"{name}-d{c.max_depth}"
        return [c]
    if name == "switch":
        c = switch(2 if quick else 3)
        c.name = f"switch-d{c.max_depth}"
        return [c]
    if name == "rel":
        out = []
        for fam in ("core", "eom", "render", "template", "typestate"):
            for c in instances(fam, "quick"):
                if c.name.startswith(("render_eom", "render_ising_dmmfirst")):
                    continue
                # the relation hooks (two encoders, decoders, copies, switch_register on every state) cost far more
                # per state than the replay itself: depth 3 for the small lattices, 2 for the two large ones
                # (core at depth 3 in the thorough tier); measured: a depth-4 EOM lattice alone took 14 min
                if fam == "typestate" or (quick and fam == "core"):
                    c.max_depth = 2
                    c.name = c.name.rsplit("-d", 1)[0] + "-d2"
                c.name = "rel_" + c.name
                c.render = False
                c.relations = True
                out.append(c)
        # the relations from a state with a pending fall time (first channel already pulsed)
        c = core(2 if quick else 3)
        c.init_calls = list(c.init_calls) + [4]
        c.name = f"rel_core-seeded-d{c.max_depth}"
        c.relations = True
        out.append(c)
        # drift-corrected EOM operations (what the call log must reproduce)
        c = eom(3, micro=True)
        c.name = "rel_eomdrift-b0-d3"
        c.relations = True
        out.append(c)
        return out
    if name == "relids":
        # (C04 only) integer qubit ids that are not their own position (1, 0): the Local channel starts on
        # the atom whose id is the falsy 0 (an encoder that tests the id's truth value loses the target).
        # The decoded sequence is read by position, since the document names qubits by strings.
        c = core(2 if quick else 3)
        c.devs[0]["intids"] = True
        c.calls[2] = dict(c.calls[2], it=2)
        c.name = f"rel_core-intids-d{c.max_depth}"
        c.relations = True
        return [c]
    if name == "mappable":
        c = mappable(3 if quick else 4)
        c.name = f"mappable-d{c.max_depth}"
        return [c]
    if name == "template":
        c = template(3)
        c.name = "template-d3"
        if quick:
            return [c]
        return [c] + with_prefixes(lambda: template(3), "template", 5, _seed0())
    if name == "ham":
        out = []
        for c in instances("render", tier):
            if c.name.startswith("render_eom"):
                continue
            c.name = c.name.replace("render_", "ham_")
            c.ham = True
            out.append(c)
        return out
    if name == "render":
        a = render_ising(3 if quick else 4)
        a.name = f"render_ising-d{a.max_depth}"
        b = render_xy(3 if quick else 4)
        b.name = f"render_xy-d{b.max_depth}"
        a2 = render_ising(3, dmm_first=True)
        a2.name = "render_ising_dmmfirst-d3"
        b2 = render_xy(3, masked=True)
        b2.name = "render_xy_masked-d3"
        out = [a, a2, b, b2]
        for buf in (None, 240):
            c = eom(3, custom_buf=buf)
            c.name = f"render_eom-b{buf or 0}-d3"
            c.render = True
            out.append(c)
            if not quick:
                for pc in with_prefixes(lambda: eom(3, custom_buf=buf), f"render_eom-b{buf or 0}", 3, _seed0()):
                    pc.render = True
                    out.append(pc)
        # an EOM that is SLOWER than the channel's own modulation (legal): the EOM-modulated part of the output
        # is then the longer one
        c = eom(3, chbw=40.0, ebw=8.0)
        c.name = "render_eom-slow-d3"
        c.render = True
        out.append(c)
        return out
    if name == "phases":
        a = phases(3)
        a.name = "phases-exact-d3"
        b = phases(3, wrap=True)
        b.name = "phases-wrap-d3"
        if quick:
            return [a, b]
        return [a, b] + with_prefixes(lambda: phases(3), "phases-exact", 4, _seed0()) \
            + with_prefixes(lambda: phases(3, wrap=True), "phases-wrap", 4, _seed0())
    if name == "phasejump":
        c = phasejump(3 if quick else 4)
        c.name = f"{name}-d{c.max_depth}"
        return [c]
    if name == "randsched":
        from .env import seed as _seed
        base = _seed() * 1000
        out = []
        for j in range(3 if quick else 16):
            c = randsched(base + j, 3)
            c.name = f"randsched-s{base + j}-d3"
            out.append(c)
        return out
    if name == "typestate":
        c = typestate(3)
        c.name = "typestate-d3"
        if quick:
            return [c]
        return [c] + with_prefixes(lambda: typestate(3), "typestate", 6, _seed0())
    if name == "eomdrift":
        out = []
        for buf in (None, 240):
            c = eom(3, custom_buf=buf, micro=True)
            c.name = f"eomdrift-b{buf or 0}-d3"
            out.append(c)
            if buf is None:
                # from inside an EOM block with a non-zero off-detuning, after one drift-corrected pulse:
                # what a wait does to the phase of the next pulse (and so to the phase-jump buffer)
                c = eom(3, custom_buf=buf, micro=True)
                on = [k + 1 for k, x in enumerate(c.calls) if x["op"] == "eom_on" and x["sp"] == 2 and not x["cpd"]][0]
                ad = [k + 1 for k, x in enumerate(c.calls) if x["op"] == "eom_add" and x["dur"] == 16 and x["cpd"]
                      and x["pps"] == 0][0]
                c.init_calls = list(c.init_calls) + [on, ad]
                c.name = "eomdrift-b0-inblock-d3"
                out.append(c)
            if not quick:
                out += with_prefixes(lambda: eom(3, custom_buf=buf, micro=True), f"eomdrift-b{buf or 0}", 4,
                                     _seed0())
        return out
    if name == "eom":
        out = []
        for buf in (None, 240):
            c = eom(3 if quick else 4, custom_buf=buf)
            c.name = f"eom-b{buf or 0}-d{c.max_depth}"
            out.append(c)
        # a custom phase-jump time larger than twice the rise time, also honoured in EOM mode
        c = eom(3, cpjt=400)
        c.name = "eom-pjt400-d3"
        out.append(c)
        # a custom buffer shorter than twice the rise time
        c = eom(3, custom_buf=48)
        c.name = "eom-b48-d3"
        out.append(c)
        return out
    raise KeyError(name)


def by_tag(tag):
    fam = tag.split("-")[0]
    if "-p" in tag and "x" in tag.split("-p")[-1]:
        sd, j = tag.split("-p")[-1].split("-d")[0].split("x")
        os.environ["VERIF_SEED"] = sd
        fams = [fam, "render", "eomdrift", "phases"]
        for f in fams:
            try:
                for c in instances(f.split("_")[0] if f.startswith("render_") else f, "thorough"):
                    if c.name == tag:
                        return c
            except KeyError:
                pass
        raise KeyError(tag)
    if tag.startswith("rel_"):
        for tier in ("quick", "thorough"):
            for c in instances("rel", tier) + instances("relids", tier):
                if c.name == tag:
                    return c
        raise KeyError(tag)
    if tag.startswith("ham_"):
        c = by_tag(tag.replace("ham_", "render_"))
        c.name = tag
        c.ham = True
        return c
    if tag.startswith("render_"):
        d = int(tag.split("-d")[-1])
        if tag.startswith("render_ising"):
            c = render_ising(d, dmm_first="dmmfirst" in tag)
        elif tag.startswith("render_xy"):
            c = render_xy(d, masked="masked" in tag)
        elif "slow" in tag:
            c = eom(d, chbw=40.0, ebw=8.0)
            c.render = True
        else:
            c = eom(d, custom_buf=240 if "b240" in tag else None)
            c.render = True
        c.name = tag
        return c
    if tag.startswith("phases-"):
        c = phases(int(tag.split("-d")[-1]), wrap="wrap" in tag)
        c.name = tag
        return c
    if tag.startswith("eom-b48"):
        c = eom(3, custom_buf=48)
        c.name = tag
        return c
    if tag.startswith("eom-pjt400"):
        c = eom(3, cpjt=400)
        c.name = tag
        return c
    if tag.startswith("limits-virtual"):
        c = limits(2, virtual=True)
        c.name = tag
        return c
    if tag.startswith("fine-seeded"):
        c = fine(int(tag.split("-d")[-1]), seeded=True, seed_nm=3 if tag.startswith("fine-seeded3") else 1)
        c.name = tag
        return c
    if fam == "randsched":
        sd = int(tag.split("-")[1][1:])
        c = randsched(sd, int(tag.split("-d")[-1]))
        c.name = tag
        return c
    for tier in ("quick", "thorough"):
        for c in instances(fam, tier):
            if c.name == tag:
                return c
    raise KeyError(tag)

