"""pytest plugin (lives in /verif, nothing in /repo is touched): records every Sequence the
repository's tests build against the working tree and, at the end of the session (per xdist
worker), lets TLC validate the recorded traces.  The result is written as JSON to the file named
by VERIF_TRACE_REPORT (suffix .<worker> under xdist)."""
import json
import os

import pytest

from . import record

_current = {"test": None}


def pytest_configure(config):
    record.install()


@pytest.hookimpl(tryfirst=True)
def pytest_runtest_setup(item):
    _current["test"] = item.nodeid
    record.CURRENT_ORIGIN[0] = item.nodeid


def pytest_sessionfinish(session, exitstatus):
    from . import tracecheck
    worker = os.environ.get("PYTEST_XDIST_WORKER", "main")
    if worker == "main" and os.environ.get("PYTEST_XDIST_WORKER_COUNT"):
        return
    path = os.environ.get("VERIF_TRACE_REPORT")
    if not path:
        return
    work = os.environ.get("VERIF_TRACE_WORK", "/verif/.work/rec") + f"/{worker}"
    summ, reports = tracecheck.validate(record.TRACES, work, max_group=400)
    dead = {}
    for t in record.TRACES:
        if t.dead:
            dead[t.dead] = dead.get(t.dead, 0) + 1
    ops = {}
    for t in record.TRACES:
        for s in t.steps:
            op = t.calls[s["k"] - 1]["op"]
            ops[op] = ops.get(op, 0) + 1
    samples = []
    for t in record.TRACES:
        if len(t.steps) >= 5 and len(samples) < 3:
            samples.append({"origin": t.origin, "calls": [t.calls[s["k"] - 1] for s in t.steps[:8]],
                            "outs": [s["out"] for s in t.steps[:8]]})
    with open(f"{path}.{worker}", "w") as fh:
        json.dump({"summary": {"traces": summ["traces"], "lines": summ["lines"], "tlc_states": summ["tlc_states"],
                               "errors": [str(e)[:400] for e in summ["errors"]],
                               "sequences_seen": len(record.TRACES), "prefix_ended_by": dead, "ops": ops},
                   "reports": reports, "samples": samples}, fh, default=str)
