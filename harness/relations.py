"""Relations between a sequence and what is derived from it (implementation vs implementation),
evaluated on every state TLC generated once the state itself conforms to the model:
C04  to_abstract_repr: schema-valid (own jsonschema call) and from_abstract_repr gives the same
     sequence (for a parametrized one: the same built sequence for every assignment);
     the legacy _serialize/_deserialize pair likewise;
C09  build() of a non-parametrized sequence, switch_register(same register) and the round trips
     reproduce the timeline (the state is the effect of the recorded calls); read-only operations
     (str, sample, draw, serialise) leave the sequence unchanged;
C18  switch_register keeps the timeline when ids and targets are unchanged."""
import json
import os
import warnings

from .env import REPO, assert_tree

assert_tree()
import jsonschema  # noqa: E402
from pulser import Sequence  # noqa: E402

from . import project as P  # noqa: E402
from . import devices as D  # noqa: E402
from .replay import classify  # noqa: E402
from .template import _strip  # noqa: E402

_SCHEMA = None


def _resolver():
    global _SCHEMA
    if _SCHEMA is None:
        d = os.path.join(REPO, "pulser-core", "pulser", "json", "abstract_repr", "schemas")
        store = {}
        main = None
        for f in os.listdir(d):
            if f.endswith(".json"):
                with open(os.path.join(d, f)) as fh:
                    doc = json.load(fh)
                store[f] = doc
                if "$id" in doc:
                    store[doc["$id"]] = doc
                if f == "sequence-schema.json":
                    main = doc
        from referencing import Registry, Resource
        reg = Registry()
        for k, doc in store.items():
            try:
                reg = reg.with_resource(uri=k, resource=Resource.from_contents(doc))
            except Exception:  # noqa: BLE001
                pass
        _SCHEMA = (main, reg)
    return _SCHEMA


def schema_errors(doc):
    main, reg = _resolver()
    cls = jsonschema.validators.validator_for(main)
    v = cls(main, registry=reg)
    return [e.message[:160] for e in list(v.iter_errors(doc))[:3]]


def _same(a, b, cfg):
    return P.diff(_strip(a), _strip(b), cfg.ptol, cfg.phase_mod, "seq")


def _dctx(ctx, seq):
    """Context for a sequence decoded from the abstract representation: the document names qubits by
    strings, so with non-string ids the decoded register is read by position (same order, ids as the
    decoded register has them).  With the default string ids this is ctx itself."""
    if ctx.qids is None:
        return ctx
    import copy
    c = copy.copy(ctx)
    c.qids = list(seq.register.qubit_ids)
    return c


def check_relations(cfg, run, ctx, proj):
    """Returns list of (pred, detail)."""
    out = []
    seq = run.seq
    param = not proj["bld"]
    assigns = getattr(cfg, "assignments", None) or [None]

    def built(s, a):
        with warnings.catch_warnings():
            warnings.simplefilter("ignore")
            return s.build(**a) if a is not None else s

    # ---------------- C04 abstract representation
    try:
        with warnings.catch_warnings():
            warnings.simplefilter("ignore")
            txt = seq.to_abstract_repr(skip_validation=True)
        errs = schema_errors(json.loads(txt))
        if errs:
            out.append(("C04.SchemaValid", {"clause": "schema", "errors": errs}))
        with warnings.catch_warnings():
            warnings.simplefilter("ignore")
            seq2 = Sequence.from_abstract_repr(txt)
        if not param:
            why = _same(P.project(seq2, _dctx(ctx, seq2)), proj, cfg)
            if why:
                out.append(("C04.AbstractRoundTrip", {"clause": "differs", "why": why[:200]}))
                out.append(("C09.RoundTripReproduces", {"clause": "abstract", "why": why[:200]}))
        else:
            tb1 = [c.name for c in seq._to_build_calls]
            for a, asg in enumerate(assigns):
                r1 = r2 = None
                try:
                    b1 = built(seq, dict(asg))
                    r1 = "ok"
                except Exception as e:  # noqa: BLE001
                    r1 = classify(e)
                try:
                    b2 = built(seq2, dict(asg))
                    r2 = "ok"
                except Exception as e:  # noqa: BLE001
                    r2 = classify(e)
                if r1 != r2:
                    out.append(("C04.AbstractRoundTrip", {"clause": "build_outcome", "assignment": a,
                                                          "original": r1, "decoded": r2}))
                elif r1 == "ok":
                    why = _same(P.project(b2, _dctx(ctx, b2)), P.project(b1, ctx), cfg)
                    if why:
                        out.append(("C04.AbstractRoundTrip", {"clause": "built_differs", "assignment": a,
                                                              "why": why[:200]}))
    except Exception as e:  # noqa: BLE001
        # documented refusal (outside the quantifier): interpolators other than Pchip / with keywords
        if not (type(e).__name__ == "AbstractReprError" and "only supported for the 'PchipInterpolator'" in str(e)):
            out.append(("C04.AbstractRoundTrip", {"clause": "raises", "exc": type(e).__name__,
                                                  "msg": str(e)[:160], "parametrized": param}))
    # ---------------- C04 legacy JSON
    try:
        with warnings.catch_warnings():
            warnings.simplefilter("ignore")
            seq3 = Sequence._deserialize(seq._serialize())
        if not param:
            why = _same(P.project(seq3, ctx), proj, cfg)
            if why:
                out.append(("C04.LegacyRoundTrip", {"clause": "differs", "why": why[:200]}))
        else:
            for a, asg in enumerate(assigns):
                try:
                    b1 = built(seq, dict(asg))
                except Exception:  # noqa: BLE001
                    continue
                try:
                    b3 = built(seq3, dict(asg))
                except Exception as e:  # noqa: BLE001
                    out.append(("C04.LegacyRoundTrip", {"clause": "build_outcome", "assignment": a,
                                                        "decoded": classify(e)}))
                    continue
                why = _same(P.project(b3, ctx), P.project(b1, ctx), cfg)
                if why:
                    out.append(("C04.LegacyRoundTrip", {"clause": "built_differs", "assignment": a,
                                                        "why": why[:200]}))
    except Exception as e:  # noqa: BLE001
        out.append(("C04.LegacyRoundTrip", {"clause": "raises", "exc": type(e).__name__,
                                            "msg": str(e)[:160], "parametrized": param,
                                            "slice_of_variable": "type slice" in str(e)}))
    # ---------------- C09 / C18 copies
    if not param:
        try:
            with warnings.catch_warnings():
                warnings.simplefilter("ignore")
                cp = seq.build(**(dict(assigns[0]) if assigns[0] is not None else {}))
            why = _same(P.project(cp, ctx), proj, cfg)
            if why:
                out.append(("C09.CopyReproduces", {"clause": "build_copy", "why": why[:200]}))
        except Exception as e:  # noqa: BLE001
            out.append(("C09.CopyReproduces", {"clause": "build_copy_raises", "exc": type(e).__name__,
                                               "msg": str(e)[:160]}))
        try:
            with warnings.catch_warnings():
                warnings.simplefilter("ignore")
                sr = seq.switch_register(D.make_register(run.dev["nq"], ids=ctx.qids))
            why = _same(P.project(sr, ctx), proj, cfg)
            if why:
                out.append(("C18.SwitchRegisterSame", {"clause": "differs", "why": why[:200]}))
                out.append(("C09.CopyReproduces", {"clause": "switch_register", "why": why[:200]}))
        except Exception as e:  # noqa: BLE001
            out.append(("C18.SwitchRegisterSame", {"clause": "raises", "exc": type(e).__name__,
                                                   "msg": str(e)[:160]}))
    # ---------------- C09 read-only operations
    try:
        with warnings.catch_warnings():
            warnings.simplefilter("ignore")
            str(seq)
            if not param:
                from pulser.sampler import sampler
                sampler.sample(seq)
                seq.get_duration()
        after = P.project(seq, ctx)
        why = P.diff(after, proj, cfg.ptol, cfg.phase_mod, "seq")
        if why:
            out.append(("C09.ReadOnly", {"clause": "changed_by_inspection", "why": why[:200]}))
    except Exception as e:  # noqa: BLE001
        out.append(("C09.ReadOnly", {"clause": "inspection_raises", "exc": type(e).__name__,
                                     "msg": str(e)[:160], "parametrized": param}))
    feats = {"measured_then_parametrized": bool(proj["meas"] != "" and not proj["bld"]),
             "xy_with_non_xy_measurement": bool(proj["mode"] == "xy" and proj["meas"] not in ("", "XY"))}
    return [(p_, {**d_, **feats}) for p_, d_ in out]
