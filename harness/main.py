"""Entry point of every check: ./check <ID> [--tier quick|thorough] [--replay file]."""
import argparse
import json
import os
import sys
import time

from .env import assert_tree

assert_tree()
from . import configs, seqcheck, engine  # noqa: E402

# sequence-level properties: predicate prefixes and the configurations they are decided on
SEQ = {
    "C01": (["C01."], ["limits", "randsched", "typestate", "core"]),
    "C02": (["C02."], ["core", "randsched", "eom", "fine", "retarget", "oddmin"]),
    "C03": (["C03."], ["core", "randsched", "eom", "eomdrift", "fine", "phasejump", "localconf", "oddmin"]),
    "C18": (["C18."], ["switch", "rel"]),
    "C04": (["C04."], ["rel", "relids"]),
    "C05": (["C05."], ["ham"]),
    "C06": (["C06."], ["render"]),
    "C07": (["C07."], ["phases", "core", "randsched", "eom", "eomdrift", "phasejump", "typestate"]),
    "C08": (["C08."], ["template", "mappable"]),
    "C09": (["C09."], ["core", "typestate", "randsched", "eom", "limits", "template", "rel"]),
    "C10": (["C10."], ["core", "randsched", "eom", "eomdrift", "fine", "retarget", "phasejump", "oddmin"]),
    "C13": (["C13."], ["typestate", "eom", "template"]),
    "C15": (["C15."], ["eom", "eomdrift", "render"]),
}


RECORDED_FOR = {"C01", "C02", "C03", "C07", "C09", "C10", "C13", "C15"}
EXTRA = {"C19", "C12", "C16", "C17", "C20", "C11", "C14"}


def seq_property(prop, tier):
    t0 = time.time()
    preds, names = SEQ[prop]
    runs = []
    for name in names:
        for cfg in configs.instances(name, tier):
            runs.append((cfg, seqcheck.run_config(prop, preds, cfg, cfg.name)))
    if prop in RECORDED_FOR:
        # code -> spec with the randomized driver: long random programs, recorded and validated by TLC
        runs.append((seqcheck._RecCfg(), seqcheck.run_random(prop, preds, tier)))
    if tier == "thorough" and prop in RECORDED_FOR:
        # code -> spec from an independent source: the repository's own tests, recorded and validated by TLC
        runs.append((seqcheck._RecCfg(), seqcheck.run_recorded(prop, preds)))
    return seqcheck.decide(prop, preds, runs, tier, t0)


def replay(prop, path):
    doc = json.load(open(path))
    if doc["config"] == "randprog":
        from . import randdriver
        tr, summ, reports = randdriver.replay(doc["origin"], os.path.join(engine.WORK, prop, "replay-run"))
        for t in tr:
            for s in t.steps:
                print(json.dumps(t.calls[s["k"] - 1]), "->", s["out"], s["ret"])
        print("verdicts:", [(r["line"], r["drift"], r["v"]) for r in reports], summ["errors"])
        if any(doc["pred"] in r["v"] for r in reports):
            print(f"VIOLATION property={prop} replay={path}")
            return 1
        return 0
    if doc["config"] == "repotests":
        print(f"recorded from {doc.get('origin')}; history: {json.dumps(doc.get('history'))[:2000]}")
        print("re-run with:  ./check", prop, "--tier thorough")
        return 0
    cfg = configs.by_tag(doc["config"])
    tr = engine.record_trace(cfg, doc.get("dev", 1), tuple(doc["history"]))
    res, rep = engine.trace_check(cfg, [tr], os.path.join(engine.WORK, prop, "replay-run"))
    for c, s in zip(doc["calls"], tr["steps"]):
        print(json.dumps(c), "->", s["out"], s["ret"])
    hit = [r for r in rep if doc["pred"] in r["v"]]
    print("verdicts:", rep)
    if hit:
        print(f"VIOLATION property={prop} replay={path}")
        return 1
    return 0


def main():
    ap = argparse.ArgumentParser()
    ap.add_argument("prop")
    ap.add_argument("--tier", default=os.environ.get("VERIF_TIER", "quick"))
    ap.add_argument("--replay")
    a = ap.parse_args()
    if a.replay:
        sys.exit(replay(a.prop, a.replay))
    if a.prop in SEQ:
        sys.exit(seq_property(a.prop, a.tier))
    if a.prop in EXTRA:
        import importlib
        mod = importlib.import_module(f"harness.props.{a.prop}")
        sys.exit(mod.run(a.tier))
    print(f"MACHINERY-FAILURE: no check registered for {a.prop}")
    sys.exit(2)


if __name__ == "__main__":
    try:
        main()
    except SystemExit:
        raise
    except BaseException:  # noqa: BLE001  (a crash of the machinery is not a verdict about the property)
        import traceback
        traceback.print_exc()
        print("MACHINERY-FAILURE: unexpected exception in the harness")
        sys.exit(2)
