"""TLA+ value printing and a streaming TLC runner."""
import json
import os
import re
import shutil
import subprocess
import time

from .env import VERIF, WORK

JAR = "/opt/veriftools/tla/tla2tools.jar"
COMMUNITY = "/opt/veriftools/tla/CommunityModules-deps.jar"


def to_tla(v):
    """Python value -> TLA+ expression (dict -> record, list/tuple -> sequence)."""
    if isinstance(v, bool):
        return "TRUE" if v else "FALSE"
    if isinstance(v, int):
        return str(v)
    if isinstance(v, str):
        return json.dumps(v)
    if isinstance(v, dict):
        if not v:
            raise ValueError("empty record")
        return "[" + ", ".join(f"{k} |-> {to_tla(x)}" for k, x in v.items()) + "]"
    if isinstance(v, (list, tuple)):
        return "<<" + ", ".join(to_tla(x) for x in v) + ">>"
    if isinstance(v, (set, frozenset)):
        return "{" + ", ".join(to_tla(x) for x in sorted(v)) + "}"
    raise TypeError(f"cannot print {type(v)} as TLA+")


def _classpath():
    cp = [JAR]
    d = os.path.dirname(JAR)
    for f in sorted(os.listdir(d)):
        if f.endswith(".jar") and os.path.join(d, f) != JAR:
            cp.append(os.path.join(d, f))
    return ":".join(cp)


class TLCResult:
    def __init__(self):
        self.distinct = 0
        self.generated = 0
        self.depth = 0
        self.ok = False
        self.errors = []
        self.wall = 0.0
        self.cmd = ""
        self.tail = []


def run_tlc(workdir, module, cfg_text, gen_text=None, on_line=None, workers=16,
            extra=(), simulate=None, timeout=3600, deadlock=False, env_extra=None):
    """Copy the static specs next to a generated root module and run TLC on it.

    `gen_text` is the text of the generated root module `module`.tla (or None if
    `module` is a static spec).  Lines printed by PrintT are passed to on_line.
    """
    os.makedirs(workdir, exist_ok=True)
    for f in os.listdir(os.path.join(VERIF, "spec")):
        if f.endswith(".tla"):
            shutil.copy(os.path.join(VERIF, "spec", f), os.path.join(workdir, f))
    if gen_text is not None:
        with open(os.path.join(workdir, module + ".tla"), "w") as fh:
            fh.write(gen_text)
    with open(os.path.join(workdir, module + ".cfg"), "w") as fh:
        fh.write(cfg_text)
    meta = os.path.join(workdir, "states")
    shutil.rmtree(meta, ignore_errors=True)
    cmd = ["java", "-XX:+UseParallelGC", "-Xmx24g", "-cp", _classpath(), "tlc2.TLC",
           "-workers", str(workers), "-metadir", meta, "-noGenerateSpecTE",
           "-config", module + ".cfg"]
    if not deadlock:
        cmd += ["-deadlock"]
    if simulate:
        cmd += ["-simulate", simulate]
    cmd += list(extra) + [module + ".tla"]
    res = TLCResult()
    res.cmd = " ".join(cmd)
    t0 = time.time()
    env = dict(os.environ)
    if env_extra:
        env.update(env_extra)
    proc = subprocess.Popen(cmd, cwd=workdir, stdout=subprocess.PIPE, stderr=subprocess.STDOUT,
                            text=True, bufsize=1 << 20, env=env)
    pat = re.compile(r"(\d+) states generated, (\d+) distinct states found")
    try:
        for line in proc.stdout:
            line = line.rstrip("\n")
            if line.startswith('"') and on_line is not None:
                on_line(line)
                continue
            res.tail.append(line)
            if len(res.tail) > 400:
                del res.tail[:200]
            m = pat.search(line)
            if m:
                res.generated, res.distinct = int(m.group(1)), int(m.group(2))
            if "depth of the complete state graph search is" in line:
                res.depth = int(re.search(r"search is (\d+)", line).group(1))
            if line.startswith("Error:") or "is violated" in line or "Exception" in line:
                res.errors.append(line)
            if time.time() - t0 > timeout:
                proc.kill()
                res.errors.append("timeout")
                break
        proc.wait()
    finally:
        if proc.poll() is None:
            proc.kill()
    res.wall = time.time() - t0
    res.ok = proc.returncode == 0 and not res.errors
    res.returncode = proc.returncode
    shutil.rmtree(meta, ignore_errors=True)
    return res


def unquote_tla_string(line):
    """A TLA+ string printed by PrintT -> Python str."""
    assert line.startswith('"') and line.endswith('"'), line[:80]
    body = line[1:-1]
    return body.replace('\\"', '"').replace("\\\\", "\\")
