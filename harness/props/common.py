"""Shared plumbing of the pure-function property checks ("transcribe the function into TLA+,
let TLC enumerate the input lattice and check the reference's laws, turn every enumerated
point into one implementation test")."""
import json
import os
import shutil
import sys
import time

from ..env import WORK, seed
from .. import evidence, findings
from ..tla import run_tlc, unquote_tla_string


def enumerate_points(prop, tag, module, constants, invariants, workers=16, timeout=3600,
                     prefix="PT|", extra_defs=""):
    """Run TLC on static spec `module` with `constants` (dict name -> TLA+ text) and collect the
    JSON records printed with PrintT(prefix \\o ToJson(...)).  Returns (TLCResult, [records])."""
    work = os.path.join(WORK, prop, tag)
    shutil.rmtree(work, ignore_errors=True)
    pts = []

    def on_line(line):
        if line.startswith('"' + prefix):
            pts.append(json.loads(unquote_tla_string(line)[len(prefix):]))

    gen = (f"---- MODULE MC_{module} ----\nEXTENDS {module}\n{extra_defs}\n"
           + "\n".join(f"G_{k} == {v}" for k, v in constants.items()) + "\n====\n")
    cfg = "SPECIFICATION Spec\n" + ("CONSTANTS\n" if constants else "") \
        + "\n".join(f"  {k} <- G_{k}" for k in constants) + "\n"
    cfg += "".join(f"INVARIANT {i}\n" for i in invariants)
    res = run_tlc(work, f"MC_{module}", cfg, gen, on_line=on_line, workers=workers, timeout=timeout)
    if not res.ok:
        print(f"MACHINERY-FAILURE: TLC failed on {module}/{tag}: {res.errors[:3]}")
        print("\n".join(res.tail[-30:]))
        sys.exit(2)
    return res, pts


class Verdict:
    """Collects violations of one property, classifies them against known findings, writes the
    evidence file and prints the VIOLATION / KNOWN-FINDING lines."""

    def __init__(self, prop, tier):
        self.prop, self.tier, self.t0 = prop, tier, time.time()
        self.viol = []          # (signature dict, detail dict)
        self.known = findings.load()
        self.kf = {}

    def report(self, sig, detail):
        e = findings.match(self.prop, sig, self.known)
        if e is not None:
            self.kf.setdefault(e["id"], [e, 0])[1] += 1
        else:
            self.viol.append((sig, detail))

    def finish(self, coverage, assumptions=(), level="model_checking"):
        for e, n in self.kf.values():
            print(f"KNOWN-FINDING: property={self.prop} {e['id']}: {e['description']} ({n} occurrences)")
        rc = 0
        shutil.rmtree(os.path.join(WORK, self.prop, "replay"), ignore_errors=True)
        if self.viol:
            rc = 1
            d = os.path.join(WORK, self.prop, "replay")
            os.makedirs(d, exist_ok=True)
            seen = set()
            for sig, detail in self.viol:
                s = json.dumps(sig, sort_keys=True, default=str)
                if s in seen:
                    continue
                seen.add(s)
                if len(seen) > 12:
                    break
                path = os.path.join(d, f"v{len(seen)}.json")
                with open(path, "w") as fh:
                    json.dump({"property": self.prop, "signature": sig, "detail": detail}, fh,
                              indent=1, default=str)
                print(f"VIOLATION property={self.prop} replay={path}")
                print(f"  {s[:300]} :: {json.dumps(detail, default=str)[:400]}")
        coverage = dict(coverage)
        coverage["known_findings_hit"] = {e["id"]: n for e, n in self.kf.values()}
        evidence.write(self.prop, self.tier, seed(), level, coverage, time.time() - self.t0,
                       len(self.viol), assumptions)
        return rc
