"""C17: devices, registers, layouts, detuning maps, noise models, emulation configurations and
results round-trip through the abstract representation; NoiseModel <-> SimConfig; active noise
types; no shared state between objects.

References (TLC enumerates them, checks their own laws and prints every lattice point):
  spec/Elision.tla     objects as records of fields with defaults, Ser = elide, Deser = fill
  spec/NoiseTable.tla  noise-type activation table, relevant parameters, JSON and SimConfig round trips
  spec/Aliasing.tla    heap of live objects with Construct / Decode / Serialise / Mutate and the
                       frame condition "a step changes at most the object it targets"
Every printed record is turned into implementation tests on the working tree.

Decision rule.  VIOLATION = the implementation breaks what the statement defines exactly:
  decoded object differs from the ORIGINAL in a field; the document is not valid under the
  published schema; active noise types differ from the reference table; a conversion loses an
  active type / a relevant parameter; an object changes although another one was the target.
Only OBSERVED (counted in the evidence as drift, never an alarm): which optional keys are absent
from a document (the statement does not talk about elision); short_description of devices
(compare=False, not part of the format); the uuid of a decoded observable (identity, not a field).
"""
import dataclasses
import enum
import itertools
import json
import math
import multiprocessing
import os
import time
import uuid as uuidlib
from collections import Counter

import numpy as np

from ..env import REPO, WORK, assert_tree, seed

assert_tree()
import jsonschema  # noqa: E402
from referencing import Registry, Resource  # noqa: E402

import pulser  # noqa: E402
import pulser.math as pm  # noqa: E402
from pulser import NoiseModel, Register, Register3D, Sequence  # noqa: E402
from pulser.backend.config import EmulationConfig  # noqa: E402
from pulser.backend.default_observables import (  # noqa: E402
    BitStrings, CorrelationMatrix, Energy, EnergySecondMoment, EnergyVariance, Expectation,
    Fidelity, Occupation)
from pulser.backend.observable import Observable  # noqa: E402
from pulser.backend.operator import Operator, OperatorRepr  # noqa: E402
from pulser.backend.results import Results  # noqa: E402
from pulser.backend.state import State, StateRepr  # noqa: E402
from pulser.channels import DMM, Microwave, Raman, Rydberg  # noqa: E402
from pulser.channels.eom import RydbergBeam, RydbergEOM  # noqa: E402
from pulser.devices import Device, VirtualDevice  # noqa: E402
from pulser.json.abstract_repr.backend import _deserialize_operator, _deserialize_state  # noqa: E402
from pulser.json.abstract_repr.deserializer import (  # noqa: E402
    _deserialize_det_map, _deserialize_device_object)
from pulser.json.abstract_repr.serializer import AbstractReprEncoder  # noqa: E402
from pulser.register.base_register import BaseRegister  # noqa: E402
from pulser.register.register_layout import RegisterLayout  # noqa: E402
from pulser.register.traps import Traps  # noqa: E402
from pulser.register.weight_maps import DetuningMap, WeightMap  # noqa: E402
from pulser_simulation import QutipConfig, QutipOperator, QutipState, SimConfig  # noqa: E402

from ..tla import run_tlc, unquote_tla_string  # noqa: E402
from .common import Verdict, enumerate_points  # noqa: E402

HERE = os.path.dirname(os.path.abspath(__file__))
RED, BLUE = RydbergBeam.RED, RydbergBeam.BLUE

# ------------------------------------------------------------------------------------------------
# the harness's own schema validation (independent of pulser.json.abstract_repr.validation)
# ------------------------------------------------------------------------------------------------
_SCHEMA_DIR = os.path.join(REPO, "pulser-core", "pulser", "json", "abstract_repr", "schemas")
_VALIDATORS = {}


def _validators():
    if _VALIDATORS:
        return _VALIDATORS
    schemas = {}
    for kind in ("device", "sequence", "register", "layout", "noise", "results", "config"):
        with open(os.path.join(_SCHEMA_DIR, f"{kind}-schema.json"), encoding="utf-8") as fh:
            schemas[kind] = json.load(fh)
    reg = Registry([(f"{k}-schema.json", Resource.from_contents(schemas[k]))
                    for k in ("device", "layout", "register", "noise")])
    for kind, sch in schemas.items():
        cls = jsonschema.validators.validator_for(sch)
        cls.check_schema(sch)
        _VALIDATORS[kind] = cls(sch, registry=reg)
    return _VALIDATORS


def schema_error(doc_str, kind):
    """None if the document is valid under the published schema, else a short message."""
    err = next(iter(_validators()[kind].iter_errors(json.loads(doc_str))), None)
    if err is None:
        return None
    return f"{list(err.absolute_path)}: {err.message[:200]}"


# ------------------------------------------------------------------------------------------------
# field-wise canonical projection of implementation objects, and its comparison
# ------------------------------------------------------------------------------------------------
def proj(o, ident=False):
    """Plain nested structure holding EVERY field of o (ident: also identities such as uuids)."""
    P = lambda x: proj(x, ident)  # noqa: E731
    if o is None or isinstance(o, (bool, str)):
        return o
    if isinstance(o, (int, np.integer)):
        return int(o)
    if isinstance(o, (float, np.floating)):
        return float(o)
    if isinstance(o, (complex, np.complexfloating)):
        return complex(o)
    if isinstance(o, enum.Enum):
        return o.name
    if isinstance(o, uuidlib.UUID):
        return str(o)
    if isinstance(o, np.ndarray):
        return P(o.tolist())
    if isinstance(o, pm.AbstractArray):
        return P(o.as_array(detach=True).tolist())
    if isinstance(o, (list, tuple)):
        return [P(x) for x in o]
    if isinstance(o, (set, frozenset)):
        return sorted(P(x) for x in o)
    if isinstance(o, dict):
        return {str(k): P(v) for k, v in o.items()}
    if isinstance(o, Traps):
        # special layouts (TriangularLatticeLayout, ...) are RegisterLayouts with a constructor of
        # their own; the format carries coordinates and slug only and == is defined on those
        cname = "RegisterLayout" if isinstance(o, RegisterLayout) else type(o).__name__
        d = {"__class__": cname, "coords": P(o.sorted_coords), "slug": o.slug}
        if isinstance(o, WeightMap):
            d["weights"] = P(o.sorted_weights)
        d["hash"] = o.static_hash()
        return d
    if isinstance(o, BaseRegister):
        li = o._layout_info
        return {"__class__": type(o).__name__, "ids": [x for x in o.qubit_ids],
                "coords": P(o._coords_arr), "layout": P(o.layout),
                "trap_ids": None if li is None else [int(t) for t in li.trap_ids]}
    if isinstance(o, State):
        d = {"__class__": type(o).__name__, "eigenstates": list(o.eigenstates),
             "n_qudits": o.n_qudits, "amplitudes": P(o._amplitudes)}
        if isinstance(o, QutipState):
            d["vector"] = P(o.to_qobj().full().ravel())
        return d
    if isinstance(o, Operator):
        d = {"__class__": type(o).__name__,
             "eigenstates": None if o._eigenstates is None else list(o._eigenstates),
             "n_qudits": o._n_qudits, "operations": P(o._operations)}
        if isinstance(o, QutipOperator):
            d["matrix"] = P(o.to_qobj().full())
        return d
    if isinstance(o, Observable):
        d = {"__class__": type(o).__name__, "tag": o.tag}
        for k, v in vars(o).items():
            if k == "_uuid":
                if ident:
                    d["uuid"] = str(v)
                continue
            d[k] = P(v)
        return d
    if isinstance(o, EmulationConfig):
        return {"__class__": type(o).__name__,
                "options": {k: P(v) for k, v in o._backend_options.items()}}
    if dataclasses.is_dataclass(o) and not isinstance(o, type):
        d = {"__class__": type(o).__name__}
        for f in dataclasses.fields(o):
            if f.compare:                       # short_description: compare=False, observed only
                d[f.name] = P(getattr(o, f.name))
        return d
    if hasattr(o, "full"):                      # qutip.Qobj (SimConfig.eff_noise_opers)
        return P(o.full())
    raise TypeError(f"proj: unsupported {type(o)}")


def _num(x):
    return isinstance(x, (int, float, complex)) and not isinstance(x, bool)


def diff(a, b, path=(), owner=None):
    """First difference between two projections: (path, owner class, a, b) or None.
    Numbers compare by value (1 == 1.0 == 1+0j), lists and tuples are already lists."""
    if _num(a) and _num(b):
        if a == b or (isinstance(a, float) and isinstance(b, float) and math.isnan(a) and math.isnan(b)):
            return None
        return (path, owner, a, b)
    if isinstance(a, dict) and isinstance(b, dict):
        own = a.get("__class__", owner)
        if set(a) != set(b):
            k = sorted(set(a) ^ set(b))[0]
            return (path + (k,), own, a.get(k, "<absent>"), b.get(k, "<absent>"))
        for k in a:
            r = diff(a[k], b[k], path + (k,), own)
            if r:
                return r
        return None
    if isinstance(a, list) and isinstance(b, list):
        if len(a) != len(b):
            return (path + ("len",), owner, len(a), len(b))
        for i, (x, y) in enumerate(zip(a, b)):
            r = diff(x, y, path + (i,), owner)
            if r:
                return r
        return None
    if type(a) is type(b) and a == b:
        return None
    return (path, owner, a, b)


def all_diff_fields(a, b):
    """Top-level keys of two dict projections whose values differ."""
    return sorted(k for k in set(a) | set(b) if diff(a.get(k, "<absent>"), b.get(k, "<absent>")))


def leaf_name(path):
    """Last component of a difference path, with run-specific uuids masked (stable signatures)."""
    if not path:
        return ""
    last = str(path[-1])
    return "<uuid>" if len(last) == 36 and last.count("-") == 4 else last


def short(x, n=300):
    s = json.dumps(x, default=str)
    return s if len(s) <= n else s[:n] + "..."


# ------------------------------------------------------------------------------------------------
# Elision.tla: value tables (value id -> Python value), in the field order of the spec
# ------------------------------------------------------------------------------------------------
def eom_a():
    return RydbergEOM(mod_bandwidth=40.0, limiting_beam=RED, max_limiting_amp=188.5,
                      intermediate_detuning=2827.5, controlled_beams=(BLUE,))


def eom_b():
    return RydbergEOM(mod_bandwidth=24.0, limiting_beam=BLUE, max_limiting_amp=100.5,
                      intermediate_detuning=700.25, controlled_beams=(RED, BLUE),
                      multiple_beam_control=False, custom_buffer_time=240,
                      blue_shift_coeff=4.0, red_shift_coeff=0.25)


CHAN_COMMON = [
    ("max_abs_detuning", [125.0, None]), ("max_amp", [12.5, None]), ("clock_period", [1, 4]),
    ("min_duration", [1, 16]), ("max_duration", [100000000, 4000, None]),
    ("mod_bandwidth", [None, 4.0]), ("min_avg_amp", [0, 0.5]),
    ("custom_phase_jump_time", [None, 20, 0]),
]
EOM_VALUES = [None, eom_a, eom_b]


def dmm_phys_1():
    return DMM(bottom_detuning=-20.0, total_bottom_detuning=-2000.0, clock_period=4,
               min_duration=16, max_duration=4000)


def dmm_phys_2():
    return DMM(bottom_detuning=-10.0, total_bottom_detuning=-100.0, max_duration=1000,
               mod_bandwidth=4.0)


def lay_a():
    return RegisterLayout([[x, y] for x in (-5, 0, 5) for y in (-5, 0, 5)])


def lay_b():
    return RegisterLayout([[0.0, 0.0], [4.0, 0.0], [8.0, 0.0], [2.0, 3.5], [6.0, 3.5], [4.0, 7.0]],
                          slug="B")


def dev_noise():
    return NoiseModel(relaxation_rate=0.5, p_false_pos=0.125, temperature=50.0, runs=10,
                      samples_per_run=2)


DMM_VALUES = [lambda: (), lambda: (DMM(),), lambda: (dmm_phys_1(),),
              lambda: (dmm_phys_1(), dmm_phys_2())]
DEVICE_COMMON = [
    ("max_sequence_duration", [None, 10000]), ("max_runs", [None, 500]),
    ("optimal_layout_filling", [None, 0.25]), ("max_layout_traps", [None, 200]),
    ("default_noise_model", [None, dev_noise]), ("requires_layout", [False, True]),
    ("min_layout_traps", [1, 4]),
]
FIELDS = {
    "EOM": [("limiting_beam", [RED, BLUE]),
            ("controlled_beams", [(RED,), (BLUE,), (RED, BLUE), (BLUE, RED)]),
            ("multiple_beam_control", [True, False]), ("custom_buffer_time", [None, 240]),
            ("blue_shift_coeff", [1.0, 4.0]), ("red_shift_coeff", [1.0, 0.25])],
    "ChanGlobal": CHAN_COMMON + [("propagation_dir", [None, (1.0, 0.0, 0.0)]),
                                 ("eom_config", EOM_VALUES)],
    "ChanLocal": CHAN_COMMON + [("eom_config", EOM_VALUES), ("min_retarget_interval", [0, 220]),
                                ("fixed_retarget_t", [0, 8]), ("max_targets", [None, 1, 2])],
    "DMM": [("bottom_detuning", [None, -20.0]), ("total_bottom_detuning", [None, -2000.0, -20.0]),
            ("clock_period", [1, 4]), ("min_duration", [1, 16]),
            ("max_duration", [100000000, 4000, None]), ("mod_bandwidth", [None, 4.0]),
            ("min_avg_amp", [0, 0.5]), ("custom_phase_jump_time", [None, 20, 0]),
            ("propagation_dir", [None, (1.0, 0.0, 0.0)])],
    "Device": DEVICE_COMMON + [
        ("dmm_objects", DMM_VALUES), ("accepts_new_layouts", [True, False]),
        ("supports_slm_mask", [False, True]), ("max_layout_filling", [0.5, 0.4]),
        ("interaction_coeff_xy", [None, 3700.0]), ("dimensions", [3, 2]),
        ("rydberg_level", [60, 70]), ("max_atom_num", [25, 80]),
        ("max_radial_distance", [35, 50]), ("min_atom_distance", [4, 0.5]),
        ("channel_ids", [None, "custom"]),
        ("pre_calibrated_layouts", [lambda: (), lambda: (lay_a(),), lambda: (lay_a(), lay_b())])],
    "VirtualDevice": DEVICE_COMMON + [
        ("dmm_objects", DMM_VALUES), ("supports_slm_mask", [False, True]),
        ("max_layout_filling", [0.5, 0.4]), ("interaction_coeff_xy", [None, 3700.0]),
        ("dimensions", [3, 2]), ("rydberg_level", [60, 70]), ("max_atom_num", [None, 25]),
        ("max_radial_distance", [None, 35]), ("min_atom_distance", [0, 4]),
        ("channel_ids", [None, "custom"]), ("reusable_channels", [True, False])],
    "Layout": [("slug", [None, "my-layout"])],
    "Register": [("layout", [None, "layout", "layout+slug"])],
    "DetMap": [("slug", [None, "my-map"])],
    "Obs": [("evaluation_times", [None, (1.0,), (0.0, 0.5, 1.0)]), ("tag_suffix", [None, "a"]),
            ("one_state", [None, "r"]), ("num_shots", [1000, 10])],
    "Config": [("observables", [0, 1, 7]),
               ("default_evaluation_times", [(1.0,), "Full", (0.0, 0.25, 1.0)]),
               ("initial_state", [None, "state"]), ("with_modulation", [False, True]),
               ("interaction_matrix", [None, [[0.0, 1.5], [1.5, 0.0]]]),
               ("prefer_device_noise_model", [False, True]),
               ("noise_model", [NoiseModel, lambda: NoiseModel(relaxation_rate=0.5, dephasing_rate=0.25)]),
               ("extra_option", [None, 3]), ("sampling_rate", [1.0, 0.5])],
    "State": [("eigenstates", [("r", "g"), ("g", "h"), ("r", "g", "h")]), ("n_qudits", [1, 2, 3]),
              ("amplitudes", ["one", "real", "imag", "tiny", "tinier"])],
    "Operator": [("eigenstates", [("r", "g"), ("r", "g", "h")]), ("n_qudits", [2, 3]),
                 ("operations", ["one", "complex", "product", "tiny"])],
    "Results": [("atom_order", [("q0", "q1"), ("b", "a", "c")]), ("total_duration", [100, 1000]),
                ("content", ["empty", "float", "counters", "several", "complex", "complex-tiny"])],
}
# elidable field -> is the key present in the document (None: not observable for this class)
OBS_KINDS = ["bitstrings", "expectation", "fidelity", "occupation", "correlation_matrix", "energy",
             "energy_variance", "energy_second_moment"]


def val(cls, i, vid):
    v = FIELDS[cls][i][1][vid - 1]
    return v() if callable(v) else v


def kw(cls, ids, skip=()):
    return {FIELDS[cls][i][0]: val(cls, i, vid) for i, vid in enumerate(ids)
            if FIELDS[cls][i][0] not in skip}


# ---- builders ---------------------------------------------------------------------------------
def build_eom(b, ids):
    base = [dict(mod_bandwidth=40.0, max_limiting_amp=188.5, intermediate_detuning=2827.5),
            dict(mod_bandwidth=24.0, max_limiting_amp=100.5, intermediate_detuning=700.25)][b - 1]
    return RydbergEOM(**base, **kw("EOM", ids))


def build_channel(cls, b, ids):
    k = kw(cls, ids)
    if cls == "ChanGlobal":
        ccls = [Rydberg, Raman, Microwave][b - 1]
        addressing = "Global"
    else:
        ccls = [Rydberg, Raman][b - 1]
        addressing = "Local"
    eom = k.pop("eom_config")
    if ccls is Rydberg:
        k["eom_config"] = eom
    return ccls(addressing, k.pop("max_abs_detuning"), k.pop("max_amp"), **k)


def build_dmm(b, ids):
    return DMM(**kw("DMM", ids))


def base_channels(cls, b):
    if b in (1, 3):
        if cls == "Device":
            return (Rydberg.Global(125.0, 12.5, max_duration=4000),
                    Raman.Local(100.0, 10.0, max_duration=2000, max_targets=1,
                                min_retarget_interval=220, fixed_retarget_t=8))
        return (Rydberg.Global(None, None), Raman.Local(None, None, max_duration=None))
    return (Rydberg.Global(125.0, 12.5, max_duration=4000, mod_bandwidth=4.0, clock_period=4,
                           min_duration=16, eom_config=eom_b()),
            Rydberg.Local(60.0, 6.25, max_duration=2000, max_targets=2, min_avg_amp=0.5),
            Raman.Global(50.0, 5.0, max_duration=8000, custom_phase_jump_time=20,
                         propagation_dir=(0.0, 1.0, 0.0)),
            Microwave.Global(25.0, 2.5, max_duration=1000, mod_bandwidth=8.0))


def build_device(cls, b, ids):
    k = kw(cls, ids)
    chans = base_channels(cls, b)
    if k.pop("channel_ids") == "custom":
        k["channel_ids"] = tuple(f"ch_{chr(97 + i)}" for i in range(len(chans)))
    k["channel_objects"] = chans
    k["name"] = f"{cls}-{b}"
    return (Device if cls == "Device" else VirtualDevice)(**k)


LAYOUT_COORDS = [
    [[0, 0], [0, 5], [5, 0], [5, 5]],
    [[0.5, -1.25], [3.75, 2.0], [-4.5, 0.125], [6.0, 6.5]],
    [[0.1, 0.2], [1 / 3, 2 ** 0.5], [math.pi, -math.e], [-7.3, 1e-3]],
    [[0, 0, 0], [0, 5, 1.5], [5, 0, -2.25], [1, 1, 1]],
]


def build_layout(b, ids):
    return RegisterLayout(LAYOUT_COORDS[b - 1], slug=val("Layout", 0, ids[0]))


REG_BASES = [  # layout coordinates, chosen traps, qubit ids
    ([[0, 0], [0, 5], [5, 0], [5, 5]], (0, 3), ("x", "y")),
    ([[0.0, 0.0], [0.0, 4.5], [4.5, 0.0], [4.5, 4.5], [9.0, 0.0], [9.0, 4.5]], (5, 0, 3, 1),
     ("q3", "q1", "q0", "q2")),
    ([[0, 0, 0], [0, 5, 1.5], [5, 0, -2.25], [1, 1, 1]], (2, 0), ("u", "v")),
    ([[0, 0], [0, 5], [5, 0], [5, 5]], (1, 2), (0, 1)),
]


def build_register(b, ids):
    coords, traps, qids = REG_BASES[b - 1]
    how = val("Register", 0, ids[0])
    lay = RegisterLayout(coords, slug="reg-layout" if how == "layout+slug" else None)
    if how is None:
        sc = lay.sorted_coords
        cls = Register3D if len(coords[0]) == 3 else Register
        return cls({q: sc[t] for q, t in zip(qids, traps)})
    return lay.define_register(*traps, qubit_ids=qids)


DETMAP_BASES = [([[5, 0], [0, 0], [0, 5]], [0.25, 0.5, 1.0]),
                ([[0.5, -1.25], [3.75, 2.0], [-4.5, 0.125], [6.0, 6.5]], [0.0, 1.0, 0.375, 0.625])]


def build_detmap(b, ids):
    c, w = DETMAP_BASES[b - 1]
    return DetuningMap(c, w, slug=val("DetMap", 0, ids[0]))


def make_state(cls, eig, n, kind):
    s1 = eig[0] * n
    s2 = eig[1] + eig[0] * (n - 1)
    # "tiny" / "tinier": imaginary or real parts far below any closeness tolerance, still exact floats
    amps = {"one": {s1: 1.0}, "real": {s1: 0.6, s2: 0.8}, "imag": {s1: 0.6, s2: 0.8j},
            "tiny": {s1: 0.6 + 5e-9j, s2: 5e-9 + 0.8j},
            "tinier": {s1: 0.6 + 1e-12j, s2: 0.8 - 1e-300j}}[kind]
    return cls.from_state_amplitudes(eigenstates=eig, amplitudes=amps)


def make_operator(cls, eig, n, kind):
    a, c = eig[0], eig[1]
    X = {a + c: 1.0, c + a: 1.0}
    Z = {a + a: 1.0, c + c: -1.0}
    ops = {"one": [(1.0, [(X, [0])])],
           "complex": [(0.5, [({a + a: 1.0}, [0])]), (0.25j, [({c + a: 1.0j, a + c: 2.0}, [1])])],
           "product": [(2.0, [(X, list(range(n - 1))), (Z, [n - 1])])],
           "tiny": [(1.0 + 5e-9j, [({a + c: 5e-9 + 1.0j, c + a: 1e-12j}, [0])]),
                    (-1e-300j, [({a + a: 1.0, c + c: 2.0 - 5e-9j}, [1])])]}[kind]
    return cls.from_operator_repr(eigenstates=eig, n_qudits=n, operations=ops)


def build_obs(b, ids, qutip=False):
    k = kw("Obs", ids)
    scls, ocls = (QutipState, QutipOperator) if qutip else (StateRepr, OperatorRepr)
    common = dict(evaluation_times=k["evaluation_times"], tag_suffix=k["tag_suffix"])
    kind = OBS_KINDS[b - 1]
    if kind == "bitstrings":
        return BitStrings(num_shots=k["num_shots"], one_state=k["one_state"], **common)
    if kind == "expectation":
        return Expectation(make_operator(ocls, ("r", "g"), 2, "complex"), **common)
    if kind == "fidelity":
        return Fidelity(make_state(scls, ("r", "g"), 2, "imag"), **common)
    if kind == "occupation":
        return Occupation(one_state=k["one_state"], **common)
    if kind == "correlation_matrix":
        return CorrelationMatrix(one_state=k["one_state"], **common)
    return {"energy": Energy, "energy_variance": EnergyVariance,
            "energy_second_moment": EnergySecondMoment}[kind](**common)


def build_config(b, ids):
    k = kw("Config", ids)
    qutip = b == 2
    scls, ocls = (QutipState, QutipOperator) if qutip else (StateRepr, OperatorRepr)
    nobs = k.pop("observables")
    obs = []
    if nobs >= 1:
        obs.append(BitStrings(tag_suffix="a", num_shots=10, evaluation_times=(0.5, 1.0)))
    if nobs == 7:
        obs += [Fidelity(make_state(scls, ("r", "g"), 2, "imag")),
                Expectation(make_operator(ocls, ("r", "g"), 2, "complex"), tag_suffix="z"),
                Occupation(one_state="r"), CorrelationMatrix(evaluation_times=(1.0,)), Energy(),
                EnergyVariance(tag_suffix="v")]
    k["observables"] = obs
    if k["initial_state"] == "state":
        k["initial_state"] = make_state(scls, ("r", "g"), 2, "real")
    extra = k.pop("extra_option")
    if extra is not None:
        k["custom_option"] = extra
    sr = k.pop("sampling_rate")
    if qutip:
        k["sampling_rate"] = sr
        k.pop("interaction_matrix")
        return QutipConfig(**k)
    return EmulationConfig(**k)


def build_state(b, ids):
    k = kw("State", ids)
    return make_state(QutipState if b == 2 else StateRepr, k["eigenstates"], k["n_qudits"],
                      k["amplitudes"])


def build_operator(b, ids):
    k = kw("Operator", ids)
    return make_operator(QutipOperator if b == 2 else OperatorRepr, k["eigenstates"], k["n_qudits"],
                         k["operations"])


def fill_results(res, content):
    if content == "empty":
        return res
    if content == "float":
        res._store(observable=Energy(), time=1.0, value=0.25)
    elif content == "counters":
        o = BitStrings()
        res._store(observable=o, time=0.5, value=Counter({"01": 3, "10": 7}))
        res._store(observable=o, time=1.0, value=Counter({"00": 5, "11": 5}))
    elif content == "several":
        o1, o2, o3 = Occupation(), Energy(tag_suffix="e"), CorrelationMatrix()
        for t in (0.0, 0.5, 1.0):
            res._store(observable=o1, time=t, value=[t, 1.0 - t, 0.125])
            res._store(observable=o2, time=t, value=-2.5 * t)
        res._store(observable=o3, time=1.0, value=[[1.0, 0.5], [0.5, 0.25]])
    elif content == "complex":
        res._store(observable=Expectation(make_operator(OperatorRepr, ("r", "g"), 2, "one")),
                   time=1.0, value=0.5 + 0.25j)
    elif content == "complex-tiny":
        o = Expectation(make_operator(OperatorRepr, ("r", "g"), 2, "one"))
        for t, v in ((0.25, 1.0 + 5e-9j), (0.5, 5e-9 + 1.0j), (0.75, 1e-12j), (1.0, -1e-300j)):
            res._store(observable=o, time=t, value=v)
    return res


def build_results(b, ids):
    k = kw("Results", ids)
    return fill_results(Results(atom_order=k["atom_order"], total_duration=k["total_duration"]),
                        k["content"])


# ---- one round trip per class ---------------------------------------------------------------
class Out:
    """What a worker hands back: reports, number of assertions, drift observations."""

    def __init__(self):
        self.reports, self.tests, self.drift, self.public = [], 0, [], 0

    def report(self, sig, detail):
        self.reports.append((sig, detail))


def compare_objects(out, cls, pt, orig, back, extra_sig=None, eq=True, strids=False):
    """Decoded object vs ORIGINAL: field-wise and with the class's own ==."""
    po, pb = proj(orig), proj(back)
    if strids:      # documented: qubit ids are irreversibly converted to strings
        po["ids"] = [str(x) for x in po["ids"]]
    out.tests += 1
    d = diff(po, pb)
    sig = {"clause": "roundtrip_equal", "cls": cls}
    if extra_sig:
        sig.update(extra_sig)
    if d is not None:
        path, owner, x, y = d
        sig.update({"field": str(next((p for p in path if isinstance(p, str)), "")),
                    "leaf": leaf_name(path), "owner": owner, "decoded": type(y).__name__})
        out.report(sig, {"point": pt, "path": list(path), "original": short(x), "decoded": short(y)})
        return False
    if eq and not strids:
        out.tests += 1
        try:
            same = bool(orig == back)
        except Exception as e:  # noqa: BLE001
            same = f"{type(e).__name__}: {e}"
        if same is not True:
            sig.update({"field": "__eq__"})
            out.report(sig, {"point": pt, "eq": same})
            return False
    return True


def check_schema(out, cls, pt, doc, kind, extra_sig=None):
    out.tests += 1
    err = schema_error(doc, kind)
    if err:
        sig = {"clause": "schema_valid", "cls": cls, "schema": kind}
        if extra_sig:
            sig.update(extra_sig)
        out.report(sig, {"point": pt, "error": err})
        return False
    return True


def call(out, cls, pt, stage, fn, extra_sig=None):
    """Run one stage of the round trip; an exception is a violation of that stage."""
    try:
        return True, fn()
    except Exception as e:  # noqa: BLE001
        sig = {"clause": stage, "cls": cls, "exc": type(e).__name__}
        if extra_sig:
            sig.update(extra_sig)
        msg = str(e)
        if "is not valid under any of the given schemas" in msg or "Additional properties" in msg:
            sig["exc"] = "ValidationError"
        out.report(sig, {"point": pt, "error": msg[:400]})
        return False, None


def drift(out, cls, pt, names_present):
    """Observation only: absent optional keys vs the model's Ser()."""
    gone = pt["gone"]
    for i, (name, _) in enumerate(FIELDS[cls]):
        if name in names_present and bool(gone[i]) == bool(names_present[name]):
            out.drift.append((cls, name, pt["a"], "model absent" if gone[i] else "model present"))


def carrier_roundtrip(out, cls, pts):
    """Channel-level classes travel inside a VirtualDevice (their only public route)."""
    objs = []
    for pt in pts:
        b, ids = pt["b"], pt["a"]
        ok, o = call(out, cls, pt, "construct", lambda: (
            build_eom(b, ids) if cls == "EOM" else build_dmm(b, ids) if cls == "DMM"
            else build_channel(cls, b, ids)))
        if ok:
            objs.append((pt, o))
    if not objs:
        return
    if cls == "EOM":
        chans = tuple(Rydberg.Global(125.0, 12.5, mod_bandwidth=4.0, eom_config=o) for _, o in objs)
        dmms = (DMM(),)
    elif cls == "DMM":
        chans = (Rydberg.Global(None, None),)
        dmms = tuple(o for _, o in objs)
    else:
        chans = tuple(o for _, o in objs)
        dmms = (DMM(),)
    batch = {"c": cls, "batch": [p["a"] for p, _ in objs][:3]}
    ok, dev = call(out, cls, batch, "construct", lambda: VirtualDevice(
        name="carrier", dimensions=3, rydberg_level=60, channel_objects=chans,
        channel_ids=tuple(f"c{i}" for i in range(len(chans))), dmm_objects=dmms,
        interaction_coeff_xy=3700.0))
    if not ok:
        return
    ok, doc = call(out, cls, batch, "serialise", dev.to_abstract_repr)
    if not ok:
        if len(pts) > 1:                       # find the culprit
            for pt in pts:
                carrier_roundtrip(out, cls, [pt])
        return
    out.public += 1
    if not check_schema(out, cls, batch, doc, "device") and len(pts) > 1:
        for pt in pts:
            carrier_roundtrip(out, cls, [pt])
        return
    ok, dev2 = call(out, cls, batch, "deserialise", lambda: VirtualDevice.from_abstract_repr(doc))
    if not ok:
        if len(pts) > 1:
            for pt in pts:
                carrier_roundtrip(out, cls, [pt])
        return
    d = json.loads(doc)
    back_list = dev2.dmm_objects if cls == "DMM" else dev2.channel_objects
    docs = d.get("dmm_objects", []) if cls == "DMM" else d["channels"]
    if len(back_list) != len(objs):
        out.report({"clause": "roundtrip_equal", "cls": cls, "field": "count"},
                   {"point": batch, "n": len(objs), "decoded": len(back_list)})
        return
    for (pt, o), o2, cd in zip(objs, back_list, docs):
        if cls == "EOM":
            compare_objects(out, cls, pt, o, o2.eom_config)
            drift(out, cls, pt, {n: n in cd["eom_config"] for n, _ in FIELDS[cls]})
        else:
            compare_objects(out, cls, pt, o, o2)
            drift(out, cls, pt, {n: n in cd for n, _ in FIELDS[cls]})


def device_roundtrip(out, cls, pt):
    b, ids = pt["b"], pt["a"]
    dcls = Device if cls == "Device" else VirtualDevice
    nodmm = cls == "VirtualDevice" and ids[FIELD_IDX[cls]["dmm_objects"]] == 1
    xs = {"no_dmm": nodmm}
    ok, dev = call(out, cls, pt, "construct", lambda: build_device(cls, b, ids), xs)
    if not ok:
        return
    # public route (to_abstract_repr / from_abstract_repr; 2 x 35 ms of jsonschema.check_schema inside
    # the library) on the points flagged by run(); the other points call what those two functions call
    # (the encoder, the device decoder) and rely on the harness's own schema validation below
    public = pt.get("pub", True)
    ok, doc = call(out, cls, pt, "serialise",
                   dev.to_abstract_repr if public else (lambda: json.dumps(dev, cls=AbstractReprEncoder)), xs)
    if not ok:
        return
    out.public += 1 if public else 0
    check_schema(out, cls, pt, doc, "device", xs)
    ok, dev2 = call(out, cls, pt, "deserialise",
                    (lambda: dcls.from_abstract_repr(doc)) if public
                    else (lambda: _deserialize_device_object(json.loads(doc))), xs)
    if not ok:
        return
    out.tests += 1
    if type(dev2) is not dcls:
        out.report({"clause": "roundtrip_equal", "cls": cls, "field": "__class__"},
                   {"point": pt, "decoded": type(dev2).__name__})
        return
    compare_objects(out, cls, pt, dev, dev2, xs)
    # the model's prediction of the decoded object (Deser(Ser(x))): drift if the code decodes
    # something else than the documented defaults say
    if pt["rt"] != ids:
        exp = build_device(cls, b, pt["rt"])
        if diff(proj(exp), proj(dev2)) is not None:
            out.drift.append((cls, "decoded-vs-model", ids, "decoded object differs from Deser(Ser(x))"))
    d = json.loads(doc)
    drift(out, cls, pt, {n: n in d for n, _ in FIELDS[cls] if n != "channel_ids"})


def simple_roundtrip(out, cls, pt):
    b, ids = pt["b"], pt["a"]
    if cls == "Layout":
        ok, o = call(out, cls, pt, "construct", lambda: build_layout(b, ids))
        if not ok:
            return
        ok, doc = call(out, cls, pt, "serialise", o.to_abstract_repr)
        if not ok:
            return
        check_schema(out, cls, pt, doc, "layout")
        ok, o2 = call(out, cls, pt, "deserialise", lambda: RegisterLayout.from_abstract_repr(doc))
        if ok:
            compare_objects(out, cls, pt, o, o2)
            out.tests += 1
            if hash(o) != hash(o2):
                out.report({"clause": "roundtrip_equal", "cls": cls, "field": "__hash__"}, {"point": pt})
            drift(out, cls, pt, {"slug": "slug" in json.loads(doc)})
    elif cls == "Register":
        ok, o = call(out, cls, pt, "construct", lambda: build_register(b, ids))
        if not ok:
            return
        ok, doc = call(out, cls, pt, "serialise", o.to_abstract_repr)
        if not ok:
            return
        check_schema(out, cls, pt, doc, "register")
        rcls = Register3D if isinstance(o, Register3D) else Register
        ok, o2 = call(out, cls, pt, "deserialise", lambda: rcls.from_abstract_repr(doc))
        if ok:
            compare_objects(out, cls, pt, o, o2, strids=(b == 4))
            drift(out, cls, pt, {"layout": "layout" in json.loads(doc)})
    elif cls == "DetMap":
        ok, o = call(out, cls, pt, "construct", lambda: build_detmap(b, ids))
        if not ok:
            return
        # route 1: the encoder and the decoder of the format
        ok, doc = call(out, cls, pt, "serialise", lambda: json.dumps(o, cls=AbstractReprEncoder))
        if not ok:
            return
        ok, o2 = call(out, cls, pt, "deserialise", lambda: _deserialize_det_map(json.loads(doc)))
        if ok:
            compare_objects(out, cls, pt, o, o2)
            drift(out, cls, pt, {"slug": "slug" in json.loads(doc)})
        # route 2: inside a sequence (the public route; the document is schema-checked as a sequence)
        def through_sequence():
            reg = Register({"a": (0.0, 0.0), "b": (0.0, 5.0)})
            seq = Sequence(reg, pulser.MockDevice)
            seq.config_detuning_map(o, "dmm_0")
            return seq.to_abstract_repr()
        ok, sdoc = call(out, cls, pt, "serialise", through_sequence, {"route": "sequence"})
        if not ok:
            return
        check_schema(out, cls, pt, sdoc, "sequence", {"route": "sequence"})
        ok, seq2 = call(out, cls, pt, "deserialise", lambda: Sequence.from_abstract_repr(sdoc),
                        {"route": "sequence"})
        if ok:
            compare_objects(out, cls, pt, o, seq2._schedule["dmm_0"].detuning_map, {"route": "sequence"})
    elif cls == "Obs":
        kind = OBS_KINDS[b - 1]
        xs = {"observable": kind}
        ok, o = call(out, cls, pt, "construct", lambda: build_obs(b, ids), xs)
        if not ok:
            return
        ok, cfg = call(out, cls, pt, "construct", lambda: EmulationConfig(observables=[o]), xs)
        if not ok:
            return
        ok, doc = call(out, cls, pt, "serialise", lambda: cfg.to_abstract_repr(skip_validation=True), xs)
        if not ok:
            return
        valid = check_schema(out, cls, pt, doc, "config", xs)
        if not valid:
            return                               # the public decoder validates first: it would refuse
        ok, cfg2 = call(out, cls, pt, "deserialise", lambda: EmulationConfig.from_abstract_repr(doc), xs)
        if ok:
            out.tests += 1
            if len(cfg2.observables) != 1:
                out.report({"clause": "roundtrip_equal", "cls": cls, "field": "count", **xs}, {"point": pt})
            else:
                compare_objects(out, cls, pt, o, cfg2.observables[0], xs, eq=False)
    elif cls == "Config":
        ccls = QutipConfig if b == 2 else EmulationConfig
        ok, o = call(out, cls, pt, "construct", lambda: build_config(b, ids))
        if not ok:
            return
        ok, doc = call(out, cls, pt, "serialise", o.to_abstract_repr)
        if not ok:
            return
        out.public += 1
        check_schema(out, cls, pt, doc, "config")
        ok, o2 = call(out, cls, pt, "deserialise", lambda: ccls.from_abstract_repr(doc))
        if ok:
            out.tests += 1
            if type(o2) is not ccls:
                out.report({"clause": "roundtrip_equal", "cls": cls, "field": "__class__"}, {"point": pt})
            compare_objects(out, cls, pt, o, o2, eq=False)
            drift(out, cls, pt, {"extra_option": "custom_option" in json.loads(doc)})
    elif cls in ("State", "Operator"):
        build = build_state if cls == "State" else build_operator
        ok, o = call(out, cls, pt, "construct", lambda: build(b, ids))
        if not ok:
            return
        ccls = QutipConfig if b == 2 else EmulationConfig
        carrier = (lambda: ccls(observables=[Fidelity(o)], initial_state=o)) if cls == "State" \
            else (lambda: ccls(observables=[Expectation(o)]))
        ok, cfg = call(out, cls, pt, "construct", carrier)
        if not ok:
            return
        ok, doc = call(out, cls, pt, "serialise", cfg.to_abstract_repr)
        if not ok:
            return
        check_schema(out, cls, pt, doc, "config")
        ok, cfg2 = call(out, cls, pt, "deserialise", lambda: ccls.from_abstract_repr(doc))
        if ok:
            if cls == "State":
                compare_objects(out, cls, pt, o, cfg2.initial_state, {"via": "initial_state"}, eq=False)
                compare_objects(out, cls, pt, o, cfg2.observables[0].state, {"via": "fidelity"}, eq=False)
            else:
                compare_objects(out, cls, pt, o, cfg2.observables[0].operator, eq=False)
    elif cls == "Results":
        content = val(cls, 2, ids[2])
        xs = {"content": content}
        ok, o = call(out, cls, pt, "construct", lambda: build_results(b, ids), xs)
        if not ok:
            return
        ok, doc = call(out, cls, pt, "serialise", o.to_abstract_repr, xs)
        if not ok:
            return
        check_schema(out, cls, pt, doc, "results", xs)
        ok, o2 = call(out, cls, pt, "deserialise", lambda: Results.from_abstract_repr(doc), xs)
        if ok:
            if compare_objects(out, cls, pt, o, o2, xs):
                out.tests += 1
                getters_ok = (o2.get_result_tags() == o.get_result_tags()
                              and o2.get_tagged_results() == o.get_tagged_results()
                              and all(o2.get_result_times(t) == o.get_result_times(t)
                                      for t in o.get_result_tags()))
                if not getters_ok:
                    out.report({"clause": "roundtrip_equal", "cls": cls, "field": "getters", **xs},
                               {"point": pt})


FIELD_IDX = {c: {n: i for i, (n, _) in enumerate(fl)} for c, fl in FIELDS.items()}
CARRIED = ("EOM", "ChanGlobal", "ChanLocal", "DMM")
BATCH = 10


def elision_job(job):
    cls, pts = job
    out = Out()
    if cls in CARRIED:
        carrier_roundtrip(out, cls, pts)
    else:
        for pt in pts:
            try:
                if cls in ("Device", "VirtualDevice"):
                    device_roundtrip(out, cls, pt)
                else:
                    simple_roundtrip(out, cls, pt)
            except Exception as e:  # noqa: BLE001  (a bug of the harness, not of the tree)
                out.report({"clause": "harness_error", "cls": cls, "exc": type(e).__name__},
                           {"point": pt, "error": repr(e)[:300]})
    return out


# ------------------------------------------------------------------------------------------------
# NoiseTable.tla
# ------------------------------------------------------------------------------------------------
NPARAMS = ["runs", "samples_per_run", "state_prep_error", "p_false_pos", "p_false_neg",
           "temperature", "laser_waist", "amp_sigma", "relaxation_rate", "dephasing_rate",
           "hyperfine_dephasing_rate", "depolarizing_rate", "eff_noise", "with_leakage"]
NTYPES = ["SPAM", "amplitude", "dephasing", "depolarizing", "doppler", "eff_noise", "leakage",
          "relaxation"]
NVALUE = {"runs": 10, "samples_per_run": 2, "state_prep_error": 0.25, "p_false_pos": 0.125,
          "p_false_neg": 0.0625, "temperature": 50.0, "laser_waist": 100.0, "amp_sigma": 0.25,
          "relaxation_rate": 0.5, "dephasing_rate": 0.75, "hyperfine_dephasing_rate": 1.5,
          "depolarizing_rate": 2.0}
OP2A = ((0.0, 1.0), (0.0, 0.0))
OP2B = ((1.0, 0.0), (0.0, -1.0j))
OP3 = ((0.0, 0.0, 1.0), (0.0, 0.5, 0.0), (0.0, 0.0, 0.0))
OP2T = ((1.0 + 5e-9j, 5e-9 + 1.0j), (1e-12j, -1e-300j))    # tiny imaginary / real parts, exact floats
EFF = {2: ((0.5,), (OP2A,)), 3: ((0.5, 0.25), (OP2A, OP2B)), 4: ((0.125,), (OP3,)),
       5: ((0.5,), (OP2T,))}
SIM_NAME = {"state_prep_error": "eta", "p_false_pos": "epsilon", "p_false_neg": "epsilon_prime"}
TYPE_PARAMS = {"SPAM": ["state_prep_error", "p_false_pos", "p_false_neg"],
               "amplitude": ["laser_waist", "amp_sigma"],
               "dephasing": ["dephasing_rate", "hyperfine_dephasing_rate"],
               "depolarizing": ["depolarizing_rate"], "doppler": ["temperature"],
               "relaxation": ["relaxation_rate"]}


def close(x, y, rel=1e-12):
    """Equality up to the float noise of a unit conversion (SimConfig keeps temperature in K)."""
    try:
        ax, ay = np.asarray(x, dtype=complex), np.asarray(y, dtype=complex)
    except (TypeError, ValueError):
        return x == y
    return ax.shape == ay.shape and bool(np.all(np.abs(ax - ay) <= rel * np.maximum(1.0, np.abs(ax))))


def noise_kwargs(a):
    k = {}
    for name, vid in zip(NPARAMS, a):
        if vid == 1:
            continue
        if name == "eff_noise":
            k["eff_noise_rates"], k["eff_noise_opers"] = EFF[vid]
        elif name == "with_leakage":
            k["with_leakage"] = True
        else:
            k[name] = NVALUE[name] if vid == 2 else 0.0
    return k


def ops_of(x):
    return [np.asarray(o.full() if hasattr(o, "full") else o, dtype=complex) for o in x]


def noise_point(out, pt, do_json):
    a = pt["a"]
    kwargs = noise_kwargs(a)
    ok, nm = call(out, "NoiseModel", pt, "construct", lambda: NoiseModel(**kwargs))
    if not ok:
        return
    exp_types = tuple(t for t, f in zip(NTYPES, pt["act"]) if f)
    out.tests += 1
    if tuple(nm.noise_types) != tuple(sorted(exp_types)):
        extra = sorted(set(nm.noise_types) - set(exp_types))
        missing = sorted(set(exp_types) - set(nm.noise_types))
        out.report({"clause": "active_types", "extra": ",".join(extra), "missing": ",".join(missing)},
                   {"kwargs": short(kwargs), "noise_types": list(nm.noise_types), "expected": exp_types})
    # every given, non-neutral parameter is kept on the object
    out.tests += 1
    for name, v in kwargs.items():
        got = getattr(nm, name)
        if not (close(got, v) if name != "eff_noise_opers" else close(ops_of(got), ops_of(v))):
            out.report({"clause": "construct_keeps", "param": name}, {"kwargs": short(kwargs), "got": short(proj(got))})
    rel = [p for p, f in zip(NPARAMS, pt["rel"]) if f]
    # ---- JSON round trip
    if do_json:
        ok, doc = call(out, "NoiseModel", pt, "serialise", nm.to_abstract_repr)
        if ok:
            out.public += 1
            check_schema(out, "NoiseModel", pt, doc, "noise")
            ok, nm2 = call(out, "NoiseModel", pt, "deserialise", lambda: NoiseModel.from_abstract_repr(doc))
            if ok:
                po, pb = proj(nm), proj(nm2)
                out.tests += 2
                fields = all_diff_fields(po, pb)
                if fields or nm != nm2:
                    only_unused_runs = bool(pt["gap"]) and set(fields) <= {"runs", "samples_per_run"} \
                        and bool(fields)
                    out.report({"clause": "roundtrip_equal", "cls": "NoiseModel",
                                "lost_only_unused_runs": only_unused_runs,
                                "field": ",".join(fields) or "__eq__"},
                               {"kwargs": short(kwargs), "fields": fields,
                                "original": {f: po.get(f) for f in fields},
                                "decoded": {f: pb.get(f) for f in fields}})
                elif pt["gap"]:
                    out.drift.append(("NoiseModel", "json-gap", a, "model predicted a lossy round trip"))
    # ---- NoiseModel -> SimConfig -> NoiseModel
    ok, sc = call(out, "NoiseModel", pt, "to_simconfig", lambda: SimConfig.from_noise_model(nm))
    if not ok:
        return
    out.tests += 1
    if set(sc.noise) != set(nm.noise_types):
        out.report({"clause": "simconfig_types", "dir": "noise->sim"},
                   {"kwargs": short(kwargs), "sim": list(sc.noise), "noise_model": list(nm.noise_types)})
    ok, nm3 = call(out, "NoiseModel", pt, "from_simconfig", sc.to_noise_model)
    if not ok:
        return
    out.tests += 1
    if tuple(nm3.noise_types) != tuple(nm.noise_types):
        out.report({"clause": "simconfig_types", "dir": "noise->sim->noise"},
                   {"kwargs": short(kwargs), "back": list(nm3.noise_types), "noise_model": list(nm.noise_types)})
    # an undefined waist is part of an active amplitude noise: it travels as inf and comes back as None
    if "amplitude" in nm.noise_types and nm.laser_waist is None:
        out.tests += 2
        if not (isinstance(sc.laser_waist, float) and math.isinf(sc.laser_waist)):
            out.report({"clause": "simconfig_param", "dir": "noise->sim", "param": "laser_waist"},
                       {"kwargs": short(kwargs), "sim": sc.laser_waist, "noise_model": None})
        if nm3.laser_waist is not None:
            out.report({"clause": "simconfig_param", "dir": "noise->sim->noise", "param": "laser_waist"},
                       {"kwargs": short(kwargs), "back": nm3.laser_waist, "noise_model": None})
    for p in rel:
        names = ["eff_noise_rates", "eff_noise_opers"] if p == "eff_noise" else [p]
        for name in names:
            want = getattr(nm, name)
            out.tests += 2
            if name != "with_leakage":
                got_s = getattr(sc, SIM_NAME.get(name, name))
                if name == "temperature":
                    got_s = got_s * 1e6
                okp = close(ops_of(got_s), ops_of(want)) if name == "eff_noise_opers" else close(got_s, want)
                if not okp:
                    out.report({"clause": "simconfig_param", "dir": "noise->sim", "param": name},
                               {"kwargs": short(kwargs), "sim": short(proj(got_s)), "noise_model": short(proj(want))})
            got_n = getattr(nm3, name)
            okp = close(ops_of(got_n), ops_of(want)) if name == "eff_noise_opers" else close(got_n, want)
            if not okp:
                out.report({"clause": "simconfig_param", "dir": "noise->sim->noise", "param": name},
                           {"kwargs": short(kwargs), "back": short(proj(got_n)), "noise_model": short(proj(want))})


SIM_CUSTOM = {"runs": 7, "samples_per_run": 3, "state_prep_error": 0.25, "p_false_pos": 0.125,
              "p_false_neg": 0.0625, "temperature": 30.0, "laser_waist": 100.0, "amp_sigma": 0.25,
              "relaxation_rate": 0.5, "dephasing_rate": 0.75, "hyperfine_dephasing_rate": 1.5,
              "depolarizing_rate": 2.0}


def sim_point(out, pt):
    import qutip
    a = pt["a"]
    types = tuple(t for t, v in zip(NTYPES, a[:len(NTYPES)]) if v == 2)
    kwargs = {"noise": types}
    for name, vid in zip(NPARAMS, a[len(NTYPES):]):
        if name in ("eff_noise", "with_leakage") or vid == 1:
            continue
        kwargs[SIM_NAME.get(name, name)] = SIM_CUSTOM[name] if vid == 2 else 0.0
    if "eff_noise" in types:
        rates, ops = EFF[4] if "leakage" in types else EFF[3]
        kwargs["eff_noise_rates"] = list(rates)
        kwargs["eff_noise_opers"] = [qutip.Qobj(np.array(o, dtype=complex)) for o in ops]
    ok, sc = call(out, "SimConfig", pt, "construct", lambda: SimConfig(**kwargs))
    if not ok:
        return
    ok, nm = call(out, "SimConfig", pt, "from_simconfig", sc.to_noise_model)
    if not ok:
        return
    kept = {t for t, f in zip(NTYPES, pt["kept"]) if f}
    out.tests += 1
    if set(nm.noise_types) != kept:
        out.report({"clause": "simconfig_types", "dir": "sim->noise",
                    "extra": ",".join(sorted(set(nm.noise_types) - kept)),
                    "missing": ",".join(sorted(kept - set(nm.noise_types)))},
                   {"kwargs": short({k: v for k, v in kwargs.items() if k != "eff_noise_opers"}),
                    "noise_model": list(nm.noise_types), "expected": sorted(kept)})
    ok, sc2 = call(out, "SimConfig", pt, "to_simconfig", lambda: SimConfig.from_noise_model(nm))
    if not ok:
        return
    out.tests += 1
    if set(sc2.noise) != kept:
        out.report({"clause": "simconfig_types", "dir": "sim->noise->sim"},
                   {"kwargs": short({k: v for k, v in kwargs.items() if k != "eff_noise_opers"}),
                    "back": list(sc2.noise), "expected": sorted(kept)})
    for t in sorted(kept):
        if t == "eff_noise":
            out.tests += 2
            if not (close(nm.eff_noise_rates, sc.eff_noise_rates) and close(ops_of(nm.eff_noise_opers), ops_of(sc.eff_noise_opers))
                    and close(sc2.eff_noise_rates, sc.eff_noise_rates) and close(ops_of(sc2.eff_noise_opers), ops_of(sc.eff_noise_opers))):
                out.report({"clause": "simconfig_param", "dir": "sim->noise", "param": "eff_noise"}, {"types": types})
            continue
        for name in TYPE_PARAMS.get(t, []):
            sname = SIM_NAME.get(name, name)
            want = getattr(sc, sname)
            got_n = getattr(nm, name)
            got_s = getattr(sc2, sname)
            if name == "temperature":
                got_n = got_n / 1e6
            if name == "laser_waist" and got_n is None:
                got_n = float("inf")
            out.tests += 2
            if not close(got_n, want):
                out.report({"clause": "simconfig_param", "dir": "sim->noise", "param": name},
                           {"types": types, "sim": want, "noise_model": got_n})
            if not close(got_s, want):
                out.report({"clause": "simconfig_param", "dir": "sim->noise->sim", "param": name},
                           {"types": types, "sim": want, "back": got_s})


def noise_job(job):
    mode, pts, json_every = job
    out = Out()
    for n, pt in enumerate(pts):
        try:
            if mode == "noise":
                noise_point(out, pt, pt["j"])
            else:
                sim_point(out, pt)
        except Exception as e:  # noqa: BLE001
            out.report({"clause": "harness_error", "cls": mode, "exc": type(e).__name__},
                       {"point": pt, "error": repr(e)[:300]})
    return out


# ------------------------------------------------------------------------------------------------
# Aliasing.tla
# ------------------------------------------------------------------------------------------------
def _emu_cfg(ccls, scls, ocls, v):
    if v == 1:
        return ccls(observables=[BitStrings()])
    st = make_state(scls, ("r", "g"), 2, "real")
    kw_ = dict(observables=[Fidelity(st), Expectation(make_operator(ocls, ("r", "g"), 2, "complex"))],
               initial_state=make_state(scls, ("r", "g"), 2, "imag"), custom_list=[1, 2],
               noise_model=NoiseModel(relaxation_rate=0.5))
    return ccls(**kw_)


MAKE = {
    "StateRepr": lambda v: make_state(StateRepr, *[(("r", "g"), 1, "one"), (("r", "g"), 2, "real"), (("g", "h"), 3, "one")][v - 1]),
    "QutipState": lambda v: make_state(QutipState, *[(("r", "g"), 1, "one"), (("r", "g"), 2, "real"), (("g", "h"), 3, "one")][v - 1]),
    "OperatorRepr": lambda v: make_operator(OperatorRepr, ("r", "g"), *[(2, "one"), (3, "product")][v - 1]),
    "QutipOperator": lambda v: make_operator(QutipOperator, ("r", "g"), *[(2, "one"), (3, "product")][v - 1]),
    "NoiseModel": lambda v: [NoiseModel, lambda: NoiseModel(relaxation_rate=0.5, temperature=50.0, runs=10, samples_per_run=2),
                             lambda: NoiseModel(eff_noise_rates=(0.5, 0.25), eff_noise_opers=(OP2A, OP2B))][v - 1](),
    "SimConfig": lambda v: [SimConfig, lambda: SimConfig(noise=("SPAM", "doppler"), eta=0.25, temperature=30.0)][v - 1](),
    "EmulationConfig": lambda v: _emu_cfg(EmulationConfig, StateRepr, OperatorRepr, v),
    "QutipConfig": lambda v: _emu_cfg(QutipConfig, QutipState, QutipOperator, v),
    "Observable": lambda v: [BitStrings, BitStrings, lambda: Occupation(evaluation_times=[0.5, 1.0])][v - 1](),
    "Results": lambda v: fill_results(Results(atom_order=("q0", "q1"), total_duration=100 * v), ["counters", "empty"][v - 1]),
    "Register": lambda v: build_register(v, [1 + v]),
    "Register3D": lambda v: build_register(3, [v]),
    "Layout": lambda v: build_layout(v, [v]),
    "DetuningMap": lambda v: build_detmap(v, [v]),
    "Device": lambda v: build_device("Device", v, [1, 1, 1, 1, 1, 2, 1, [1, 3][v - 1], 1, 1, 1, v, 1, 1, 1, 1, 1, 1, v]),
    "VirtualDevice": lambda v: build_device("VirtualDevice", v, [1, 1, 1, 1, 1, 1, 1, 2, 2, 1, v, 1, 1, 1, 1, 1, 1, 1]),
}


def make_pool(kind, v):
    """Argument objects a user keeps and hands to SEVERAL constructions (operation "A")."""
    if kind in ("EmulationConfig", "QutipConfig"):
        args = dict(observables=[BitStrings(evaluation_times=[0.5, 1.0], num_shots=100),
                                 Occupation(tag_suffix="a")][:v],
                    custom_list=[1, 2], custom_dict={"nsteps": 1000, "tolerances": [1e-6, 1e-8]},
                    noise_model=NoiseModel(p_false_pos=0.125, dephasing_rate=0.25))
        if kind == "EmulationConfig" and v == 2:
            args["interaction_matrix"] = np.array([[0.0, 1.0, 2.0], [1.0, 0.0, 3.0], [2.0, 3.0, 0.0]])
        return args
    # VirtualDevice
    return dict(name=f"pooled-{v}", dimensions=3, rydberg_level=60,
                channel_objects=[Rydberg.Global(None, None), Raman.Local(None, None)][:v],
                dmm_objects=[DMM()])


def make_from_pool(kind, args):
    cls = {"EmulationConfig": EmulationConfig, "QutipConfig": QutipConfig, "VirtualDevice": VirtualDevice}[kind]
    return cls(**args)


def _ser(kind, o):
    if kind in ("StateRepr", "QutipState", "OperatorRepr", "QutipOperator", "DetuningMap"):
        return json.dumps(o, cls=AbstractReprEncoder)
    return o.to_abstract_repr()


def _deser(kind, doc):
    if kind in ("StateRepr", "QutipState"):
        return _deserialize_state(json.loads(doc), StateRepr if kind == "StateRepr" else QutipState)
    if kind in ("OperatorRepr", "QutipOperator"):
        return _deserialize_operator(json.loads(doc), OperatorRepr if kind == "OperatorRepr" else QutipOperator)
    if kind == "DetuningMap":
        return _deserialize_det_map(json.loads(doc))
    cls = {"NoiseModel": NoiseModel, "EmulationConfig": EmulationConfig, "QutipConfig": QutipConfig,
           "Results": Results, "Register": Register, "Register3D": Register3D, "Layout": RegisterLayout,
           "Device": Device, "VirtualDevice": VirtualDevice}[kind]
    return cls.from_abstract_repr(doc)


def _mutate(kind, o, m):
    """Change the object through ITSELF (its mutator, or the mutable values it hands out)."""
    if kind == "Results":
        o._store_raw(uuid=uuidlib.UUID(int=77), tag="late", time=(m + 1) / 4, value=m + 0.5)
    elif kind == "VirtualDevice":
        o.change_rydberg_level(61 + m)
    else:                                   # configurations
        first = o.observables[0]
        first.evaluation_times = [1.0] if m == 0 else [0.25, 1.0]
        if hasattr(first, "num_shots"):
            first.num_shots = 5 + m
        opts = o._backend_options
        if "custom_list" in opts:
            o.custom_list.append(10 + m)
        if "custom_dict" in opts:
            o.custom_dict["nsteps"] = 5000 + m
            o.custom_dict["tolerances"].append(1e-10)


def alias_history(out, h):
    live = []           # [kind, object, snapshot, mutations, built from pooled arguments]
    pool = {}
    for step, (op, x, y) in enumerate(h):
        target = None
        try:
            if op == "C":
                kind = x
                obj = MAKE[x](y)
                live.append([x, obj, None, 0, False])
                target = len(live) - 1
            elif op == "A":
                kind = x
                if (x, y) not in pool:
                    pool[(x, y)] = make_pool(x, y)
                obj = make_from_pool(x, pool[(x, y)])
                live.append([x, obj, None, 0, True])
                target = len(live) - 1
            elif op == "D":
                kind = live[x - 1][0]
                obj = _deser(kind, _ser(kind, live[x - 1][1]))
                live.append([kind, obj, None, live[x - 1][3], False])
                target = len(live) - 1
            elif op == "S":
                kind = live[x - 1][0]
                _ser(kind, live[x - 1][1])
            elif op == "M":
                kind = live[x - 1][0]
                _mutate(kind, live[x - 1][1], live[x - 1][3])
                live[x - 1][3] += 1
                target = x - 1
        except Exception as e:  # noqa: BLE001
            out.report({"clause": "alias_step_raises", "op": op, "kind": kind, "exc": type(e).__name__},
                       {"history": h, "step": step, "error": str(e)[:300]})
            return
        for j, ent in enumerate(live):
            snap = proj(ent[1], ident=True)
            if j == target or ent[2] is None:
                ent[2] = snap
                continue
            out.tests += 1
            d = diff(ent[2], snap)
            if d is not None:
                path, owner, was, now = d
                out.report({"clause": "frame", "op": op, "by_kind": kind, "changed_kind": ent[0],
                            "owner": owner, "leaf": leaf_name(path)},
                           {"history": h, "step": step, "changed_object": j + 1, "path": list(path),
                            "before": short(was), "after": short(now)})
                ent[2] = snap
        # identities: two live observables never share a uuid; a decoded object is a new object
        # (configurations built from the SAME observable instances legitimately carry its uuid)
        if op in ("C", "D") and kind in ("Observable", "EmulationConfig", "QutipConfig"):
            ids = []
            for ent in live:
                if ent[4]:
                    continue
                if ent[0] == "Observable":
                    ids.append(ent[1].uuid)
                elif ent[0] in ("EmulationConfig", "QutipConfig"):
                    ids += [o.uuid for o in ent[1].observables]
            out.tests += 1
            if len(ids) != len(set(ids)):
                out.report({"clause": "shared_identity", "kind": kind}, {"history": h, "step": step})
        if op == "D":
            out.tests += 1
            if live[-1][1] is live[x - 1][1]:
                out.report({"clause": "shared_identity", "kind": kind, "decode_returns_source": True},
                           {"history": h, "step": step})


def alias_job(hists):
    out = Out()
    for h in hists:
        try:
            alias_history(out, h)
        except Exception as e:  # noqa: BLE001
            out.report({"clause": "harness_error", "cls": "aliasing", "exc": type(e).__name__},
                       {"history": h, "error": repr(e)[:300]})
    return out


# ------------------------------------------------------------------------------------------------
# driver
# ------------------------------------------------------------------------------------------------
def run_pool(fn, jobs, V, agg):
    if not jobs:
        return
    nproc = min(16, os.cpu_count() or 4, len(jobs))
    ctx = multiprocessing.get_context("fork")
    with ctx.Pool(nproc) as pool:
        for out in pool.imap_unordered(fn, jobs, chunksize=1):
            for sig, detail in out.reports:
                if sig.get("clause") == "harness_error":
                    print(f"MACHINERY-FAILURE: harness error {sig} {short(detail)}")
                    raise SystemExit(2)
                V.report(sig, detail)
            agg["tests"] += out.tests
            agg["public"] += out.public
            agg["drift"] += out.drift


def chunks(xs, n):
    return [xs[i:i + n] for i in range(0, len(xs), n)]


def simulate_histories(tag, use, depth, num, sd):
    """Seeded random walks of Aliasing.tla (TLC -simulate); returns the maximal histories."""
    work = os.path.join(WORK, "C17", tag)
    pts = []

    def on_line(line):
        if line.startswith('"PT|'):
            pts.append(json.loads(unquote_tla_string(line)[3:]))

    gen = ("---- MODULE MC_AliasingSim ----\nEXTENDS Aliasing\n"
           f"G_Use == {use}\nG_Depth == {depth}\nG_MaxMut == 2\n====\n")
    cfg = ("SPECIFICATION Spec\nCONSTANTS\n  Use <- G_Use\n  Depth <- G_Depth\n  MaxMut <- G_MaxMut\n"
           "INVARIANT Emit\nINVARIANT Frame\nINVARIANT DecodedEqualsSource\nINVARIANT OnlyMutatorsMutate\n")
    # TLC's simulator evaluates the invariants (hence Emit) on EVERY successor of each state of a
    # walk: one walk yields all behaviours that extend its first `depth - 1` steps by one operation
    res = run_tlc(work, "MC_AliasingSim", cfg, gen, on_line=on_line, workers=1,
                  simulate=f"num={num}", extra=["-depth", str(depth + 1), "-seed", str(sd + 1)])
    if not res.ok:
        print(f"MACHINERY-FAILURE: TLC -simulate failed: {res.errors[:3]}")
        print("\n".join(res.tail[-20:]))
        raise SystemExit(2)
    seen, hs = set(), []
    for p in pts:
        k = json.dumps(p["h"])
        if k not in seen:
            seen.add(k)
            hs.append(p["h"])
    return res, hs


ALL_CLASSES = ["EOM", "ChanGlobal", "ChanLocal", "DMM", "Device", "VirtualDevice", "Layout",
               "Register", "DetMap", "Obs", "Config", "State", "Operator", "Results"]
EL_INV = ["Emit", "TypeOK", "RoundTripLaw", "GapIsReal", "RequiredWritten", "OnlyOptionalElided"]
NZ_INV = ["Emit", "ActiveExact", "SetIsRelevant", "JsonRoundTrip", "SimRoundTrip", "SimKeeps"]
AL_INV = ["Emit", "Frame", "DecodedEqualsSource", "OnlyMutatorsMutate"]
RATES = ('"state_prep_error", "p_false_pos", "p_false_neg", "temperature", "amp_sigma", '
         '"relaxation_rate", "dephasing_rate", "hyperfine_dephasing_rate", "depolarizing_rate"')


def tla_set(names):
    return "{" + ", ".join(json.dumps(n) for n in names) + "}"


def run(tier):
    V = Verdict("C17", tier)
    with open(os.path.join(HERE, "C17.findings.json")) as fh:
        V.known += json.load(fh)
    quick = tier != "thorough"
    sd = seed()
    agg = {"tests": 0, "public": 0, "drift": []}
    per_config, samples = [], []
    tot_states = tot_trans = tot_points = 0

    # ---- 1. Elision: three TLC runs (small classes exhaustively; channels; devices)
    groups = [
        ("small", ["EOM", "Layout", "Register", "DetMap", "Obs", "Config", "State", "Operator",
                   "Results"], 6, 99),
        ("channels", ["ChanGlobal", "ChanLocal", "DMM"], 3, 2 if quick else 99),
        ("devices", ["Device", "VirtualDevice"], 3 if quick else 4, 0 if quick else 1),
    ]
    for tag, classes, k, maxdev in groups:
        t0 = time.time()
        res, pts = enumerate_points("C17", f"elision-{tag}", "Elision",
                                    {"Classes": tla_set(classes), "K": str(k), "MaxDev": str(maxdev)},
                                    EL_INV)
        for p in pts:
            if len(p["a"]) != len(FIELDS[p["c"]]) or any(v > len(FIELDS[p["c"]][i][1]) for i, v in enumerate(p["a"])):
                print(f"MACHINERY-FAILURE: value table of {p['c']} does not match spec/Elision.tla: {p}")
                return 2
        jobs = []
        bycls = {}
        for n, p in enumerate(pts):
            p["pub"] = n % (4 if quick else 5) == 0
            bycls.setdefault(p["c"], []).append(p)
        for c, ps in bycls.items():
            jobs += [(c, ch) for ch in chunks(ps, BATCH if c in CARRIED else 6)]
        before = agg["tests"]
        run_pool(elision_job, jobs, V, agg)
        tot_states += res.distinct
        tot_trans += res.generated
        tot_points += len(pts)
        samples += pts[:1]
        per_config.append({"config": f"elision-{tag}", "classes": {c: len(ps) for c, ps in bycls.items()},
                           "K": k, "MaxDev": maxdev, "tlc_distinct": res.distinct, "tlc_s": round(res.wall, 1),
                           "points": len(pts), "assertions": agg["tests"] - before,
                           "wall_s": round(time.time() - t0, 1)})

    # ---- 2. NoiseTable: NoiseModel lattice, then SimConfig lattice
    zero = '{"state_prep_error", "temperature"}' if quick else \
        '{"state_prep_error", "amp_sigma", "temperature", "relaxation_rate"}'
    t0 = time.time()
    res, pts = enumerate_points("C17", "noise", "NoiseTable",
                                {"Mode": '"noise"', "Zeroable": zero, "MaxSet": "99"}, NZ_INV)
    every = 6 if quick else 2
    for n, p in enumerate(pts):
        # JSON route (5 ms of library validation each): every `every`-th point, all points with few
        # parameters given, and a third / half of the points where the model predicts the lossy decode
        given = sum(1 for v in p["a"] if v != 1)
        p["j"] = (n % every == 0 or given <= (2 if quick else 3)
                  or (bool(p["gap"]) and n % (3 if quick else 2) == 0)
                  or (p["a"][12] == 5 and n % 3 == 0))       # operators with tiny imaginary parts
    before = agg["tests"]
    run_pool(noise_job, [("noise", ch, every) for ch in chunks(pts, 200)], V, agg)
    tot_states += res.distinct
    tot_trans += res.generated
    tot_points += len(pts)
    samples += pts[:1]
    per_config.append({"config": "noise-model", "zeroable": zero, "tlc_distinct": res.distinct,
                       "tlc_s": round(res.wall, 1), "points": len(pts),
                       "json_roundtrips": sum(1 for p in pts if p["j"]),
                       "assertions": agg["tests"] - before, "wall_s": round(time.time() - t0, 1)})
    t0 = time.time()
    res, pts = enumerate_points("C17", "simconfig", "NoiseTable",
                                {"Mode": '"sim"', "Zeroable": "{" + RATES + "}", "MaxSet": "1" if quick else "2"},
                                NZ_INV)
    before = agg["tests"]
    run_pool(noise_job, [("sim", ch, 0) for ch in chunks(pts, 400)], V, agg)
    tot_states += res.distinct
    tot_trans += res.generated
    tot_points += len(pts)
    samples += pts[:1]
    per_config.append({"config": "simconfig", "tlc_distinct": res.distinct, "tlc_s": round(res.wall, 1),
                       "points": len(pts), "assertions": agg["tests"] - before,
                       "wall_s": round(time.time() - t0, 1)})

    # ---- 3. Aliasing: exhaustive behaviours + seeded walks
    t0 = time.time()
    depth = 2 if quick else 3
    res, pts = enumerate_points("C17", "aliasing", "Aliasing",
                                {"Use": "DOMAIN KT", "Depth": str(depth), "MaxMut": "2"}, AL_INV)
    hists = [p["h"] for p in pts]
    before = agg["tests"]
    run_pool(alias_job, chunks(hists, 40 if quick else 200), V, agg)
    tot_states += res.distinct
    tot_trans += res.generated
    tot_points += len(hists)
    samples += pts[:1]
    per_config.append({"config": f"aliasing-depth{depth}", "tlc_distinct": res.distinct,
                       "tlc_s": round(res.wall, 1), "behaviours": len(hists),
                       "assertions": agg["tests"] - before, "wall_s": round(time.time() - t0, 1)})
    if quick:       # depth 3 over the kinds that can be changed through themselves / built from shared arguments
        t0 = time.time()
        res, pts = enumerate_points("C17", "aliasing-mutable", "Aliasing",
                                    {"Use": '{"EmulationConfig", "QutipConfig", "Results", "VirtualDevice", "StateRepr"}',
                                     "Depth": "3", "MaxMut": "2"}, AL_INV)
        hists = [p["h"] for p in pts]
        before = agg["tests"]
        run_pool(alias_job, chunks(hists, 100), V, agg)
        tot_states += res.distinct
        tot_trans += res.generated
        tot_points += len(hists)
        per_config.append({"config": "aliasing-mutable-kinds-depth3", "tlc_distinct": res.distinct,
                           "tlc_s": round(res.wall, 1), "behaviours": len(hists),
                           "assertions": agg["tests"] - before, "wall_s": round(time.time() - t0, 1)})
    t0 = time.time()
    wdepth, wnum = (5, 40) if quick else (7, 250)
    res, hists = simulate_histories("aliasing-sim", "DOMAIN KT", wdepth, wnum, sd)
    before = agg["tests"]
    run_pool(alias_job, chunks(hists, 25 if quick else 100), V, agg)
    tot_points += len(hists)
    samples += [{"h": hists[0]}] if hists else []
    per_config.append({"config": f"aliasing-walks-depth{wdepth}", "walks": len(hists), "seed": sd + 1,
                       "tlc_s": round(res.wall, 1), "assertions": agg["tests"] - before,
                       "wall_s": round(time.time() - t0, 1)})

    # ---- 4. not enumerated by TLC: the devices shipped with the library
    before = agg["tests"]
    out = Out()
    builtin = [getattr(pulser.devices, n) for n in sorted(dir(pulser.devices))
               if isinstance(getattr(pulser.devices, n), (Device, VirtualDevice))]
    for dev in builtin:
        pt = {"c": "Builtin", "name": dev.name}
        ok, doc = call(out, "Builtin", pt, "serialise", dev.to_abstract_repr)
        if ok:
            check_schema(out, "Builtin", pt, doc, "device")
            ok, dev2 = call(out, "Builtin", pt, "deserialise", lambda: type(dev).from_abstract_repr(doc))
            if ok:
                compare_objects(out, "Builtin", pt, dev, dev2, {"name": dev.name})
    for sig, detail in out.reports:
        V.report(sig, detail)
    agg["tests"] += out.tests
    per_config.append({"config": "builtin-devices (extra, not enumerated by TLC)",
                       "devices": [d.name for d in builtin], "assertions": agg["tests"] - before})

    dr = Counter((c, n, how) for c, n, _, how in agg["drift"])
    for (c, n, how), cnt in sorted(dr.items()):
        print(f"CONFORMANCE-DRIFT: property=C17 {c}.{n}: {how} ({cnt} points) - observation only")
    cov = {
        "states": tot_states, "transitions": tot_trans,
        "traces_validated_against_impl": tot_points,
        "implementation_assertions": agg["tests"],
        "public_api_documents": agg["public"],
        "samples": samples[:6],
        "exhaustive": True,
        "per_config": per_config,
        "drift_observations": {f"{c}.{n}: {how}": cnt for (c, n, how), cnt in dr.items()},
        "rule": "Elision: per class, every assignment of the elidable fields over their value ids x "
                "at most MaxDev always-written fields away from value id 1 x every base variant "
                "(valid assignments only); NoiseTable: every valid assignment of {not given, given, "
                "given as 0.0 (Zeroable only)} to the 14 NoiseModel parameters, and every subset of "
                "noise types of a SimConfig x at most MaxSet parameters away from the legacy default; "
                "Aliasing: every behaviour of Construct/Decode/Serialise/Mutate of the given depth "
                "over 16 kinds (36 parameter sets; fresh or shared argument objects) plus seeded TLC -simulate walks",
    }
    return V.finish(cov, assumptions=[
        "payload floats are exactly representable or compared by value after Python's exact "
        "float<->JSON round trip; SimConfig stores temperature in K: compared with rtol 1e-12",
        "'equal in every field' = every dataclass field with compare=True, every backend option of a "
        "configuration, every attribute of an observable except its uuid, amplitudes / operations / "
        "eigenstates / n_qudits of states and operators (and their qutip matrices), the stores of "
        "Results; numbers compare by value (1 == 1.0 == 1+0j), tuples and lists as sequences",
        "integer qubit ids are compared after str(): the conversion is documented as irreversible",
        "a noise type is active iff one of its parameters was given a non-neutral value (0.0 / () / "
        "False / None are neutral); SimConfig -> NoiseModel keeps the declared types that have a "
        "non-zero parameter",
        "detuning maps are 2D (the only kind the sequence schema knows)",
    ])
