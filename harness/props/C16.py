"""C16: waveforms and pulses honour their defining contracts.

Reference: spec/Waveforms.tla.  TLC enumerates a lattice of points (one state per point) in
thirteen families, checks the laws of the integer reference itself (scaling is linear in the
defining parameters, a composite is the concatenation and concatenation is associative, python
index / slice normalisation equals its set-theoretic definition, change_duration keeps the
parameters, the phase-reconstruction identity of ArbitraryPhase, ...) and prints the expected
answer of every point; this module turns EVERY printed point into implementation tests on the
working tree.

Decided by the TLC-enumerated reference (exact expected values):
  wf / mul / chdur / eq   constant, ramp, custom, composite (also nested) waveforms: number of
                          samples, values, first / last value, integral; w*k, -w, w/k; change
                          of duration; == against sample-wise equality
  idx / slice             every index and slice (None, negative, out of range) of every class
  interp                  interpolated waveforms AT THEIR DATA POINTS (default and explicit
                          times), also after scaling and change_duration
  pulse                   accept / reject (negative amplitude, unequal lengths), phase and
                          post-phase-shift modulo 2 pi
  (wf, interp, dur, win, pulse also run the clause read_is_pure: after scribbling in place over every
   handle wf.samples / wf[a:b] gives out, all observables are unchanged and equal a fresh twin)
  arb                     Pulse.ArbitraryPhase: phi(t) = phi_c - sum_{k<=t} delta(k) reproduces the
                          phase waveform at every sample (directly and through
                          ChannelSamples.phase_modulation of a sampled sequence)
Only ENUMERATED by TLC, contract evaluated here on the implementation's own samples
(monitored observations, not model checking):
  dur                     every class x every duration 1..N has exactly N finite samples
  win                     Blackman / Kaiser windows integrate to the requested area
  maxval                  from_max_val never exceeds the maximum and is as close as whole ns allow
  phase                   symbolic phase classes next to the wrapping point

Units: parameter p <-> p/4; sample n <-> n/240; phases in pi/4 (see the spec).
"""
import json
import math
import os
from collections import Counter

import numpy as np

from ..env import assert_tree, seed

assert_tree()
import pulser  # noqa: E402
from pulser import Pulse, Sequence, Register  # noqa: E402
from pulser.sampler import sample as sample_seq  # noqa: E402
from pulser.waveforms import (  # noqa: E402
    BlackmanWaveform, CompositeWaveform, ConstantWaveform, CustomWaveform, InterpolatedWaveform,
    KaiserWaveform, RampWaveform, Waveform)

from .common import Verdict, enumerate_points  # noqa: E402

U = 0.25            # real value of one parameter unit
SU = 240.0          # sample units per 1.0
TD = 12.0
NONE = 9999
TWO_PI = 2 * np.pi
FINDINGS = os.path.join(os.path.dirname(os.path.abspath(__file__)), "C16.findings.json")

INVARIANTS = ["Emit", "LawLength", "LawLeafValues", "LawConcat", "LawScaling", "LawIndex", "LawSlice",
              "LawChangeDur", "LawEq", "LawInterp", "LawPulse", "LawArb"]
ALL_FAMS = ["wf", "mul", "idx", "slice", "chdur", "eq", "interp", "dur", "pulse", "phase", "arb",
            "win", "maxval"]


def constants(tier):
    quick = tier != "thorough"
    c = {
        "Vals": "{-6, -1, 0, 3, 8}" if quick else "{-9, -6, -1, 0, 1, 3, 8}",
        "ConstDurs": "{1, 2, 3, 5, 8}" if quick else "{1, 2, 3, 4, 5, 8, 16, 41}",
        "RampDurs": "{1, 2, 3, 4, 5, 6, 7, 11, 13}" if quick else "{1, 2, 3, 4, 5, 6, 7, 11, 13, 16, 21, 31, 61}",
        "CustomVals": "{-3, 0, 2, 5}" if quick else "{-7, -3, 0, 2, 5}",
        "CustomMaxLen": "4" if quick else "5",
        "CompVals": "{-3, 0, 2}",
        "TinyVals": "{-1, 4}" if quick else "{-1, 0, 4}",
        "Factors": "{-4, -3, -1, 1, 2, 4}" if quick else "{-7, -4, -3, -1, 1, 2, 4, 5}",
        "CompFactors": "{-1, 3}" if quick else "{-4, -1, 2, 3}",
        "IdxDurs": "{1, 2, 3, 4, 7}" if quick else "{1, 2, 3, 4, 5, 7, 12, 20}",
        "NewDurs": "{1, 2, 3, 4, 7, 12, 13}" if quick else "{1, 2, 3, 4, 5, 7, 12, 13, 16, 31, 50}",
        "InterpDurs": "{2, 3, 4, 5, 7, 9, 13, 25}" if quick else "{1, 2, 3, 4, 5, 6, 7, 9, 13, 25, 37, 100}",
        "InterpVals": "{-2, 0, 3}" if quick else "{-5, -2, 0, 3}",
        "InterpMaxLen": "4" if quick else "5",
        "InterpNewDurs": "{0, 5, 13}" if quick else "{0, 2, 5, 13, 40}",
        "TimeSets": "{<<0, 12>>, <<0, 6, 12>>, <<0, 3, 12>>, <<3, 9>>, <<0, 4, 8, 12>>, <<2, 12>>, "
                    "<<0, 1, 11, 12>>" + ("" if quick else ", <<0, 5>>, <<1, 6, 7>>, <<0, 2, 7, 9, 12>>") + "}",
        "AllDurMax": "64" if quick else "400",
        "DurVariants": "3",
        "PhaseUnits": "-9..17" if quick else "-25..33",
        "PpsUnits": "{-3, 0, 5, 8}" if quick else "{-17, -8, -3, 0, 5, 8, 11}",
        "PhaseSpecial": '{"tiny_negative", "tiny_positive", "below_2pi", "above_2pi", "huge", "huge_negative", '
                        '"minus_2pi", "minus_zero"}',
        "ArbVals": "{-30, 0, 7, 50}" if quick else "{-30, -4, 0, 7, 50}",
        "ArbMaxLen": "4" if quick else "6",
        "WinDurs": "(1..16) \\cup {25, 40, 101, 400}" if quick else "(1..64) \\cup {101, 400, 1001, 2500}",
        "WinAreas": "{-13, -4, 1, 4, 25}" if quick else "{-50, -13, -4, -1, 1, 4, 13, 25}",
        "Betas": "{0, 2, 14, 40}" if quick else "{0, 1, 2, 5, 14, 25, 40}",
        "MaxVals": "{1, 2, 3, 5, 7, 8, 10, 13, 17, 21, 25, 40, 63, 100, 250}" if quick else "(1..50) \\cup {63, 80, 100, 127, 160, 250, 400}",
        "MaxAreas": "{1, 2, 3, 5, 7, 10, 13, 16, 25, 50, 101}" if quick else "(1..32) \\cup {40, 50, 64, 77, 101, 150, 201}",
        "MaxDur": "3000" if quick else "6000",
    }
    return c


# ------------------------------------------------------------------------------------------------
# helpers

def arr(x):
    """numpy view of an AbstractArray / array-like."""
    if hasattr(x, "as_array"):
        return np.asarray(x.as_array(detach=True), dtype=float)
    return np.asarray(x, dtype=float)


def build(t):
    k = t[0]
    if k == "c":
        return ConstantWaveform(t[1], t[2] * U)
    if k == "r":
        return RampWaveform(t[1], t[2] * U, t[3] * U)
    if k == "u":
        return CustomWaveform([x * U for x in t[1]])
    if k == "m":
        return CompositeWaveform(*[build(c) for c in t[1]])
    raise ValueError(t)


def leaves(wf):
    if isinstance(wf, CompositeWaveform):
        for c in wf.waveforms:
            yield from leaves(c)
    else:
        yield wf


def close(got, exp, atol=1e-9, rtol=1e-9):
    got, exp = np.asarray(got, dtype=float), np.asarray(exp, dtype=float)
    if got.shape != exp.shape:
        return False
    return bool(np.all(np.abs(got - exp) <= atol + rtol * np.abs(exp)))


def circ_close(got, exp, tol=1e-9):
    """Closeness on the circle (angles modulo 2 pi)."""
    d = (np.asarray(got, dtype=float) - np.asarray(exp, dtype=float) + np.pi) % TWO_PI - np.pi
    scale = np.maximum(1.0, np.abs(np.asarray(exp, dtype=float)))
    return bool(np.all(np.abs(d) <= tol * scale))


class Ctx:
    """Collects reports and counts assertions of one chunk of points."""

    def __init__(self):
        self.reports = []
        self.tests = 0
        self.by_clause = Counter()

    def ok(self, cond, sig, detail):
        self.tests += 1
        self.by_clause[sig["clause"]] += 1
        if not cond:
            self.reports.append((sig, detail))
        return bool(cond)

    def finite(self, wf, detail, expected_d=None):
        """Clause 'every waveform has exactly `duration` finite samples'.  Returns the samples
        or None when they are unusable for value comparisons.  A non-finite sample is blamed on
        the first non-finite leaf (class, duration), so that a composite of a broken leaf is
        the same finding as the leaf."""
        s = arr(wf.samples)
        d = wf.duration
        cls = type(wf).__name__
        good = self.ok(len(s) == d and (expected_d is None or d == expected_d) and s.ndim == 1,
                       {"clause": "sample_count", "cls": cls}, {**detail, "len": len(s), "duration": d,
                                                                  "expected": expected_d})
        if np.all(np.isfinite(s)):
            self.ok(True, {"clause": "finite_samples", "cls": cls, "duration": d}, detail)
            return s if good else None
        blame = wf
        for lf in leaves(wf):
            if not np.all(np.isfinite(arr(lf.samples))):
                blame = lf
                break
        sig = {"clause": "finite_samples", "cls": type(blame).__name__, "duration": blame.duration}
        if blame is not wf:
            sig["via"] = cls
        self.ok(False, sig, {**detail, "samples": s.tolist()[:8]})
        return None


def exp_samples(s):
    return np.asarray(s, dtype=float) / SU


# ------------------------------------------------------------------------------------------------
# reading is not an operation: a waveform keeps its `duration` documented samples for every history
# of reads.  The caller scribbles in place over every handle a read gives out (handles that refuse
# writes are ignored); afterwards every observable must be what it was and equal a fresh twin.

HANDLES = [("abstract_array", lambda a: a), ("as_array", lambda a: a.as_array()),
           ("as_array_detach", lambda a: a.as_array(detach=True)), ("np_asarray", lambda a: np.asarray(a))]
PROBE_SLICE_VIEWS = True     # also scribble over what wf[a:b] returns (see C16.NOTES.md, finding 5)


def _scribble(t):
    n = len(t)
    t[0] = 1007.0
    t[n - 1] = -3000.0
    t[n // 2] = 55.5
    if isinstance(t, np.ndarray):
        t *= -2.0
        np.add(t, 1.0, out=t)


def read_purity(C, wf, twin, det, read="samples"):
    """Clause read_is_pure for one waveform `wf`, one kind of read ("samples": wf.samples;
    "getitem_slice": wf[0:d]) and a freshly built equal `twin`.  On a tree where that read leaks the
    cached samples `wf` is corrupted afterwards: callers use a dedicated object for the slice probe and
    run the samples probe before deriving further observables from the same object."""
    if read == "getitem_slice" and not PROBE_SLICE_VIEWS:
        return
    cls = type(wf).__name__
    before = arr(wf.samples).copy()
    if not np.all(np.isfinite(before)) or len(before) == 0:
        return
    fv, lv, integ = wf.first_value, wf.last_value, wf.integral
    d = len(before)
    rd = (lambda: wf.samples) if read == "samples" else (lambda: wf[0:d])
    for hname, h in HANDLES:
        try:
            _scribble(h(rd()))
        except Exception:  # noqa: BLE001  this handle refuses in-place writes: fine
            pass
        after = arr(wf.samples)
        same = after.shape == before.shape and np.array_equal(after, before)
        same = same and wf.first_value == fv and wf.last_value == lv and wf.integral == integ
        same = same and np.array_equal(arr(wf[0:d]), before) and float(wf[0]) == before[0]
        if not C.ok(same, {"clause": "read_is_pure", "read": read, "handle": hname, "cls": cls},
                    {**det, "before": before.tolist()[:8], "after": after.tolist()[:8]}):
            return
    C.ok(bool(wf == twin) and bool(twin == wf) and np.array_equal(arr(twin.samples), before),
         {"clause": "read_is_pure", "read": read, "handle": "any", "observable": "equality_with_twin", "cls": cls}, det)


# ------------------------------------------------------------------------------------------------
# families decided by the reference

def f_wf(r, C):
    det = {"w": r["w"]}
    w = build(r["w"])
    s = C.finite(w, det, r["d"])
    if s is None or r["amb"]:
        return
    cls = type(w).__name__
    exp = exp_samples(r["s"])
    C.ok(close(s, exp), {"clause": "values", "cls": cls}, {**det, "got": s.tolist()[:10], "exp": exp.tolist()[:10]})
    C.ok(close(w.first_value, exp[0]) and close(w.last_value, exp[-1]),
         {"clause": "first_last_value", "cls": cls}, {**det, "first": w.first_value, "last": w.last_value})
    C.ok(close(w.integral, r["sum"] / SU * 1e-3, atol=1e-12), {"clause": "integral", "cls": cls},
         {**det, "got": w.integral, "exp": r["sum"] / SU * 1e-3})
    C.ok(w.duration == r["d"] == len(w.samples), {"clause": "sample_count", "cls": cls}, det)
    # change_duration / scaling results must not depend on earlier reads either: derive them AFTER the
    # scribbling from the same object and compare with the twin's
    twin = build(r["w"])
    read_purity(C, w, twin, det, "samples")
    if np.all(np.isfinite(arr(twin.samples))):
        C.ok(close(arr((w * 2).samples), 2 * exp) and close(arr(((w * 2) / 2).samples), exp),
             {"clause": "read_is_pure", "read": "samples", "handle": "any", "observable": "scaling", "cls": cls}, det)
        if r["w"][0] in ("c", "r") and r["d"] > 1:
            C.ok(close(arr(w.change_duration(r["d"]).samples), exp),
                 {"clause": "read_is_pure", "read": "samples", "handle": "any", "observable": "change_duration", "cls": cls}, det)
    read_purity(C, build(r["w"]), twin, det, "getitem_slice")


def f_mul(r, C):
    det = {"w": r["w"], "k": r["k"]}
    w = build(r["w"])
    k = r["k"]
    cls = type(w).__name__
    if C.finite(w, det) is None or r["amb"]:
        return
    exp = exp_samples(r["ms"])
    for kk in (k, float(k)):
        m = w * kk
        sm = C.finite(m, {**det, "op": "mul"}, len(exp))
        if sm is not None:
            C.ok(close(sm, exp), {"clause": "scale_mul", "cls": cls}, {**det, "got": sm.tolist()[:10], "exp": exp.tolist()[:10]})
    if k == -1:
        n = -w
        sn = C.finite(n, {**det, "op": "neg"}, len(exp))
        if sn is not None:
            C.ok(close(sn, exp), {"clause": "negate", "cls": cls}, {**det, "got": sn.tolist()[:10], "exp": exp.tolist()[:10]})
    q = w / k
    sq = C.finite(q, {**det, "op": "div"}, len(exp))
    if sq is not None:
        expq = np.asarray(r["s"], dtype=float) / (SU * k)
        C.ok(close(sq, expq), {"clause": "scale_div", "cls": cls}, {**det, "got": sq.tolist()[:10], "exp": expq.tolist()[:10]})


def sample_wfs(d):
    """One waveform of every class with duration d (where the class can be built) and pairwise
    distinct-ish samples: (class name, waveform)."""
    out = [("CustomWaveform", CustomWaveform([0.5 * i - 1 for i in range(d)])),
           ("ConstantWaveform", ConstantWaveform(d, 1.5)),
           ("KaiserWaveform", KaiserWaveform(d, 1.25, 3.0))]
    if d >= 2:
        out.append(("RampWaveform", RampWaveform(d, -1.0, 2.0)))
        out.append(("CompositeWaveform", CompositeWaveform(ConstantWaveform(1, -2.0), CustomWaveform([0.25 * i for i in range(d - 1)]))))
        out.append(("InterpolatedWaveform", InterpolatedWaveform(d, [0.5, -1.5])))
    if d != 2:
        out.append(("BlackmanWaveform", BlackmanWaveform(d, -0.75)))
    return out


def f_idx(r, C):
    d, i, pos = r["d"], r["i"], r["pos"]
    for cls, w in sample_wfs(d):
        s = arr(w.samples)
        det = {"d": d, "i": i, "cls": cls}
        try:
            v = float(w[i])
        except IndexError:
            C.ok(pos < 0, {"clause": "index", "cls": cls, "outcome": "IndexError"}, det)
            continue
        C.ok(pos >= 0 and v == s[pos], {"clause": "index", "cls": cls, "outcome": "value"},
             {**det, "got": v, "expected_pos": pos})


def f_slice(r, C):
    d, lo, n = r["d"], r["lo"], r["n"]
    st = None if r["st"] == NONE else r["st"]
    sp = None if r["sp"] == NONE else r["sp"]
    for cls, w in sample_wfs(d):
        s = arr(w.samples)
        exp = s[lo:lo + n]
        for sl in (slice(st, sp), slice(st, sp, 1)):
            got = arr(w[sl])
            C.ok(got.shape == exp.shape and np.array_equal(got, exp), {"clause": "slice", "cls": cls},
                 {"d": d, "st": st, "sp": sp, "got": got.tolist(), "exp": exp.tolist()})


def f_chdur(r, C):
    det = {"w": r["w"], "nd": r["nd"]}
    w = build(r["w"])
    cls = type(w).__name__
    w2 = w.change_duration(r["nd"])
    C.ok(type(w2) is type(w), {"clause": "change_duration_class", "cls": cls}, det)
    s = C.finite(w2, det, r["nd"])
    if s is None or r["amb"]:
        return
    exp = exp_samples(r["s"])
    C.ok(close(s, exp), {"clause": "change_duration", "cls": cls}, {**det, "got": s.tolist()[:10], "exp": exp.tolist()[:10]})
    # the original is unchanged
    C.ok(w.duration == r["w"][1], {"clause": "change_duration_original", "cls": cls}, det)


def f_eq(r, C):
    det = {"w": r["w"], "v": r["v"]}
    w, v = build(r["w"]), build(r["v"])
    sw, sv = arr(w.samples), arr(v.samples)
    if not (np.all(np.isfinite(sw)) and np.all(np.isfinite(sv))):
        return          # reported by the finite_samples clause of family wf
    # lattice samples differ by >= 1/240 or not at all, |values| < 40: outside the isclose band
    C.ok((w == v) is r["eq"] and (v == w) is r["eq"] and (w != v) is (not r["eq"]),
         {"clause": "equality", "expected": r["eq"]}, det)
    # closeness: a perturbation far below / far above the tolerance of np.isclose
    tiny = CustomWaveform(sw + 1e-12)
    C.ok(w == tiny and tiny == w, {"clause": "equality", "expected": True, "variant": "tiny"}, det)
    big = sw.copy()
    big[len(big) // 2] += 1e-2
    C.ok(not (w == CustomWaveform(big)), {"clause": "equality", "expected": False, "variant": "one_sample"}, det)
    C.ok(not (w == sw.tolist()) and not (w == "w"), {"clause": "equality", "expected": False, "variant": "non_waveform"}, det)


def _interp(d, vals, ts, **kw):
    v = [x * U for x in vals]
    if ts:
        return InterpolatedWaveform(d, v, times=[t / TD for t in ts], **kw)
    return InterpolatedWaveform(d, v, **kw)


def _interp_points(w, pos, vals, C, det, clause, factor=1.0):
    s = C.finite(w, det, det.get("dnow"))
    if s is None:
        return None
    exp = np.array([x * U * factor for x in vals])
    got = s[np.array(pos)]
    C.ok(close(got, exp, atol=1e-8), {"clause": clause, "cls": "InterpolatedWaveform"},
         {**det, "pos": pos, "got": got.tolist(), "exp": exp.tolist()})
    return s


def f_interp(r, C):
    d, vals, ts = r["d"], r["vals"], r["ts"]
    det = {"d": d, "vals": vals, "ts": ts, "dnow": d}
    kinds = [{}]
    full = (not ts) or (ts[0] == 0 and ts[-1] == 12)
    if full:
        kinds.append({"interpolator": "interp1d"})        # needs the whole range covered
    for kw in kinds:
        detk = {**det, **kw}
        try:
            w = _interp(d, vals, ts, **kw)
            w.samples
        except Exception as e:  # noqa: BLE001
            # reference says the data points are well defined => the waveform must exist
            C.ok(r["dc"], {"clause": "interp_construct", "exc": type(e).__name__}, {**detk, "err": str(e)[:200]})
            continue
        if r["dc"]:
            C.finite(w, detk, d)                          # built although ambiguous: still d finite samples
            continue
        s = _interp_points(w, r["pos"], vals, C, detk, "interp_data_points")
        if s is None:
            continue
        dp = np.asarray(w.data_points, dtype=float)
        C.ok(dp.shape == (len(vals), 2) and np.array_equal(dp[:, 0], np.array(r["pos"], dtype=float))
             and close(dp[:, 1], np.array(vals) * U), {"clause": "interp_data_points", "cls": "InterpolatedWaveform",
                                                       "what": "data_points"}, {**detk, "got": dp.tolist()})
        for k in (-2, 3):
            sk = _interp_points(w * k, r["pos"], vals, C, {**detk, "k": k}, "scale_mul", float(k))
            if sk is not None:
                C.ok(close(sk, k * s, atol=2e-8), {"clause": "scale_mul", "cls": "InterpolatedWaveform"}, {**detk, "k": k})
            sq = C.finite(w / k, {**detk, "k": k, "op": "div"}, d)
            if sq is not None:
                C.ok(close(sq, s / k, atol=2e-8), {"clause": "scale_div", "cls": "InterpolatedWaveform"}, {**detk, "k": k})
        sn = C.finite(-w, {**detk, "op": "neg"}, d)
        if sn is not None:
            C.ok(close(sn, -s, atol=2e-8), {"clause": "negate", "cls": "InterpolatedWaveform"}, detk)
        nd = r["nd"]
        if nd:
            try:
                w2 = w.change_duration(nd)
                w2.samples
            except Exception as e:  # noqa: BLE001
                C.ok(r["ndc"], {"clause": "change_duration", "cls": "InterpolatedWaveform", "exc": type(e).__name__},
                     {**detk, "nd": nd, "err": str(e)[:200]})
                continue
            if r["ndc"]:
                C.finite(w2, {**detk, "nd": nd}, nd)
            else:
                _interp_points(w2, r["npos"], vals, C, {**detk, "nd": nd, "dnow": nd}, "change_duration")
        if not nd:
            tw = _interp(d, vals, ts, **kw)
            read_purity(C, w, tw, detk, "samples")
            read_purity(C, _interp(d, vals, ts, **kw), tw, detk, "getitem_slice")


def f_pulse(r, C):
    amp, dt = build(r["amp"]), build(r["det"])
    sa, sd = arr(amp.samples), arr(dt.samples)
    if not (np.all(np.isfinite(sa)) and np.all(np.isfinite(sd))):
        return          # reported by the finite_samples clause
    ph, pps = r["ph"] * np.pi / 4, r["pps"] * np.pi / 4
    ctors = [("Pulse", lambda: Pulse(build(r["amp"]), build(r["det"]), ph, pps))]
    if r["amp"][0] == "c" and r["amp"][1] == dt.duration:
        ctors.append(("ConstantAmplitude", lambda: Pulse.ConstantAmplitude(r["amp"][2] * U, build(r["det"]), ph, pps)))
    if r["det"][0] == "c" and r["det"][1] == amp.duration:
        ctors.append(("ConstantDetuning", lambda: Pulse.ConstantDetuning(build(r["amp"]), r["det"][2] * U, ph, pps)))
    if r["amp"][0] == "c" and r["det"][0] == "c" and r["amp"][1] == r["det"][1]:
        ctors.append(("ConstantPulse", lambda: Pulse.ConstantPulse(r["amp"][1], r["amp"][2] * U, r["det"][2] * U, ph, pps)))
    for name, mk in ctors:
        det = {"amp": r["amp"], "det": r["det"], "ph": r["ph"], "pps": r["pps"], "ctor": name}
        try:
            p = mk()
        except Exception as e:  # noqa: BLE001
            C.ok(r["out"] != "ok", {"clause": "pulse_accept", "expected": r["out"], "got": "raise", "ctor": name},
                 {**det, "err": f"{type(e).__name__}: {e}"[:200]})
            continue
        if not C.ok(r["out"] == "ok", {"clause": "pulse_accept", "expected": r["out"], "got": "ok", "ctor": name}, det):
            continue
        pa, pd = arr(p.amplitude.samples), arr(p.detuning.samples)
        C.ok(np.all(pa >= 0) and len(pa) == len(pd) == p.duration == amp.duration,
             {"clause": "pulse_shape", "ctor": name}, det)
        C.ok(close(pa, sa) and close(pd, sd), {"clause": "pulse_waveforms", "ctor": name}, det)
        phv = float(p.phase)
        C.ok(0 <= phv < TWO_PI, {"clause": "pulse_phase_range", "phase_class": "lattice"}, {**det, "phase": repr(phv)})
        C.ok(circ_close(phv, r["phm"] * np.pi / 4), {"clause": "pulse_phase_value"}, {**det, "phase": repr(phv)})
        C.ok(circ_close(float(p.post_phase_shift), r["ppsm"] * np.pi / 4) and 0 <= float(p.post_phase_shift) <= TWO_PI,
             {"clause": "pulse_post_phase_shift"}, {**det, "pps": repr(float(p.post_phase_shift))})
        # reads of the pulse's waveforms are pure as well (the pulse keeps non-negative amplitude etc.)
        twin_p = mk()
        read_purity(C, p.amplitude, twin_p.amplitude, {**det, "of": "Pulse.amplitude"}, "samples")
        read_purity(C, p.detuning, twin_p.detuning, {**det, "of": "Pulse.detuning"}, "samples")
        C.ok(close(arr(p.amplitude.samples), sa) and close(arr(p.detuning.samples), sd) and bool(p == twin_p)
             and np.all(arr(p.amplitude.samples) >= 0),
             {"clause": "read_is_pure", "read": "samples", "handle": "any", "observable": "pulse", "ctor": name}, det)


SPECIAL_PHASES = {
    "tiny_negative": -1e-17, "tiny_positive": 1e-17,
    "below_2pi": float(np.nextafter(TWO_PI, 0)), "above_2pi": float(np.nextafter(TWO_PI, 7)),
    "huge": 12345.678, "huge_negative": -98765.4321, "minus_2pi": -TWO_PI, "minus_zero": -0.0,
}


def f_phase(r, C):
    ph = SPECIAL_PHASES[r["cls"]]
    p = Pulse.ConstantPulse(r["d"], 1.0, -0.5, ph)
    phv = float(p.phase)
    det = {"phase_in": repr(ph), "phase": repr(phv), "d": r["d"]}
    # [0, 2pi): the stored float must be < float(2 pi)
    C.ok(0 <= phv < TWO_PI, {"clause": "pulse_phase_range", "phase_class": r["cls"]}, det)
    C.ok(circ_close(phv, ph), {"clause": "pulse_phase_value", "phase_class": r["cls"]}, det)


_REG = None


def _sampled_phase(pulse):
    global _REG
    if _REG is None:
        _REG = Register.from_coordinates([(0.0, 0.0)], prefix="q")
    seq = Sequence(_REG, pulser.MockDevice)
    seq.declare_channel("ch", "rydberg_global")
    seq.add(pulse, "ch")
    cs = sample_seq(seq).channel_samples["ch"]
    return arr(cs.phase_modulation)


def f_arb(r, C):
    pw = build(r["p"])
    sp = arr(pw.samples)
    if not np.all(np.isfinite(sp)) or r["amb"]:
        return          # the phase waveform itself is broken: reported by finite_samples
    d = pw.duration
    det = {"p": r["p"], "d": d}
    exp = exp_samples(r["s"])
    amp = ConstantWaveform(d, 1.0)
    try:
        p = Pulse.ArbitraryPhase(amp, pw, 0.5)
    except Exception as e:  # noqa: BLE001
        C.ok(False, {"clause": "arbitrary_phase", "outcome": "raise", "duration": d, "phase_cls": type(pw).__name__},
             {**det, "err": f"{type(e).__name__}: {e}"[:200]})
        return
    C.ok(p.duration == d and p.detuning.duration == d, {"clause": "arbitrary_phase", "outcome": "duration"}, det)
    dets = arr(p.detuning.samples)
    recon = float(p.phase) - np.cumsum(dets * 1e-3)
    scale_tol = 1e-9 * max(1.0, float(np.max(np.abs(exp))) * d)
    C.ok(len(recon) == d and np.all(np.isfinite(recon)) and circ_close(recon, exp, tol=scale_tol),
         {"clause": "arbitrary_phase", "outcome": "reconstruct", "phase_cls": type(pw).__name__},
         {**det, "recon": recon.tolist()[:8], "exp": exp.tolist()[:8], "phase": float(p.phase), "det": dets.tolist()[:8]})
    C.ok(0 <= float(p.phase) < TWO_PI, {"clause": "pulse_phase_range", "phase_class": "arbitrary_phase"}, det)
    pm_ = _sampled_phase(p)
    C.ok(len(pm_) == d and circ_close(pm_, exp, tol=scale_tol),
         {"clause": "arbitrary_phase", "outcome": "phase_modulation", "phase_cls": type(pw).__name__},
         {**det, "got": pm_.tolist()[:8], "exp": exp.tolist()[:8]})


# ------------------------------------------------------------------------------------------------
# families only enumerated by TLC (contracts evaluated on the implementation's samples)

DUR_VARIANTS = {
    "const": [lambda d: ConstantWaveform(d, 2.5), lambda d: ConstantWaveform(d, -1e3), lambda d: ConstantWaveform(d, 0.0)],
    "ramp": [lambda d: RampWaveform(d, -1.0, 3.0), lambda d: RampWaveform(d, 7.0, 7.0), lambda d: RampWaveform(d, 1e-3, -1e3)],
    "custom": [lambda d: CustomWaveform(np.arange(d) * 0.5), lambda d: CustomWaveform([-1.0] * d),
               lambda d: CustomWaveform(np.linspace(-3, 3, d))],
    "comp": [lambda d: CompositeWaveform(ConstantWaveform(1, 1.0), ConstantWaveform(d - 1, 2.0)),
             lambda d: CompositeWaveform(CustomWaveform([0.5] * (d // 2)), RampWaveform(d - d // 2, 0.0, 1.0)),
             lambda d: CompositeWaveform(BlackmanWaveform(d - 1, 1.0), CustomWaveform([0.0]))],
    "interp": [lambda d: InterpolatedWaveform(d, [0.0, 2.0]), lambda d: InterpolatedWaveform(d, [1.0, -2.0, 0.5]),
               lambda d: InterpolatedWaveform(d, [0.0, 3.0, -3.0, 1.0])],
    "blackman": [lambda d: BlackmanWaveform(d, 1.0), lambda d: BlackmanWaveform(d, -0.3), lambda d: BlackmanWaveform(d, TWO_PI)],
    "kaiser": [lambda d: KaiserWaveform(d, 1.0), lambda d: KaiserWaveform(d, -2.5, 0.0), lambda d: KaiserWaveform(d, 0.7, 3.5)],
}


def f_dur(r, C):
    d, cls, var = r["d"], r["cls"], r["var"]
    det = {"cls": cls, "d": d, "var": var}
    if cls == "comp" and d < 2:
        return      # a composite has at least two parts
    if cls == "comp" and var == 3 and d == 3:
        det["note"] = "contains BlackmanWaveform(2)"
    try:
        w = DUR_VARIANTS[cls][var - 1](d)
        w.samples
    except Exception as e:  # noqa: BLE001
        C.ok(r["dc"], {"clause": "construct", "cls": cls, "exc": type(e).__name__}, {**det, "err": str(e)[:200]})
        return
    s = C.finite(w, det, d)
    if s is not None:
        C.ok(math.isfinite(w.integral) and math.isfinite(w.first_value) and math.isfinite(w.last_value)
             and w.first_value == s[0] and w.last_value == s[-1],
             {"clause": "first_last_value", "cls": type(w).__name__}, det)
        tw = DUR_VARIANTS[cls][var - 1](d)
        read_purity(C, w, tw, det, "samples")
        read_purity(C, DUR_VARIANTS[cls][var - 1](d), tw, det, "getitem_slice")


def _window(cls, d, area, beta):
    return BlackmanWaveform(d, area) if cls == "blackman" else KaiserWaveform(d, area, beta)


def f_win(r, C):
    cls, d, area, beta = r["cls"], r["d"], r["area"] * U, float(r["beta"])
    det = {"cls": cls, "d": d, "area": area, "beta": beta}
    w = _window(cls, d, area, beta)
    name = type(w).__name__
    s = C.finite(w, det, d)
    if s is None:
        return
    C.ok(abs(w.integral - area) <= 1e-9 * abs(area) and abs(s.sum() * 1e-3 - area) <= 1e-9 * abs(area),
         {"clause": "window_area", "cls": name}, {**det, "integral": w.integral})
    C.ok(np.all(s * np.sign(area) >= 0), {"clause": "window_sign", "cls": name}, det)
    for k in (-2, 0.5, 3):
        for op, m, f in (("scale_mul", lambda: w * k, k), ("scale_div", lambda: w / k, 1 / k)):
            sm = C.finite(m(), {**det, "k": k, "op": op}, d)
            if sm is not None:
                C.ok(close(sm, f * s, atol=1e-9 * np.max(np.abs(s))), {"clause": op, "cls": name}, {**det, "k": k})
    sn = C.finite(-w, {**det, "op": "neg"}, d)
    if sn is not None:
        C.ok(close(sn, -s, atol=1e-12), {"clause": "negate", "cls": name}, det)
    # equality agrees with sample-wise closeness (area != 0 on this lattice, so w*2 differs from w by
    # a factor 2 at its peak: far outside the isclose band)
    same = CustomWaveform(s * (1 + 1e-13))
    C.ok((w == same) and (same == w) and not (w == w * 2) and not (w == -w)
         and not (w == CustomWaveform(np.append(s, 0.0))),
         {"clause": "equality", "cls": name}, det)
    for nd in (d + 3, max(1, d - 1), 2 * d + 1):
        w2 = w.change_duration(nd)
        s2 = C.finite(w2, {**det, "nd": nd}, nd)
        if s2 is None:
            continue
        ref = arr(_window(cls, nd, area, beta).samples)     # same area (and beta), new duration
        C.ok(type(w2) is type(w) and abs(w2.integral - area) <= 1e-9 * abs(area) and close(s2, ref, atol=1e-12),
             {"clause": "change_duration", "cls": name}, {**det, "nd": nd, "integral": w2.integral})
    tw = _window(cls, d, area, beta)
    read_purity(C, w, tw, det, "samples")
    read_purity(C, _window(cls, d, area, beta), tw, det, "getitem_slice")


def _peak(cls, d, area, beta):
    s = arr(_window(cls, d, area, beta).samples)
    return float(np.max(np.abs(s))) if np.all(np.isfinite(s)) else float("nan")


def f_maxval(r, C):
    cls, sg, beta = r["cls"], r["sg"], float(r["beta"])
    mv, area = sg * r["m"] * U, sg * r["a"] / 32.0
    det = {"cls": cls, "max_val": mv, "area": area, "beta": beta}
    try:
        w = (BlackmanWaveform.from_max_val(mv, area) if cls == "blackman"
             else KaiserWaveform.from_max_val(mv, area, beta))
    except Exception as e:  # noqa: BLE001
        C.ok(False, {"clause": "from_max_val", "what": "raise", "cls": cls}, {**det, "err": f"{type(e).__name__}: {e}"[:200]})
        return
    name = type(w).__name__
    s = C.finite(w, det)
    if s is None:
        return
    d = w.duration
    det["duration"] = d
    peak = float(np.max(np.abs(s)))
    det["peak"] = peak
    C.ok(abs(w.integral - area) <= 1e-9 * abs(area), {"clause": "window_area", "cls": name, "via": "from_max_val"},
         {**det, "integral": w.integral})
    C.ok(np.all(s * sg >= 0), {"clause": "window_sign", "cls": name, "via": "from_max_val"}, det)
    # never exceeds the maximum (band: 1e-9 relative)
    C.ok(peak <= abs(mv) * (1 + 1e-9), {"clause": "from_max_val", "what": "exceeds", "cls": name}, det)
    # as close as whole nanoseconds allow.  Reading (the one the code's own comments give): one
    # nanosecond shorter must not be a better answer, i.e. it either exceeds the maximum or - the
    # odd/even irregularity of short windows - does not come closer to it than the answer does.
    # Ties within 1e-9 relative and a degenerate shorter window (BlackmanWaveform(2)) are don't-cares.
    if d > 1:
        prev = _peak(cls, d - 1, area, beta)
        det["peak_one_ns_shorter"] = prev
        better = math.isfinite(prev) and prev <= abs(mv) * (1 - 1e-9) and prev > peak * (1 + 1e-9)
        C.ok(not better, {"clause": "from_max_val", "what": "not_closest", "cls": name}, det)
        if d >= 17 and math.isfinite(prev):
            # beyond the short windows the peak decreases with the duration: d-1 must exceed
            C.ok(prev > abs(mv) * (1 - 1e-9), {"clause": "from_max_val", "what": "shorter_fits", "cls": name}, det)


FAMILY = {"wf": f_wf, "mul": f_mul, "idx": f_idx, "slice": f_slice, "chdur": f_chdur, "eq": f_eq,
          "interp": f_interp, "dur": f_dur, "pulse": f_pulse, "phase": f_phase, "arb": f_arb,
          "win": f_win, "maxval": f_maxval}


def check_chunk(recs):
    C = Ctx()
    fam = Counter()
    for r in recs:
        fam[r["f"]] += 1
        n0 = len(C.reports)
        try:
            FAMILY[r["f"]](r, C)
        except Exception as e:  # noqa: BLE001  an unexpected exception of the implementation on a valid input
            C.ok(False, {"clause": "unexpected_exception", "family": r["f"], "exc": type(e).__name__},
                 {"point": r, "err": str(e)[:300]})
        for sig, detail in C.reports[n0:]:
            detail.setdefault("point", {k: v for k, v in r.items() if k not in ("s", "ms")})
    return C.reports, C.tests, dict(C.by_clause), dict(fam)


def run(tier):
    V = Verdict("C16", tier)
    if os.path.exists(FINDINGS):
        V.known += json.load(open(FINDINGS))
    consts = constants(tier)
    consts["Fams"] = "{" + ", ".join(f'"{f}"' for f in ALL_FAMS) + "}"
    res, pts = enumerate_points("C16", "waveforms", "Waveforms", consts, INVARIANTS)
    # implementation tests, in parallel over chunks (fork: pulser is already imported from the tree)
    import multiprocessing as mp
    n = max(1, min(12, (os.cpu_count() or 2) - 2))
    size = 400
    chunks = [pts[i:i + size] for i in range(0, len(pts), size)]
    if len(chunks) > 1:
        with mp.get_context("fork").Pool(n) as pool:
            results = pool.map(check_chunk, chunks)
    else:
        results = [check_chunk(c) for c in chunks]
    tests, by_clause, fam = 0, Counter(), Counter()
    for reports, t, bc, fc in results:
        tests += t
        by_clause.update(bc)
        fam.update(fc)
        for sig, detail in reports:
            V.report(sig, detail)
    missing = [f for f in ALL_FAMS if not fam.get(f)]
    if missing:
        print(f"MACHINERY-FAILURE: no point enumerated for families {missing}")
        return 2
    samples = []
    seen = set()
    for p in pts:
        if p["f"] not in seen:
            seen.add(p["f"])
            samples.append(p)
    cov = {
        "states": res.distinct, "transitions": res.generated,
        "traces_validated_against_impl": len(pts),
        "implementation_assertions": tests,
        "samples": samples[:6],
        "exhaustive": True,
        "per_config": [{"module": "Waveforms", "tlc_distinct": res.distinct, "tlc_s": round(res.wall, 1),
                        "points_per_family": dict(fam), "assertions_per_clause": dict(by_clause),
                        "constants": consts}],
        "rule": "one TLC state per point of spec/Waveforms.tla (families wf, mul, idx, slice, chdur, eq, interp, pulse, "
                "arb decided by the integer reference; dur, win, maxval, phase enumerate inputs whose contracts are "
                "evaluated on the implementation's samples); parameters p/4, samples n/240, ramp durations with "
                "(d-1) | 60, phases k*pi/4",
        "decided_by_reference": ["wf", "mul", "idx", "slice", "chdur", "eq", "interp", "pulse", "arb"],
        "monitored_observations": ["dur", "win", "maxval", "phase"],
        "checker_cmd": res.cmd,
    }
    return V.finish(cov, assumptions=[
        "float value of a lattice point = integer / 4 (parameters) or integer / 240 (expected samples); comparisons "
        "use atol = rtol = 1e-9 (1e-8 at interpolation data points, which the code rounds to 9 decimals)",
        "a one-sample ramp with start != stop has no documented value: only finiteness is demanded",
        "interpolation data points that fall on an exact .5 tie or collide after rounding are don't-cares "
        "(either a raise or `duration` finite samples)",
        "from_max_val: 'as close as whole nanoseconds allow' = one nanosecond shorter either exceeds the maximum "
        "or is not closer to it (odd/even irregularity of short windows); ties within 1e-9 relative are don't-cares",
        "Blackman / Kaiser contracts are monitored on the implementation's samples (real analysis is outside TLC)",
    ])
