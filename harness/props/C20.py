"""C20: observables and results are correct functions of the emulated state.

Reference (TLC): spec/QuditAlgebra.tla + spec/Observables.tla (operator representation -> matrix,
operator algebra, states from amplitudes, every default observable as an exact rational over a
Gaussian-integer lattice) and spec/ObsResults.tla (the Results store as a state machine; which
relative times each observable stores at).  TLC enumerates the lattices, checks the laws of the
reference on every point and prints the expected values; this module executes EVERY printed
point on QutipOperator / QutipState / the default observables / Results / Observable.__call__ /
QutipBackendV2.run of the working tree and compares.

Readings taken where the statement leaves room (the reading under which the code is right):
 * "application" of an operator to a density matrix is A rho A^dagger (Operator.apply_to).
 * the definitions are evaluated on the state as the backend holds it (no renormalisation); the
   comparison band (1e-6 relative at the backend level, where the solver's norm drifts by ~1e-8;
   1e-9 on the exact lattice) covers both the raw and the renormalised reading.
 * fidelity with a pure state |psi> is <psi|rho|psi> (= |<psi|phi>|^2 for pure states).
 * <n_i n_i> = <n_i> (diagonal of the correlation matrix).
 * empty operator representations (no term at all) and un-normalised amplitudes are outside
   the lattice; evaluation times closer than 1 ns to another emulation step are outside the
   lattice (Observable.__call__ matches times within half a ns).
 * a store attempt the store refuses may raise any exception; it must leave the store unchanged.
"""
import json
import math
import os
import shutil
import time
import zlib
from collections import Counter
from concurrent.futures import ProcessPoolExecutor

import numpy as np
from scipy.stats import binom

from ..env import WORK, assert_tree, seed

assert_tree()
import qutip  # noqa: E402
import pulser  # noqa: E402
from pulser import NoiseModel, Pulse, Register, Sequence  # noqa: E402
from pulser.devices import MockDevice  # noqa: E402
from pulser.backend.config import EmulationConfig  # noqa: E402
from pulser.backend.default_observables import (  # noqa: E402
    BitStrings, CorrelationMatrix, Energy, EnergySecondMoment, EnergyVariance, Expectation,
    Fidelity, Occupation, StateResult)
from pulser.backend.observable import Observable  # noqa: E402
from pulser.backend.results import Results  # noqa: E402
from pulser_simulation import QutipBackendV2, QutipConfig, QutipEmulator, SimConfig  # noqa: E402
from pulser_simulation.qutip_op import QutipOperator  # noqa: E402
from pulser_simulation.qutip_state import QutipState  # noqa: E402

from .common import Verdict, enumerate_points  # noqa: E402

HERE = os.path.dirname(os.path.abspath(__file__))
FINDINGS = os.path.join(HERE, "C20.findings.json")

# level name (1-based integer of the spec) -> eigenstate character.  For d = 2 level 1 is the
# documented "one state" of a known eigenbasis (r of {r,g}, h of {g,h}, d of {u,d}, 1 of {0,1}).
NAMES = {2: [("r", "g"), ("h", "g"), ("d", "u"), ("1", "0")],
         3: [("r", "g", "h"), ("h", "r", "g")],
         4: [("r", "g", "h", "x"), ("x", "u", "d", "r")]}
TOL = 1e-9


def crc(rec):
    return zlib.crc32(json.dumps(rec, sort_keys=True).encode())


def names_for(rec):
    d = rec["c"]["d"]
    sets = NAMES[d]
    return sets[crc([rec["c"], rec.get("f"), rec.get("A"), rec.get("st"), rec.get("one")]) % len(sets)]


def lvl(names, l):
    return names[l - 1] if 1 <= l <= len(names) else "z"


def cx(g):
    return complex(g[0], g[1])


def scalar(g, k=0):
    """The same Gaussian integer as int / float / complex (SupportsComplex in all its forms)."""
    if g[1] == 0:
        return (int(g[0]), float(g[0]), complex(g[0], 0))[k % 3]
    return complex(g[0], g[1])


def py_fullop(f, names, split=False, k=0):
    ops = []
    for coeff, tensor in f:
        top = []
        for q, S in tensor:
            qd = {lvl(names, e[0]) + lvl(names, e[1]): scalar(e[2], k) for e in q}
            if split and len(S) > 1:
                top += [(dict(qd), [i]) for i in S]
            else:
                top.append((qd, list(S) if k % 2 == 0 else set(S)))
        ops.append((scalar(coeff, k + 1), top))
    return ops


def dense(sparse, size):
    m = np.zeros((size, size), dtype=complex)
    for r, c, re, im in sparse:
        m[r, c] = complex(re, im)
    return m


def dense_vec(sparse, size):
    v = np.zeros(size, dtype=complex)
    for r, re, im in sparse:
        v[r] = complex(re, im)
    return v


def eigenstates(rec, names):
    return tuple(lvl(names, l) for l in rec["c"]["ord"])


def close(a, b, tol=TOL):
    a, b = np.asarray(a, dtype=complex), np.asarray(b, dtype=complex)
    if a.shape != b.shape:
        return False
    return bool(np.all(np.abs(a - b) <= tol * np.maximum(1.0, np.abs(b))))


def mk_op(f, rec, names, **kw):
    c = rec["c"]
    return QutipOperator.from_operator_repr(eigenstates=eigenstates(rec, names), n_qudits=c["n"],
                                            operations=py_fullop(f, names, **kw))


def bs_string(bs, names):
    return "".join(lvl(names, l) for l in bs)


def amps_norm2(amps):
    return sum(a[1][0] ** 2 + a[1][1] ** 2 for a in amps)


def mk_ket(amps, rec, names):
    nrm = math.sqrt(amps_norm2(amps))
    return QutipState.from_state_amplitudes(
        eigenstates=eigenstates(rec, names),
        amplitudes={bs_string(bs, names): cx(g) / nrm for bs, g in amps})


def mk_state(st, rec, names):
    """ket: from_state_amplitudes; dm: sum of weighted projectors on kets built from amplitudes."""
    comps = st["comps"]
    if st["kind"] == "ket":
        return mk_ket(comps[0][1], rec, names)
    rho = 0
    for w, amps in comps:
        k = mk_ket(amps, rec, names).to_qobj()
        rho = rho + w * amps_norm2(amps) * (k * k.dag())
    rho = rho / rho.tr()
    return QutipState(rho, eigenstates=eigenstates(rec, names))


def state_class(st):
    if st["kind"] == "ket":
        return "ket"
    return "pure_dm" if len(st["comps"]) == 1 else "mixed"


class Out:
    """Collects reports and the number of assertions of one worker batch."""

    def __init__(self):
        self.reports, self.tests = [], 0

    def check(self, ok, sig, detail):
        self.tests += 1
        if not ok:
            self.reports.append((sig, detail))
        return ok


def brief(rec, *keys):
    return {k: rec[k] for k in ("c",) + keys if k in rec}


# ------------------------------------------------------------------------------------------
# mode "rep": representation -> matrix, accept / reject
def check_rep(rec, out):
    names = names_for(rec)
    c = rec["c"]
    size = c["d"] ** c["n"]
    k = crc(rec["f"])
    sig0 = {"d": c["d"], "n": c["n"], "bad": rec["bad"]}
    try:
        op = mk_op(rec["f"], rec, names, k=k)
        exc = None
    except Exception as e:  # noqa: BLE001
        op, exc = None, e
    if not rec["ok"]:
        out.check(isinstance(exc, ValueError), {**sig0, "clause": "rep_reject",
                                               "got": "accepted" if exc is None else type(exc).__name__},
                  {**brief(rec, "f"), "names": names})
        return
    if not out.check(exc is None, {**sig0, "clause": "rep_accept", "exc": type(exc).__name__},
                     {**brief(rec, "f"), "names": names, "err": str(exc)}):
        return
    exp = dense(rec["mat"], size)
    q = op.to_qobj()
    out.check(close(q.full(), exp), {**sig0, "clause": "rep_matrix"},
              {**brief(rec, "f"), "names": names, "got": np.round(q.full(), 9).tolist()[:8]})
    out.check(q.dims == [[c["d"]] * c["n"]] * 2 and op.eigenstates == eigenstates(rec, names),
              {**sig0, "clause": "rep_dims"}, {**brief(rec, "f"), "dims": q.dims})
    # the same operator with every multi-qudit set split into single-qudit pairs
    op2 = mk_op(rec["f"], rec, names, split=True, k=k + 1)
    out.check(close(op2.to_qobj().full(), exp), {**sig0, "clause": "rep_regroup"}, brief(rec, "f"))
    # rebuilt from what the operator says its representation is
    r = op._to_abstract_repr()
    op3 = QutipOperator.from_operator_repr(eigenstates=r["eigenstates"], n_qudits=r["n_qudits"],
                                           operations=r["operations"])
    out.check(close(op3.to_qobj().full(), exp) and op3 == op, {**sig0, "clause": "rep_roundtrip"},
              brief(rec, "f"))


# ------------------------------------------------------------------------------------------
# mode "alg": A + B, g A, A @ B
def check_alg(rec, out):
    names = names_for(rec)
    c = rec["c"]
    size = c["d"] ** c["n"]
    sig0 = {"d": c["d"], "n": c["n"]}
    A, B = mk_op(rec["A"], rec, names), mk_op(rec["B"], rec, names, k=1)
    es = eigenstates(rec, names)
    s = A + B
    out.check(close(s.to_qobj().full(), dense(rec["sum"], size)) and s.eigenstates == es,
              {**sig0, "clause": "op_add"}, brief(rec, "A", "B"))
    for k in range(3 if rec["g"][1] == 0 else 1):
        g = scalar(rec["g"], k)
        sc = g * A
        out.check(close(sc.to_qobj().full(), dense(rec["scaled"], size)) and sc.eigenstates == es,
                  {**sig0, "clause": "op_scale", "scalar": type(g).__name__}, brief(rec, "A", "g"))
    p = A @ B
    if rec["hasprod"]:
        out.check(close(p.to_qobj().full(), dense(rec["prod"], size)) and p.eigenstates == es,
                  {**sig0, "clause": "op_matmul"}, brief(rec, "A", "B"))
    probe = mk_ket(rec["probe"], rec, names)
    nrm = math.sqrt(amps_norm2(rec["probe"]))
    got = p.apply_to(probe).to_qobj().full().flatten()
    out.check(close(got, dense_vec(rec["pv"], size) / nrm), {**sig0, "clause": "op_matmul_applied"},
              brief(rec, "A", "B"))
    # the operands are not modified by the operations
    out.check(A == mk_op(rec["A"], rec, names) and B == mk_op(rec["B"], rec, names),
              {**sig0, "clause": "op_operands_unchanged"}, brief(rec, "A", "B"))


# ------------------------------------------------------------------------------------------
# mode "act": states from amplitudes, apply_to, expect
def check_act(rec, out):
    names = names_for(rec)
    c = rec["c"]
    size = c["d"] ** c["n"]
    st = rec["st"]
    sig0 = {"d": c["d"], "n": c["n"], "state": state_class(st)}
    A = mk_op(rec["A"], rec, names)
    S = mk_state(st, rec, names)
    den = rec["den"]
    q = S.to_qobj()
    if st["kind"] == "ket":
        out.check(close(q.full().flatten(), dense_vec(rec["vec"], size) / math.sqrt(den))
                  and q.dims[0] == [c["d"]] * c["n"] and S.n_qudits == c["n"],
                  {**sig0, "clause": "state_vector"}, {**brief(rec, "st"), "names": names})
    else:
        out.check(close(q.full(), dense(rec["rho"], size) / den) and S.n_qudits == c["n"],
                  {**sig0, "clause": "state_matrix"}, {**brief(rec, "st"), "names": names})
    out.check(S.eigenstates == eigenstates(rec, names) and S.qudit_dim == c["d"],
              {**sig0, "clause": "state_eigenstates"}, brief(rec, "st"))
    a = A.apply_to(S)
    if st["kind"] == "ket":
        out.check(close(a.to_qobj().full().flatten(), dense_vec(rec["avec"], size) / math.sqrt(den)),
                  {**sig0, "clause": "apply_ket"}, brief(rec, "A", "st"))
    elif rec["hasarho"]:
        out.check(close(a.to_qobj().full(), dense(rec["arho"], size) / den),
                  {**sig0, "clause": "apply_dm"}, brief(rec, "A", "st"))
    out.check(type(a) is type(S) and a.eigenstates == S.eigenstates and close(S.to_qobj().full(), q.full()),
              {**sig0, "clause": "apply_result_type"}, brief(rec, "A", "st"))
    e = A.expect(S)
    out.check(close(e, cx(rec["ex"]) / den), {**sig0, "clause": "expect"},
              {**brief(rec, "A", "st"), "got": str(e), "expected": str(cx(rec["ex"]) / den)})
    # overlap of the state with itself: Tr[rho^2] (1 for pure states)
    r = dense(rec["rho"], size) / den
    out.check(close(S.overlap(S), np.trace(r @ r).real), {**sig0, "clause": "overlap_self"}, brief(rec, "st"))


# ------------------------------------------------------------------------------------------
# mode "obs": the default observables on the lattice states
def bitstr(b, n):
    return format(b, "0%db" % n)


def sample_ok(counts, probs, shots, n):
    """Exact part: total, length, support.  Statistical part: the count of every bin lies inside the
    exact binomial two-sided 1e-13 region (a correct sampler leaves it with probability < 2e-13 per bin)."""
    if sum(counts.values()) != shots or any(len(k) != n for k in counts):
        return False
    if any(probs.get(b, 0.0) <= 0.0 for b in counts):
        return False
    keys = list(probs)
    k = np.array([counts.get(b, 0) for b in keys])
    p = np.clip(np.array([probs[b] for b in keys], dtype=float), 0.0, 1.0)
    lo = binom.cdf(k, shots, p)            # P(X <= k)
    hi = binom.sf(k - 1, shots, p)         # P(X >= k)
    return bool(np.all(np.minimum(lo, hi) >= 1e-13))


def check_obs(rec, out, shots=400):
    names = names_for(rec)
    c = rec["c"]
    n, d = c["n"], c["d"]
    size = d ** n
    st = rec["st"]
    scl = state_class(st)
    one = lvl(names, rec["one"])
    sig0 = {"d": d, "n": n, "state": scl, "names": "".join(names), "one_name": one}
    S = mk_state(st, rec, names)
    H = mk_op(rec["H"], rec, names)
    den = rec["den"]
    tgs = [mk_ket(a, rec, names) for a in rec["tg"]]
    oxs = [mk_op(f, rec, names, k=i) for i, f in enumerate(rec["ox"])]
    obs = {"occupation": Occupation(one_state=one), "correlation_matrix": CorrelationMatrix(one_state=one),
           "energy": Energy(), "energy_second_moment": EnergySecondMoment(),
           "energy_variance": EnergyVariance(), "state": StateResult()}
    for i, t in enumerate(tgs):
        obs[f"fidelity_{i}"] = Fidelity(t, tag_suffix=str(i))
    for i, o in enumerate(oxs):
        obs[f"expectation_{i}"] = Expectation(o, tag_suffix=str(i))
    infer = d == 2 and rec["one"] == 1
    if infer:
        obs["occupation_inf"] = Occupation(tag_suffix="inf")
        obs["correlation_matrix_inf"] = CorrelationMatrix(tag_suffix="inf")
    cfg = EmulationConfig(observables=list(obs.values()))
    res = Results(atom_order=tuple(f"q{i}" for i in range(n)), total_duration=100)
    for tag, o in obs.items():
        try:
            o(cfg, 1.0, S, H, res)
        except Exception as e:  # noqa: BLE001
            out.check(False, {**sig0, "clause": tag.split("_")[0] if tag[-1].isdigit() else tag,
                              "exc": type(e).__name__}, {**brief(rec, "st", "H", "one"), "err": str(e)[:200]})
    got = {}
    for tag, o in obs.items():
        try:
            v = res.get_result(o, 1.0)
            out.check(o.tag == tag and res.get_result(tag, 1.0) is v and getattr(res, tag)[0] is v
                      and res.get_result_times(o) == [1.0] and res.get_result_times(tag) == [1.0],
                      {**sig0, "clause": "retrieve_by_tag"}, {"tag": tag})
            got[tag] = v
        except Exception:  # noqa: BLE001   (already reported above)
            pass
    det = brief(rec, "st", "H", "one")
    det["names"] = names

    def cmp(tag, exp, clause=None, **extra):
        if tag in got:
            out.check(close(got[tag], exp), {**sig0, "clause": clause or tag, **extra},
                      {**det, "got": str(np.asarray(got[tag]).tolist())[:300], "expected": str(np.asarray(exp).tolist())[:300]})

    occ = [x / den for x in rec["occ"]]
    corr = [[x / den for x in row] for row in rec["corr"]]
    cmp("occupation", occ)
    cmp("correlation_matrix", corr)
    if infer:
        cmp("occupation_inf", occ, "infer_one_state")
        cmp("correlation_matrix_inf", corr, "infer_one_state")
    cmp("energy", rec["en"] / den)
    cmp("energy_second_moment", rec["m2"] / den)
    cmp("energy_variance", rec["varn"] / den ** 2)
    for i in range(len(tgs)):
        cmp(f"fidelity_{i}", rec["fid"][i][0] / (rec["fid"][i][1] * den), "fidelity")
    for i in range(len(oxs)):
        cmp(f"expectation_{i}", cx(rec["ex"][i]) / den, "expectation")
    if "state" in got:
        out.check(got["state"] == S and got["state"] is not S, {**sig0, "clause": "state_result"}, det)
    # measurement probabilities and samples
    probs = {bitstr(b, n): num / den for b, num in rec["bits"]}
    bp = S.bitstring_probabilities(one_state=one)
    out.check(set(bp) == set(probs) and all(abs(bp[k] - probs[k]) <= TOL for k in probs),
              {**sig0, "clause": "bitstring_probabilities"}, {**det, "got": dict(bp), "expected": probs})
    if infer:
        bpi = S.bitstring_probabilities()
        out.check(set(bpi) == set(probs) and all(abs(bpi[k] - probs[k]) <= TOL for k in probs),
                  {**sig0, "clause": "infer_one_state"}, det)
    np.random.seed((seed() + crc([rec["st"], rec["one"], c])) % (2 ** 32))
    cnt = S.sample(num_shots=shots, one_state=one)
    out.check(sample_ok(cnt, probs, shots, n), {**sig0, "clause": "sample_distribution", "eps": "0/0"},
              {**det, "counts": dict(cnt), "probs": probs})
    # BitStrings observable: detection errors of the configuration's noise model
    for fp, fn in ((0.0, 0.0), (1.0, 0.0), (0.0, 1.0), (1.0, 1.0), (0.25, 0.125)):
        nm = NoiseModel(p_false_pos=fp, p_false_neg=fn) if (fp or fn) else NoiseModel()
        b = BitStrings(num_shots=shots, one_state=one)
        cfg2 = EmulationConfig(observables=[b], noise_model=nm)
        r2 = Results(atom_order=tuple(f"q{i}" for i in range(n)), total_duration=100)
        b(cfg2, 1.0, S, H, r2)
        cnt = r2.get_result("bitstrings", 1.0)
        noisy = {}
        for tb, p in probs.items():
            for ob in range(2 ** n):
                os_ = bitstr(ob, n)
                w = p
                for x, y in zip(tb, os_):
                    w *= ((fn if y == "0" else 1 - fn) if x == "1" else (fp if y == "1" else 1 - fp))
                if w > 0:
                    noisy[os_] = noisy.get(os_, 0.0) + w
        out.check(isinstance(cnt, Counter) and sample_ok(cnt, noisy, shots, n),
                  {**sig0, "clause": "sample_distribution", "eps": f"{fp}/{fn}"},
                  {**det, "counts": dict(cnt), "probs": noisy})


# ------------------------------------------------------------------------------------------
# mode "store": the Results store
class Probe(Observable):
    """A user-defined observable (the store must not depend on the default ones)."""

    @property
    def _base_tag(self):
        return "probe"

    def apply(self, **kwargs):
        return None


def check_store(rec, out, times):
    hist = rec["h"]
    nobs = len(rec["exp"])
    obs = [Occupation(tag_suffix="a"), Energy(), Probe(), Occupation()][:nobs]
    res = Results(atom_order=("q0",), total_duration=1000)
    sig0 = {"len": len(hist)}
    for k, (o, t, outc) in enumerate(hist, start=1):
        before = (res.get_tagged_results(), {tg: res.get_result_times(tg) for tg in res.get_result_tags()})
        try:
            res._store(observable=obs[o - 1], time=t / 12, value=k)
            got = "ok"
        except Exception as e:  # noqa: BLE001
            got = type(e).__name__
        if outc == "ok":
            if not out.check(got == "ok", {**sig0, "clause": "store_accept", "got": got}, {"hist": hist, "step": k}):
                return
        else:
            if not out.check(got != "ok", {**sig0, "clause": "store_refuse", "case": outc}, {"hist": hist, "step": k}):
                return
            after = (res.get_tagged_results(), {tg: res.get_result_times(tg) for tg in res.get_result_tags()})
            if not out.check(after == before, {**sig0, "clause": "refused_store_unchanged", "case": outc},
                             {"hist": hist, "step": k}):
                return
    tags = set()
    for i, e in enumerate(rec["exp"]):
        o = obs[i]
        ts = [t / 12 for t in e["t"]]
        if not ts:
            try:
                res.get_result_times(o)
                ok = False
            except ValueError:
                ok = True
            out.check(ok, {**sig0, "clause": "never_stored_not_retrievable"}, {"hist": hist, "obs": i + 1})
            continue
        tags.add(o.tag)
        ok = (res.get_result_times(o) == ts and res.get_result_times(o.tag) == ts
              and getattr(res, o.tag) == e["v"] and res.get_tagged_results()[o.tag] == e["v"])
        out.check(ok, {**sig0, "clause": "times_and_values"},
                  {"hist": hist, "obs": i + 1, "got_times": res.get_result_times(o), "expected": e})
        for t in times:
            try:
                v = (res.get_result(o, t / 12), res.get_result(o.tag, t / 12))
            except ValueError:
                v = None
            exp = (e["v"][e["t"].index(t)],) * 2 if t in e["t"] else None
            out.check(v == exp, {**sig0, "clause": "get_result"}, {"hist": hist, "obs": i + 1, "t": t, "got": v})
    out.check(set(res.get_result_tags()) == tags and set(res.get_tagged_results()) == tags,
              {**sig0, "clause": "result_tags"}, {"hist": hist, "got": res.get_result_tags()})


# ------------------------------------------------------------------------------------------
# mode "times": which times each observable stores at; observables of a real emulation
SPYLOG = {}


class Spy(Observable):
    """Logs (t, state, hamiltonian) of every call the backend makes (never stores)."""

    @property
    def _base_tag(self):
        return "spy"

    def __call__(self, config, t, state, hamiltonian, result):
        SPYLOG.setdefault(self.uuid, []).append((float(t), state, hamiltonian))

    def apply(self, **kwargs):
        return None


def make_sequence(basis, T):
    reg = Register.from_coordinates([(0.0, 0.0), (7.0, 0.0)][:1 if basis == "ising1" else 2], prefix="q")
    seq = Sequence(reg, MockDevice)
    if basis in ("ising", "ising1", "all"):
        seq.declare_channel("ryd", "rydberg_global")
        seq.add(Pulse.ConstantPulse(T, 9.0, -4.0, 0.5), "ryd")
    if basis in ("digital", "all"):
        seq.declare_channel("ram", "raman_local", initial_target="q1")
        seq.add(Pulse.ConstantPulse(T, 7.0, 2.0, 1.0), "ram", protocol="no-delay")
    if basis == "xy":
        seq.declare_channel("mw", "mw_global")
        seq.add(Pulse.ConstantPulse(T, 8.0, 1.5, 0.25), "mw")
    return seq


def noise_model(kind):
    if kind.startswith("prep") and "r" in kind[4:]:      # "prep<100*eta>r<runs>": only state-preparation errors
        eta, runs = kind[4:].split("r")
        return NoiseModel(state_prep_error=int(eta) / 100, runs=int(runs), samples_per_run=1)
    return {
        "none": lambda: NoiseModel(),
        "dephasing": lambda: NoiseModel(dephasing_rate=2.0),
        "relaxation": lambda: NoiseModel(relaxation_rate=3.0),
        "depolarizing": lambda: NoiseModel(depolarizing_rate=1.5),
        "eff_noise": lambda: NoiseModel(eff_noise_rates=(1.0,), eff_noise_opers=(np.diag([1.0, -1.0]),)),
        "meas": lambda: NoiseModel(p_false_pos=0.25, p_false_neg=0.125),
        "prep": lambda: NoiseModel(state_prep_error=0.25, runs=6, samples_per_run=1),
        "doppler": lambda: NoiseModel(temperature=50.0, runs=3, samples_per_run=1),
        "amplitude": lambda: NoiseModel(amp_sigma=0.1, runs=3, samples_per_run=1),
    }[kind]()


ONE = {"ising": "r", "ising1": "r", "all": "r", "digital": "h", "xy": "d"}
GROUND = {"ising": "g", "ising1": "g", "all": "g", "digital": "g", "xy": "u"}    # level every atom starts in


def stochastic(noise):
    return noise.startswith("prep") or noise in ("doppler", "amplitude")


def own_times(p, o, den):
    w = p["own"][o]
    if not w["has"]:
        return None
    return [k / 12 for k in sorted(w["ts"])]


def default_times(p):
    return "Full" if p["def"]["full"] else [k / 12 for k in sorted(p["def"]["ts"])]


def times_equal(got, exp, den):
    return len(got) == len(exp) and all(abs(float(g) - e / den) <= 1e-9 for g, e in zip(got, exp))


def classify_times(p, o, got, den):
    """Name the way the stored times differ from the requested ones."""
    w = p["own"][o]
    if w["has"]:
        sc = (p["T"] // 12) if p["def"]["full"] else 1
        own = {k * sc for k in w["ts"]}
        dflt = set(range(0, p["T"] + 1)) | {x for q in p["own"] for x in {k * sc for k in q["ts"]}} \
            if p["def"]["full"] else set(p["def"]["ts"])
        if times_equal(got, sorted(own | dflt), den) and not dflt <= own:
            return "own_times_plus_default"
    return "other"


def cause(e):
    m = str(e)
    if "truth value of an" in m:
        return "array_truth_value"
    if "incompatible dimensions" in m:
        return "incompatible_dimensions"
    return "other"


def array_default(p):
    return (not p["def"]["full"]) and len(p["def"]["ts"]) != 1


def check_times_direct(rec, out):
    """Drive Observable.__call__ over the emulation steps with a real EmulationConfig / Results."""
    p, den = rec["p"], rec["den"]
    sig0 = {"exec": "direct"}
    es = ("r", "g")
    S = QutipState.from_state_amplitudes(eigenstates=es, amplitudes={"rg": 0.6, "gr": 0.8j})
    H = QutipOperator.from_operator_repr(eigenstates=es, n_qudits=2,
                                         operations=[(1.0, [({"rg": 1.0, "gr": 1.0}, {0})])])
    obs = [Occupation(evaluation_times=own_times(p, 0, den)), Energy(evaluation_times=own_times(p, 1, den))]
    det = {"p": p}
    try:
        cfg = EmulationConfig(observables=obs, default_evaluation_times=default_times(p))
        res = Results(atom_order=("q0", "q1"), total_duration=p["T"])
        for k in rec["solver"]:
            for o in obs:
                o(cfg, k / den, S, H, res)
    except Exception as e:  # noqa: BLE001
        out.check(False, {**sig0, "clause": "eval_times_run", "exc": type(e).__name__, "cause": cause(e),
                          "default_times": "array_size_ne_1" if array_default(p) else "size_1_or_Full"},
                  {**det, "err": str(e)[:200]})
        return
    for i, o in enumerate(obs):
        exp = rec["exp"][i]
        try:
            got = res.get_result_times(o)
        except ValueError:
            got = []
        if not out.check(times_equal(got, exp, den),
                         {**sig0, "clause": "stored_times", "class": classify_times(p, i, got, den)},
                         {**det, "obs": i, "got": [float(g) for g in got], "expected": [e / den for e in exp]}):
            continue
        vals = getattr(res, o.tag) if got else []
        out.check(len(vals) == len(exp) and all(
            close(v, o.apply(config=cfg, state=S, hamiltonian=H)) for v in vals),
            {**sig0, "clause": "one_value_per_time"}, det)


def np_obs(rho, H, n, d, pos):
    """The definitions, evaluated with numpy on a density matrix (tensor order, qudit 0 first)."""
    size = d ** n
    diag = np.real(np.diag(rho))
    dig = [[(r // d ** (n - 1 - k)) % d for k in range(n)] for r in range(size)]
    occ = [sum(diag[r] for r in range(size) if dig[r][i] == pos) for i in range(n)]
    corr = [[sum(diag[r] for r in range(size) if dig[r][i] == pos and dig[r][j] == pos)
             for j in range(n)] for i in range(n)]
    e = np.trace(rho @ H)
    m2 = np.trace(rho @ H @ H)
    return occ, corr, e.real, m2.real, (m2 - e * e).real


def check_times_backend(rec, out):
    p, den = rec["p"], rec["den"]
    T, basis, noise = p["T"], p["basis"], p["noise"]
    sig0 = {"exec": "backend", "basis": basis, "noise": noise}
    det = {"p": p}
    if T * 1e-3 > T / 1000:       # C11's finding (run() refuses the final time); not part of this lattice
        return
    seq = make_sequence(basis, T)
    one = ONE[basis]
    nm = noise_model(noise)
    ownA, ownB = own_times(p, 0, den), own_times(p, len(p["own"]) - 1, den)
    # fidelity target / expectation operator in the eigenbasis of the emulation
    es = tuple(QutipEmulator.from_sequence(seq).samples_obj.eigenbasis)
    dq = len(es)
    nq = len(seq.register.qubit_ids)
    if nq == 2:
        tgt = QutipState.from_state_amplitudes(eigenstates=es,
                                               amplitudes={es[0] + es[1]: 0.6, es[1] + es[0]: 0.8j})
    else:
        tgt = QutipState.from_state_amplitudes(eigenstates=es, amplitudes={es[0]: 0.6, es[1]: 0.8j})
    xop = QutipOperator.from_operator_repr(eigenstates=es, n_qudits=nq, operations=[
        (1.0, [({es[0] + es[1]: 1.0, es[1] + es[1]: 2.0j}, {0})]),
        (0.5, [({es[0] + es[0]: 1.0}, set(range(nq)))])])
    # realisation-independent facts of the state the observables are computed from (whatever the
    # noise realisations were): occupation of every level, <identity>
    ident = Expectation(QutipOperator.from_operator_repr(eigenstates=es, n_qudits=nq, operations=[(1.0, [])]),
                        evaluation_times=ownB, tag_suffix="id")
    occ_lv = {lv: Occupation(evaluation_times=ownB, one_state=lv, tag_suffix="lv" + lv) for lv in es}
    extras = [ident] + list(occ_lv.values())
    grpA = [Occupation(evaluation_times=ownA, one_state=one), EnergySecondMoment(evaluation_times=ownA),
            Fidelity(tgt, evaluation_times=ownA), BitStrings(evaluation_times=ownA, num_shots=50, one_state=one)]
    grpB = [Energy(evaluation_times=ownB), EnergyVariance(evaluation_times=ownB),
            CorrelationMatrix(evaluation_times=ownB, one_state=one), Expectation(xop, evaluation_times=ownB),
            StateResult(evaluation_times=ownB)]
    spy = Spy()
    SPYLOG.pop(spy.uuid, None)
    np.random.seed((seed() + crc(p)) % (2 ** 32))
    try:
        cfg = QutipConfig(observables=grpA + grpB + extras + [spy], default_evaluation_times=default_times(p),
                          noise_model=nm)
        res = QutipBackendV2(seq, config=cfg).run()
    except Exception as e:  # noqa: BLE001
        out.check(False, {**sig0, "clause": "backend_run", "exc": type(e).__name__, "dim": dq, "cause": cause(e),
                          "branch": "stochastic" if stochastic(noise) else "single_run",
                          "default_times": "array_size_ne_1" if array_default(p) else "size_1_or_Full"},
                  {**det, "err": str(e)[:200]})
        return
    log = SPYLOG.pop(spy.uuid, [])
    # every emulation step was offered to the observables, in ascending order
    steps = [t for t, _, _ in log]
    out.check(times_equal(steps, rec["solver"], den), {**sig0, "clause": "emulation_steps"},
              {**det, "got": steps[:30], "expected": [k / den for k in rec["solver"]][:30]})
    emu = None
    if noise == "none":
        emu = QutipEmulator.from_sequence(seq)
    for grp, o_idx in ((grpA, 0), (grpB, len(p["own"]) - 1)):
        exp = rec["exp"][o_idx]
        for o in grp:
            try:
                got = res.get_result_times(o)
            except ValueError:
                got = []
            if not out.check(times_equal(got, exp, den),
                             {**sig0, "clause": "stored_times", "class": classify_times(p, o_idx, got, den),
                              "observable": o._base_tag},
                             {**det, "got": [float(g) for g in got], "expected": [e / den for e in exp]}):
                pass
            vals = getattr(res, o.tag) if got else []
            out.check(len(vals) == len(got) and vals == res.get_tagged_results().get(o.tag, [])
                      and (not got or res.get_result_times(o.tag) == got),
                      {**sig0, "clause": "retrieve_by_tag", "observable": o._base_tag}, det)
            # every stored value equals the definition evaluated on the emulated state at that time
            for t, v in zip(got, vals):
                hit = [(s, h) for (ts, s, h) in log if abs(ts - float(t)) <= 1e-12]
                if not out.check(len(hit) == 1, {**sig0, "clause": "emulation_steps", "what": "time_not_a_step"},
                                 {**det, "t": float(t)}):
                    continue
                S, Hm = hit[0]
                q = S.to_qobj()
                mixed_cls = "ket" if q.isket else ("mixed" if (q * q).tr().real < 1 - 1e-6 else "pure_dm")
                rho = q.full() @ q.full().conj().T if q.isket else q.full()
                Hf = Hm.to_qobj().full()
                occ, corr, e, m2, var = np_obs(rho, Hf, nq, dq, es.index(one))
                hs = max(1.0, float(np.abs(Hf).sum(axis=1).max()))
                tag = o._base_tag
                sg = {**sig0, "clause": tag, "state": mixed_cls}
                dd = {**det, "t": float(t), "got": str(v)[:200]}
                if tag == "occupation":
                    out.check(close(v, occ, 1e-6), sg, {**dd, "expected": occ})
                elif tag == "correlation_matrix":
                    out.check(close(v, corr, 1e-6), sg, {**dd, "expected": corr})
                elif tag == "energy":
                    out.check(abs(v - e) <= 1e-6 * hs, sg, {**dd, "expected": e})
                    if emu is not None:
                        Href = emu.get_hamiltonian(float(t) * T).full()
                        out.check(close(Hf, Href, 1e-9), {**sig0, "clause": "hamiltonian_at_time"}, dd)
                elif tag == "energy_second_moment":
                    out.check(abs(v - m2) <= 1e-6 * hs * hs, sg, {**dd, "expected": m2})
                elif tag == "energy_variance":
                    out.check(abs(v - var) <= 1e-6 * hs * hs, sg, {**dd, "expected": var})
                elif tag == "fidelity":
                    tv = tgt.to_qobj().full()
                    out.check(abs(v - (tv.conj().T @ rho @ tv)[0, 0].real) <= 1e-6, sg, dd)
                elif tag == "expectation":
                    out.check(abs(v - np.trace(rho @ xop.to_qobj().full())) <= 1e-6 * 4, sg, dd)
                elif tag == "state":
                    out.check(v == S, sg, dd)
                elif tag == "bitstrings":
                    ok = isinstance(v, Counter) and sum(v.values()) == 50 and all(len(k) == nq for k in v)
                    if ok and noise != "meas":
                        pos = es.index(one)
                        bpr = {}
                        for r in range(dq ** nq):
                            key = "".join("1" if (r // dq ** (nq - 1 - k)) % dq == pos else "0" for k in range(nq))
                            bpr[key] = bpr.get(key, 0.0) + float(np.real(rho[r, r]))
                        ok = all(bpr[k] > 1e-9 for k in v)     # sample() drops p < 1/(1000 shots) = 2e-5
                    out.check(ok, sg, dd)
    # Facts that hold for ANY noise realisation: the state every observable is computed from is a
    # state (unit trace, also when realisations are averaged with multiplicities), <identity> = 1, the
    # occupations of all levels of an atom add up to 1, at t = 0 every atom is in its initial level;
    # if every atom is badly prepared (state_prep_error = 1) nothing ever leaves that level.
    st_obs = grpB[-1]
    try:
        st_times = res.get_result_times(st_obs)
    except ValueError:
        st_times = []
    gpos = GROUND[basis]
    for t in st_times:
        dd = {**det, "t": float(t)}
        q = res.get_result(st_obs, t).to_qobj()
        tr = float(q.norm() ** 2) if q.isket else float(q.tr().real)
        out.check(abs(tr - 1.0) <= 1e-4, {**sig0, "clause": "state_unit_trace"}, {**dd, "trace": tr})
        try:
            idv = res.get_result(ident, t)
            lv = {k: np.real(np.asarray(res.get_result(o, t), dtype=complex)) for k, o in occ_lv.items()}
        except ValueError:
            out.check(False, {**sig0, "clause": "stored_times", "class": "other", "observable": "extras"}, dd)
            continue
        out.check(abs(idv - 1.0) <= 1e-4, {**sig0, "clause": "identity_expectation"}, {**dd, "got": str(idv)})
        tot = sum(lv.values())
        out.check(bool(np.all(np.abs(tot - 1.0) <= 1e-4)), {**sig0, "clause": "occupation_sum"},
                  {**dd, "got": {k: v.tolist() for k, v in lv.items()}})
        if abs(float(t)) <= 1e-12 or noise.startswith("prep100r"):
            ok = all(np.all(np.abs(v - (1.0 if k == gpos else 0.0)) <= 1e-6) for k, v in lv.items())
            out.check(ok, {**sig0, "clause": "initial_occupation" if abs(float(t)) <= 1e-12
                           else "all_atoms_unprepared"}, {**dd, "got": {k: v.tolist() for k, v in lv.items()}})


# ------------------------------------------------------------------------------------------
CHECKS = {"rep": check_rep, "alg": check_alg, "act": check_act, "obs": check_obs}


def _work(args):
    kind, recs, extra = args
    out = Out()
    for rec in recs:
        try:
            if kind == "store":
                check_store(rec, out, extra)
            elif kind == "times":
                if rec["p"]["basis"] == "direct":
                    check_times_direct(rec, out)
                else:
                    check_times_backend(rec, out)
            elif kind == "obs":
                check_obs(rec, out, shots=extra)
            else:
                CHECKS[kind](rec, out)
        except (MemoryError, OSError):
            import traceback
            return ("ERR", traceback.format_exc() + json.dumps(rec)[:500], 0)
        except Exception as e:  # noqa: BLE001
            # Every call outside a try block succeeds on the unchanged tree for every point of the
            # lattice (the reference says the operation is defined), so an exception here is the
            # implementation refusing / crashing on a valid input: a violation, not a machinery failure.
            import traceback
            tb = traceback.extract_tb(e.__traceback__)
            where = next((f"{os.path.basename(fr.filename)}:{fr.name}" for fr in reversed(tb)
                          if "/pulser" in fr.filename), "harness")
            out.check(False, {"clause": "unexpected_exception", "mode": kind, "exc": type(e).__name__,
                              "where": where},
                      {"err": str(e)[:300], "trace": traceback.format_exc()[-1500:], "rec": json.dumps(rec)[:600]})
    return ("OK", out.reports, out.tests)


def run_points(kind, pts, V, extra=None, procs=14, chunk=40):
    """Execute the points on the implementation in a process pool; returns #assertions."""
    chunks = [(kind, pts[i:i + chunk], extra) for i in range(0, len(pts), chunk)]
    tests = 0
    with ProcessPoolExecutor(max_workers=procs) as ex:
        for status, reports, n in ex.map(_work, chunks):
            if status == "ERR":
                print("MACHINERY-FAILURE: C20 check raised:\n" + str(reports))
                raise SystemExit(2)
            tests += n
            for sig, detail in reports:
                V.report(sig, detail)
    return tests


def tla_set(items):
    return "{" + ", ".join(items) + "}"


def dn(d, n, s1="{}", s2="{}", lean=False, ords='{"id", "rot"}'):
    return f"<<{d}, {n}, {s1}, {s2}, {'TRUE' if lean else 'FALSE'}, {ords}>>"


def tdef(full, ts):
    return f"[full |-> {'TRUE' if full else 'FALSE'}, ts |-> {tla_set(map(str, ts))}]"


def town(has, ts):
    return f"[has |-> {'TRUE' if has else 'FALSE'}, ts |-> {tla_set(map(str, ts))}]"


def bpt(T, d, owns, basis, noise):
    return (f'[T |-> {T}, def |-> {d}, own |-> <<{", ".join(owns)}>>, basis |-> "{basis}", '
            f'noise |-> "{noise}"]')


def lattices(quick):
    """The constants of every TLC run of this tier (DN tuples of spec/Observables.tla)."""
    all2, all3, all4 = "{1,2,3,4,5}", "{1,2,5,6,8}", "{1,5,6,7}"
    one = '{"id"}'
    if quick:
        rep = [dn(2, 1, all2, "{1,5}"), dn(3, 1, all3, "{5,6}"), dn(4, 1, all4, "{7}"),
               dn(2, 2, "{1,2,5}", "{1,5}"), dn(3, 2, "{1,5,6}", "{6}"), dn(4, 2, "{1,7}", "{7}"),
               dn(2, 3, "{1,5}", "{5}"), dn(2, 4, "{1,5}"), dn(3, 3, "{5,6}"),
               dn(4, 3, "{7}", ords=one), dn(3, 4, "{6}", ords=one), dn(4, 4, "{7}", ords=one)]
        full = [dn(2, 1), dn(2, 2), dn(3, 1), dn(4, 1), dn(2, 3), dn(3, 2), dn(4, 2), dn(2, 4)]
        lean = [dn(3, 3, lean=True), dn(4, 3, lean=True, ords=one), dn(3, 4, lean=True, ords=one)]
        return {"rep": rep, "alg": full + lean, "act": full + lean, "obs": full + lean,
                "maxlaw": 16, "maxrep": 81, "maxprod": 27}      # 256-dim systems: "rep" only (thorough: all)
    three = '{"id", "rot", "rev"}'
    rep = [dn(2, 1, all2, all2, ords=three), dn(3, 1, all3, all3, ords=three),
           dn(4, 1, all4 + " \\cup {2, 8}", all4, ords=three),
           dn(2, 2, all2, "{1,2,5}", ords=three), dn(3, 2, "{1,2,5,6}", "{5,6}", ords=three),
           dn(4, 2, "{1,5,7}", "{1,7}", ords=three),
           dn(2, 3, "{1,2,5}", "{5}"), dn(2, 4, "{1,2,5}"), dn(2, 4, "{5}", "{5}"),
           dn(3, 3, "{1,5,6}"), dn(3, 3, "{6}", "{6}"), dn(4, 3, "{5,7}"), dn(3, 4, "{6}"),
           dn(4, 4, "{7}", ords=one)]
    full = [dn(2, 1, ords=three), dn(2, 2, ords=three), dn(3, 1, ords=three), dn(4, 1, ords=three),
            dn(2, 3, ords=three), dn(3, 2, ords=three), dn(4, 2, ords=three), dn(2, 4, ords=three),
            dn(3, 3)]
    lean = [dn(4, 3, lean=True), dn(3, 4, lean=True), dn(4, 4, lean=True)]
    return {"rep": rep, "alg": full + lean, "act": full + lean, "obs": full + lean,
            "maxlaw": 27, "maxrep": 81, "maxprod": 81}


def times_constants(quick):
    defs = [tdef(True, []), tdef(False, [12]), tdef(False, [6]), tdef(False, [3, 12]), tdef(False, [])]
    owns = [town(False, []), town(True, [6]), town(True, [0, 3, 12]), town(True, [4, 9]), town(True, [])]
    if not quick:
        defs += [tdef(False, [0, 4, 8, 12]), tdef(False, [0])]
        owns += [town(True, [12]), town(True, [0, 1, 2, 11])]
    durs = "{24, 100}" if quick else "{16, 20, 24, 48, 100}"
    one, half = tdef(False, [12]), tdef(False, [6])
    none, mid, three = town(False, []), town(True, [6]), town(True, [0, 3, 12])
    bp = []
    # the time lattice on a plain emulation
    tsel = [(tdef(True, []), [none, mid]), (one, [none, none]), (one, [mid, none]), (one, [three, mid]),
            (half, [none, three]), (tdef(False, [3, 12]), [none, mid]), (tdef(False, []), [mid, three])]
    if not quick:
        tsel += [(tdef(True, []), [three, none]), (one, [town(True, [4, 9]), town(True, [])]),
                 (half, [mid, mid]), (tdef(False, [0]), [none, town(True, [12])])]
    for T in ((24,) if quick else (24, 48, 100)):
        for d, ow in tsel:
            if T % 12 == 0 or "TRUE" not in d.split(",")[0]:
                bp.append(bpt(T, d, ow, "ising", "none"))
    # every basis x every noise model the backend accepts, observables at mid-pulse and at the end
    for basis in ("ising", "all", "digital", "xy"):
        for noise in ("none", "dephasing", "relaxation", "depolarizing", "eff_noise", "meas", "prep",
                      "doppler", "amplitude"):
            if basis == "xy" and noise in ("relaxation", "doppler", "amplitude"):
                continue        # not defined for the XY interaction (SimConfig refuses them)
            if basis == "all" and noise in ("eff_noise", "depolarizing"):
                continue        # 2x2 operator of the lattice / "Cannot include depolarizing noise in all-basis"
            if basis == "digital" and noise == "relaxation":
                continue        # "'relaxation' noise requires addressing of the 'ground-rydberg' basis"
            bp.append(bpt(40, one, [three, none], basis, noise))
            if not quick:
                bp.append(bpt(24, tdef(True, []), [none, mid], basis, noise))
                bp.append(bpt(100, half, [town(True, [4, 9]), three], basis, noise))
    # state-preparation errors only (each realisation is a ket, identical bad-atom configurations are
    # grouped with a multiplicity): 1 and 2 atoms, observables at t = 0, 1/4, 1
    for basis in ("ising1", "ising"):
        for eta in (30, 100):
            for nruns in (1, 8, 40):
                bp.append(bpt(40, one, [three, three], basis, f"prep{eta}r{nruns}"))
    return {"Mode": '"times"', "NObs": "2", "Times": "{0}", "Depth": "0", "Durations": durs,
            "DefChoices": tla_set(defs), "OwnChoices": tla_set(owns), "BackendPts": tla_set(bp)}


def run(tier):
    V = Verdict("C20", tier)
    if os.path.exists(FINDINGS):
        V.known += json.load(open(FINDINGS))
    quick = tier != "thorough"
    L = lattices(quick)
    pid = os.getpid()          # private TLC work directories: concurrent runs of this check do not collide
    runs, tests_total, samples = [], 0, []
    t_impl = 0.0
    for mode in ("rep", "alg", "act", "obs"):
        res, pts = enumerate_points(
            "C20", f"obs-{mode}-{pid}", "Observables",
            {"Mode": f'"{mode}"', "DN": tla_set(L[mode]), "MaxLaw": str(L["maxlaw"]),
             "MaxRep": str(L["maxrep"]), "MaxProd": str(L["maxprod"])}, ["Emit", "Laws"])
        t0 = time.time()
        n = run_points(mode, pts, V, extra=(300 if quick else 1500) if mode == "obs" else None)
        t_impl += time.time() - t0
        tests_total += n
        by = Counter(f'd{p["c"]["d"]}n{p["c"]["n"]}' for p in pts)
        runs.append({"config": f"Observables/{mode}", "tlc_distinct": res.distinct, "tlc_generated": res.generated,
                     "tlc_s": round(res.wall, 1), "points": len(pts), "implementation_assertions": n,
                     "points_by_size": dict(sorted(by.items())), "cmd": res.cmd})
        samples += [{k: v for k, v in p.items() if k in ("m", "c", "f", "ok", "one", "en", "m2", "den")}
                    for p in pts[:1]]
    # Results store
    store_times = [0, 4, 12] if quick else [0, 3, 6, 12]
    depth = 4 if quick else 5
    res, pts = enumerate_points(
        "C20", f"results-store-{pid}", "ObsResults",
        {"Mode": '"store"', "NObs": "2" if quick else "3", "Times": tla_set(map(str, store_times)),
         "Depth": str(depth), "Durations": "{}", "DefChoices": "{}", "OwnChoices": "{}", "BackendPts": "{}"},
        ["Emit", "Laws"])
    t0 = time.time()
    n = run_points("store", pts, V, extra=store_times, chunk=400)
    t_impl += time.time() - t0
    tests_total += n
    runs.append({"config": "ObsResults/store", "tlc_distinct": res.distinct, "tlc_generated": res.generated,
                 "tlc_s": round(res.wall, 1), "points": len(pts), "implementation_assertions": n,
                 "depth": depth, "cmd": res.cmd})
    samples.append(pts[-1])
    # evaluation times (direct driver + backend runs)
    res, pts = enumerate_points("C20", f"results-times-{pid}", "ObsResults", times_constants(quick),
                                 ["Emit", "Laws"])
    t0 = time.time()
    n = run_points("times", pts, V, chunk=6)
    t_impl += time.time() - t0
    tests_total += n
    nb = sum(1 for p in pts if p["p"]["basis"] != "direct")
    runs.append({"config": "ObsResults/times", "tlc_distinct": res.distinct, "tlc_generated": res.generated,
                 "tlc_s": round(res.wall, 1), "points": len(pts), "backend_runs": nb,
                 "direct_runs": len(pts) - nb, "implementation_assertions": n, "cmd": res.cmd})
    samples.append({k: pts[-1][k] for k in ("p", "den", "exp")})
    for tag in [f"obs-{m}-{pid}" for m in ("rep", "alg", "act", "obs")] + [f"results-store-{pid}",
                                                                            f"results-times-{pid}"]:
        shutil.rmtree(os.path.join(WORK, "C20", tag), ignore_errors=True)
    cov = {
        "states": sum(r["tlc_distinct"] for r in runs),
        "transitions": sum(r["tlc_generated"] for r in runs),
        "traces_validated_against_impl": sum(r["points"] for r in runs),
        "implementation_assertions": tests_total,
        "implementation_s": round(t_impl, 1),
        "samples": samples,
        "exhaustive": True,
        "per_config": runs,
        "rule": "Observables: qudit dimension 2..4 x 1..4 qudits x eigenstate orders; operator representations = "
                "every assignment qudit -> catalogue operator (grouped into (QuditOp, set) pairs) x coefficients, "
                "1 or 2 terms, plus invalid/special representations; pairs of catalogue operators x scalars; "
                "catalogue operators x states (kets with Gaussian-integer amplitudes, pure and mixed density "
                "matrices with integer weights); states x Hermitian operators x one-state; every value an exact "
                "rational.  ObsResults/store: every sequence of store attempts (observable, time) up to the depth. "
                "ObsResults/times: durations x default evaluation times x own evaluation times of two observables "
                "(driven through Observable.__call__) plus bases x noise models run on QutipBackendV2.",
        "checker_cmd": runs[0]["cmd"],
    }
    return V.finish(cov, assumptions=[
        "float amplitudes = Gaussian integers / sqrt(norm); comparisons within 1e-9 relative (1e-6 at the backend "
        "level, above the solver's norm drift, far below any difference between lattice values)",
        "sampling: exact support and total; per bin the exact binomial two-sided 1e-13 region, numpy seeded "
        "from VERIF_SEED",
        "evaluation times on a grid of 1/12 with sequence durations for which requested times are >= 1 ns apart; "
        "durations where T*1e-3 > T/1000 (C11 finding) are not in the lattice",
        "numerical accuracy of qutip's solvers and linear algebra is trusted",
    ])
