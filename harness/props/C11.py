"""C11: emulation keeps states physical and follows the measurement conventions.

References (TLA+, enumerated by TLC, every printed point executed on the implementation):
  spec/EmuBits.tla   bit conventions, register order, detection errors, distributions (exact rationals)
  spec/EmuTimes.tla  which states a V2 run must hold for (T, sampling rate, default / own evaluation times, shape)
  spec/EmuReconf.tla histories of noise configurations (one parameter changed at a time): set_config = fresh emulator
  spec/EmuQubit.tla  exact dynamics of isolated atoms at Clifford points (Rabi quarter periods, zero drive,
                     detuned idle periods) in the three bases
Only monitored (no reference, inequalities on observations of the runs): norm of state vectors, trace /
Hermiticity / positivity of density matrices under dissipative noise.

Readings taken where the statement leaves room (the current code is right under them):
  * "gives the analytic Rabi oscillation": the emulator integrates a spline through 1 ns samples, so the area
    of a constant pulse is only defined up to Omega * 1 ns; populations are compared within that band.
  * "the same states" (legacy vs V2): same state at the same absolute time within the ODE solver's accuracy
    (band 5e-3 on amplitudes / density-matrix entries: V2 integrates without max_step and is
    less accurate at pulse edges, observed <= 9e-4; genuine differences are O(0.01 .. 1)).
  * statistical clauses: 6-sigma bounds on seeded samples.
  * a V2 observable with its own evaluation times ALSO stores at the default times in this tree; that is C20's
    subject ("exactly the requested times"): here every stored state is compared, extra times are only counted.
"""
import functools
import json
import math
import multiprocessing as mp
import os
import time
import zlib

import numpy as np

from ..env import REPO, WORK, assert_tree, seed

assert_tree()
import qutip  # noqa: E402
from pulser import NoiseModel, Pulse, Register, Sequence  # noqa: E402
from pulser.backend.config import EmulatorConfig  # noqa: E402
from pulser.backend.default_observables import BitStrings, StateResult  # noqa: E402
from pulser.devices import MockDevice  # noqa: E402
from pulser.result import SampledResult  # noqa: E402
from pulser_simulation import (QutipBackend, QutipBackendV2, QutipConfig, QutipEmulator,  # noqa: E402
                               QutipState, SimConfig)
from pulser_simulation.qutip_result import QutipResult  # noqa: E402
from pulser_simulation.simresults import CoherentResults  # noqa: E402

from ..tla import run_tlc, unquote_tla_string  # noqa: E402
from .common import Verdict, enumerate_points  # noqa: E402

HERE = os.path.dirname(os.path.abspath(__file__))
ONE = {"ground-rydberg": "r", "digital": "h", "XY": "d"}          # the letter measured as 1 (statement)
TWO = {"ground-rydberg": "rg", "digital": "gh", "XY": "ud"}       # documented state-vector order of each basis
CORE_NAME = {"rg": "ground-rydberg", "gh": "digital", "ud": "XY", "rgh": "all"}
IDS = ["q7", "a", "10", "B"]                                      # register order is NOT the sorted order
SPACING = 2000.0                                                  # um: isolated atoms
STATE_TOL = 5e-3      # "same state" band, see module docstring (observed <= 9.5e-4 outside the finding classes)
NORM_TOL = 1e-3       # | |psi|^2 - 1 |, |tr rho - 1|  (observed <= 1.5e-4; the solvers run with normalize_output=False)
HERM_TOL = 1e-8
POS_TOL = 1e-5        # lambda_min >= -POS_TOL
NSHOTS = 4000
NOISE_EVERY = 4       # one program in NOISE_EVERY is also run with a dissipative noise model


# ------------------------------------------------------------------------------------------------ plumbing
class Rep:
    """What one worker call sends back."""

    def __init__(self):
        self.tests = 0
        self.reports = []
        self.obs = {}

    def bad(self, sig, detail):
        self.reports.append((sig, detail))

    def watch(self, key, val):
        self.obs[key] = max(self.obs.get(key, 0.0), float(val))

    def out(self):
        return {"tests": self.tests, "reports": self.reports, "obs": self.obs}


def _seed_for(rec, salt=0):
    np.random.seed((zlib.crc32(json.dumps(rec, sort_keys=True).encode()) ^ (seed() * 2654435761) ^ salt) & 0xFFFFFFFF)


def _crc(rec):
    return zlib.crc32(json.dumps(rec, sort_keys=True).encode())


def _guard(fn):
    """A worker never dies.  An exception raised INSIDE the implementation (a frame of the tree under test is on
    the traceback) at a lattice point is a failed run of a legal configuration, i.e. a violation with clause
    "run_returns"; an exception of the harness itself is a machinery failure (exit 2)."""
    @functools.wraps(fn)
    def wrapped(rec):
        try:
            return fn(rec)
        except Exception as e:  # noqa: BLE001
            import traceback
            frames = traceback.extract_tb(e.__traceback__)
            root = os.path.abspath(REPO) + os.sep
            inside = [f for f in frames if os.path.abspath(f.filename).startswith(root)]
            if inside:
                sig = {"clause": "run_returns", "exc": type(e).__name__, "worker": fn.__name__,
                       "where": f"{os.path.basename(inside[-1].filename)}:{inside[-1].name}"}
                return {"tests": 1, "reports": [(sig, {"point": rec, "error": str(e)[:300]})], "obs": {}}
            return {"tests": 0, "reports": [], "obs": {}, "rec": rec,
                    "crash": f"{type(e).__name__}: {e}\n{traceback.format_exc()[-1500:]}"}
    return wrapped


def pool_map(fn, items, chunk=8):
    items = list(items)
    if not items:
        return []
    nproc = max(2, min(16, os.cpu_count() or 4))
    ctx = mp.get_context("fork")
    with ctx.Pool(nproc) as pool:
        return list(pool.imap_unordered(fn, items, chunksize=chunk))


def simulate_points(tag, module, constants, invariants, num, depth):
    """TLC -simulate (seeded random walks) on `module`; every state TLC evaluates the invariants on is printed
    (the walk and the siblings of each of its steps).  Returns (TLCResult, [records])."""
    pts = []

    def on_line(line):
        if line.startswith('"PT|'):
            pts.append(json.loads(unquote_tla_string(line)[3:]))

    gen = (f"---- MODULE MC_{module} ----\nEXTENDS {module}\n"
           + "\n".join(f"G_{k} == {v}" for k, v in constants.items()) + "\n====\n")
    cfg = "SPECIFICATION Spec\nCONSTANTS\n" + "\n".join(f"  {k} <- G_{k}" for k in constants) + "\n"
    cfg += "".join(f"INVARIANT {i}\n" for i in invariants)
    res = run_tlc(os.path.join(WORK, "C11", tag), f"MC_{module}", cfg, gen, on_line=on_line, workers=1,
                  simulate=f"num={num}", extra=("-depth", str(depth), "-seed", str(seed() + 11)))
    if not res.ok:
        print(f"MACHINERY-FAILURE: TLC -simulate failed on {module}/{tag}: {res.errors[:3]}")
        print("\n".join(res.tail[-30:]))
        raise SystemExit(2)
    return res, pts


def bitstr(k, n):
    return format(k, "0%db" % n)


def check_counts(counts, p, N, n, slack=0.0):
    """6-sigma agreement of sampled bitstring counts with the exact distribution p (None = fine)."""
    counts = {str(k): int(v) for k, v in counts.items()}
    if sum(counts.values()) != N:
        return f"{sum(counts.values())} samples returned instead of {N}"
    for k in counts:
        if len(k) != n or set(k) - {"0", "1"}:
            return f"malformed bitstring {k!r}"
    for k in range(2 ** n):
        c, pk = counts.get(bitstr(k, n), 0), float(p[k])
        dev = abs(c - N * pk)
        if dev > 6.0 * math.sqrt(max(N * pk * (1 - pk), 0.0)) + 0.5 + slack:
            return f"bitstring {bitstr(k, n)}: {c}/{N} samples, expected probability {pk:.6f}"
    return None


def product_ket(s, eb):
    """|s_1> (x) |s_2> (x) ... in register order (documented multi-partite convention)."""
    return qutip.tensor([qutip.basis(len(eb), eb.index(l)) for l in s])


def basis_name_of(eb):
    return CORE_NAME[eb.replace("x", "")] + ("_with_error" if "x" in eb else "")


def state_dev(x, y):
    return float(np.max(np.abs(x.full() - y.full())))


def physical_dev(st):
    """(norm/trace deviation, hermiticity deviation, -lambda_min) of a ket or density matrix."""
    if st.isket:
        return abs(float(np.vdot(st.full(), st.full()).real) - 1.0), 0.0, 0.0
    m = st.full()
    ev = np.linalg.eigvalsh((m + m.conj().T) / 2)
    return abs(float(np.trace(m).real) - 1.0), float(np.max(np.abs(m - m.conj().T))), max(0.0, -float(ev.min()))


def check_physical(R, st, sig, detail, noisy):
    dn, dh, dp = physical_dev(st)
    R.tests += 1
    R.watch("max_trace_dev" if noisy else "max_norm_dev", dn)
    R.watch("max_herm_dev", dh)
    R.watch("max_neg_eig", dp)
    if noisy and not st.isoper:
        R.bad({**sig, "clause": "density_matrix_physical", "what": "not_an_operator"}, detail)
    elif dn > NORM_TOL:
        R.bad({**sig, "clause": "density_matrix_physical" if noisy else "state_normalised",
               "what": "trace" if noisy else "norm"}, {**detail, "deviation": dn})
    elif dh > HERM_TOL:
        R.bad({**sig, "clause": "density_matrix_physical", "what": "hermitian"}, {**detail, "deviation": dh})
    elif dp > POS_TOL:
        R.bad({**sig, "clause": "density_matrix_physical", "what": "positive"}, {**detail, "lambda_min": -dp})


def overshoots(T):
    """Input class of finding KF-C11-v2-final-time-overshoot: fl(T * 1e-3) > fl(T / 1000)."""
    return 1.0 * T * 1e-3 > T / 1000


def classify_v2_exception(e, asks_end, multi_default, T, dim, stochastic):
    msg = str(e)
    if isinstance(e, ValueError) and "extends further than sequence duration" in msg and asks_end and overshoots(T):
        return "final_time_overshoot"
    if isinstance(e, ValueError) and "truth value of an array" in msg and multi_default:
        return "default_times_array_vs_Full"
    if isinstance(e, ValueError) and "incompatible dimensions" in msg and dim > 2 and stochastic:
        return "noisy_branch_two_level_only"
    return "other"


def v2_last(R, r, tag, sig0, det0):
    """Value stored by V2 at the end of the sequence (relative time 1) for `tag`, or None (reported)."""
    vals = r.get_tagged_results().get(tag, [])
    if not vals:
        R.bad({**sig0, "clause": "v2_holds_requested_times", "what": f"no_{tag}_stored"}, det0)
        return None
    tlast = float(r.get_result_times(tag)[-1])
    if abs(tlast - 1.0) > 0.5 / max(1, r.total_duration) + 1e-12:
        R.bad({**sig0, "clause": "v2_holds_requested_times", "what": f"{tag}_not_at_end"}, {**det0, "last_time": tlast})
        return None
    return vals[-1]


# ------------------------------------------------------------------------------------- EmuBits: object level
@_guard
def bits_worker(rec):
    R = Rep()
    eb, mb, a, b, w, f = rec["e"], rec["m"], rec["a"], rec["b"], rec["w"], tuple(rec["f"])
    n, dim = len(a), len(eb)
    _seed_for(rec)
    p = np.array(rec["d"], dtype=float) / 4 ** (n + 1)
    one, ids = ONE[mb], tuple(IDS[:n])
    ka, kb = product_ket(a, eb), product_ket(b, eb)
    if int(np.argmax(np.abs(ka.full()))) != rec["i"][0] or int(np.argmax(np.abs(kb.full()))) != rec["i"][1]:
        raise AssertionError(f"reference tensor index disagrees with qutip.tensor for {rec}")
    pure = w == 4
    if pure:
        states = {"ket": ka, "dm": ka.proj()}
    else:
        wa, wb = w / 4, 1 - w / 4
        states = {"ket": math.sqrt(wa) * ka + 1j * math.sqrt(wb) * kb, "dm": wa * ka.proj() + wb * kb.proj()}
    matching = eb.replace("x", "") == TWO[mb]
    bname = basis_name_of(eb)
    sig0 = {"eb": eb, "mb": mb, "kind": "pure" if pure else "mixture", "n": n}
    det0 = {"point": rec}
    noerr = f == (0, 0)
    eps, epsp = f[0] / 4, f[1] / 4
    certain = all(x in (0, 4 ** (n + 1)) for x in rec["d"])
    N = 40 if certain else (1000 if noerr else NSHOTS)
    exp_dist = {bitstr(k, n): p[k] for k in range(2 ** n) if p[k] > 0}
    can_coherent = ("all" in bname) or (bname.replace("_with_error", "") == mb)

    if not certain and not noerr:          # statistical points: one of the two forms (rotating)
        form = ("ket", "dm")[_crc(rec) % 2]
        states = {form: states[form]}
    for form, st in states.items():
        qr = QutipResult(ids, mb, st, matching)
        if noerr:
            # 1. QutipResult: weights ordered by the bitstring read as a binary number, sampling_dist, sum = 1
            R.tests += 3
            wts = np.asarray(qr._weights(), dtype=float)
            if wts.shape != p.shape or not np.allclose(wts, p, atol=1e-12):
                R.bad({**sig0, "clause": "bit_convention", "api": "QutipResult._weights", "form": form},
                      {**det0, "got": wts.tolist(), "expected": p.tolist()})
            sd = {str(k): float(v) for k, v in qr.sampling_dist.items()}
            if set(sd) != set(exp_dist) or any(abs(sd[k] - exp_dist[k]) > 1e-12 for k in sd):
                R.bad({**sig0, "clause": "bit_convention", "api": "QutipResult.sampling_dist", "form": form},
                      {**det0, "got": sd, "expected": exp_dist})
            if abs(sum(sd.values()) - 1) > 1e-12:
                R.bad({**sig0, "clause": "distribution_sums_to_one", "api": "QutipResult.sampling_dist", "form": form},
                      {**det0, "sum": sum(sd.values())})
            # 2. multinomial sampling of the exact distribution
            R.tests += 1
            msg = check_counts(qr.get_samples(N), p, N, n)
            if msg:
                R.bad({**sig0, "clause": "sampling", "api": "Result.get_samples", "form": form}, {**det0, "why": msg})
            # 3. QutipState
            if one in eb:
                qs = QutipState(st, eigenstates=tuple(eb))
                variants = [("one_state", dict(one_state=one))]
                if eb in TWO.values():
                    variants.append(("inferred", {}))
                for vname, kw in variants:
                    R.tests += 1
                    bp = {str(k): float(v) for k, v in qs.bitstring_probabilities(**kw).items()}
                    if (set(k for k, v in bp.items() if v > 1e-12) != set(exp_dist)
                            or any(abs(bp.get(k, 0.0) - exp_dist[k]) > 1e-9 for k in exp_dist)
                            or abs(sum(bp.values()) - 1) > 1e-9):
                        R.bad({**sig0, "clause": "bit_convention", "api": "QutipState.bitstring_probabilities",
                               "form": form, "variant": vname}, {**det0, "got": bp, "expected": exp_dist})
        # 4. QutipState.sample with detection errors
        if one in eb:
            R.tests += 1
            qs = QutipState(st, eigenstates=tuple(eb))
            c = qs.sample(num_shots=N, one_state=one, p_false_pos=eps, p_false_neg=epsp)
            msg = check_counts(c, p, N, n)
            if msg:
                R.bad({**sig0, "clause": "bit_convention" if noerr else "detection_errors", "api": "QutipState.sample",
                       "form": form, "f": list(f)}, {**det0, "why": msg, "counts": dict(c)})
        # 5. CoherentResults: sampling (with the legacy detection-error model) and the pseudo-density matrix
        if can_coherent:
            errs_list = [None, {"epsilon": 0.0, "epsilon_prime": 0.0}] if noerr else [{"epsilon": eps, "epsilon_prime": epsp}]
            for errs in errs_list:
                cr = CoherentResults([qr], n, bname, np.array([0.0]), mb, errs)
                for api, call in (("sample_final_state", lambda: cr.sample_final_state(N)),
                                  ("sample_state", lambda: cr.sample_state(0.0, N))):
                    R.tests += 1
                    c = call()
                    msg = check_counts(c, p, N, n)
                    if msg:
                        R.bad({**sig0, "clause": "bit_convention" if noerr else "detection_errors",
                               "api": "CoherentResults." + api, "form": form, "f": list(f),
                               "errs": "none" if errs is None else "dict"}, {**det0, "why": msg, "counts": dict(c)})
                if errs is not None and matching and eb.replace("x", "") in TWO.values():
                    # expectation of the diagonal projector "atom i reads 1" on the pseudo-density matrix
                    #   = the reference probability Marg/16 (field r), and = the sampled frequency (6 sigma);
                    # the pseudo-density is a 2-level object in the documented state-vector order of the
                    # measurement basis (r, h, d = |1> of XY at index 0, 1, 1), with or without the leakage level
                    pos = 0 if mb == "ground-rydberg" else 1
                    Nf = 40 if certain else 2000
                    freq = cr.sample_final_state(Nf)
                    for i in range(n):
                        R.tests += 2
                        ob = qutip.tensor([qutip.basis(2, pos).proj() if j == i else qutip.qeye(2) for j in range(n)])
                        got = float(np.real(cr.expect([ob])[0][0]))
                        marg = rec["r"][i] / 16
                        clause = "bit_convention" if noerr else "detection_errors"
                        if abs(got - marg) > 1e-9:
                            R.bad({**sig0, "clause": clause, "api": "CoherentResults.expect(pseudo-density)",
                                   "form": form, "f": list(f)}, {**det0, "atom": i, "got": got, "expected": marg})
                        ones = sum(v for k, v in freq.items() if str(k)[i] == "1")
                        if abs(ones - Nf * got) > 6.0 * math.sqrt(max(Nf * got * (1 - got), 0.0)) + 0.5:
                            R.bad({**sig0, "clause": clause, "api": "CoherentResults.expect vs sample_final_state",
                                   "form": form, "f": list(f)},
                                  {**det0, "atom": i, "expect": got, "sampled_ones": ones, "shots": Nf})
    # 6. SampledResult built from counts proportional to the reference distribution
    if noerr:
        R.tests += 3
        counts = {bitstr(k, n): int(rec["d"][k]) for k in range(2 ** n) if rec["d"][k] > 0}
        sr = SampledResult(ids, mb, counts)
        sd = {str(k): float(v) for k, v in sr.sampling_dist.items()}
        if set(sd) != set(exp_dist) or any(abs(sd[k] - exp_dist[k]) > 1e-12 for k in sd):
            R.bad({**sig0, "clause": "bit_convention", "api": "SampledResult.sampling_dist"},
                  {**det0, "got": sd, "expected": exp_dist})
        if abs(sum(sd.values()) - 1) > 1e-12:
            R.bad({**sig0, "clause": "distribution_sums_to_one", "api": "SampledResult.sampling_dist"},
                  {**det0, "sum": sum(sd.values())})
        msg = check_counts(sr.get_samples(N), p, N, n)
        if msg:
            R.bad({**sig0, "clause": "sampling", "api": "SampledResult.get_samples"}, {**det0, "why": msg})
    return R.out()


# ---------------------------------------------------------------------------------- EmuBits: emulator level
def register(n):
    return Register({IDS[i]: (SPACING * i, 0.0) for i in range(n)})


def prep_sequence(s, eb, meas, T=200):
    """All atoms start in g; local pi pulses (all at the same time) bring atom i to the level s[i]."""
    n = len(s)
    seq = Sequence(register(n), MockDevice)
    chans = {"r": "rydberg_local", "h": "raman_local"}
    om = math.pi / (T * 1e-3)
    for l in ("r", "h"):
        if l not in eb:
            continue
        need = [IDS[i] for i in range(n) if s[i] == l]
        seq.declare_channel(l, chans[l], initial_target=need or [IDS[0]])
        if need:
            seq.add(Pulse.ConstantPulse(T, om, 0.0, 0.0), l, protocol="no-delay")
        else:   # keeps the basis addressed (non-zero samples) without any physical effect: 1e-6 rad/us for T ns
            seq.add(Pulse.ConstantPulse(T, 0.0, 1e-6, 0.0), l, protocol="no-delay")
    if meas:
        seq.measure(meas)
    return seq


DEFAULT_MEAS = {"rg": "ground-rydberg", "gh": "digital", "rgh": "digital", "ud": "XY"}


@_guard
def emu_prep_worker(rec):
    """Pure product state prepared by local pi pulses, sampled by the legacy emulator and by V2."""
    R = Rep()
    eb, mb, a, f = rec["e"], rec["m"], rec["a"], tuple(rec["f"])
    n, dim = len(a), len(eb)
    _seed_for(rec, 1)
    p = np.array(rec["d"], dtype=float) / 4 ** (n + 1)
    noerr = f == (0, 0)
    eps, epsp = f[0] / 4, f[1] / 4
    certain = all(x in (0, 4 ** (n + 1)) for x in rec["d"])
    N = 40 if certain else 4000
    slack = 3 + N * 1e-3              # the pi pulses are exact up to ~1e-5 (1 ns sampling of the pulse edge)
    use_default = DEFAULT_MEAS[eb] == mb and (_crc(rec) & 1) == 1
    sig0 = {"eb": eb, "mb": mb, "n": n, "level": "emulator", "measure": "default" if use_default else "explicit"}
    det0 = {"point": rec}
    seq = prep_sequence(a, eb, None if use_default else mb)
    x0 = rec["x"][0]
    # legacy
    cfg = None if noerr else SimConfig(noise="SPAM", eta=0.0, epsilon=eps, epsilon_prime=epsp)
    em = QutipEmulator.from_sequence(seq, evaluation_times="Minimal", config=cfg)
    res = em.run()
    fin = res[-1]
    R.tests += 4
    if tuple(fin.atom_order) != tuple(IDS[:n]):
        R.bad({**sig0, "clause": "register_order", "api": "QutipEmulator.run"}, {**det0, "atom_order": fin.atom_order})
    sd = {str(k): float(v) for k, v in fin.sampling_dist.items()}
    if sd.get(x0, 0.0) < 1 - 1e-3:
        R.bad({**sig0, "clause": "bit_convention", "api": "QutipEmulator.run/sampling_dist"},
              {**det0, "got": sd, "expected_bitstring": x0})
    if abs(sum(sd.values()) - 1) > 1e-9:
        R.bad({**sig0, "clause": "distribution_sums_to_one", "api": "QutipEmulator.run/sampling_dist"},
              {**det0, "sum": sum(sd.values())})
    c = res.sample_final_state(N)
    msg = check_counts(c, p, N, n, slack)
    if msg:
        R.bad({**sig0, "clause": "bit_convention" if noerr else "detection_errors",
               "api": "QutipEmulator.run/sample_final_state", "f": list(f)}, {**det0, "why": msg, "counts": dict(c)})
    for st in res.states:
        check_physical(R, st, {**sig0, "api": "QutipEmulator.run"}, det0, noisy=False)
    # V2
    nm = NoiseModel() if noerr else NoiseModel(p_false_pos=eps, p_false_neg=epsp)
    bobs = BitStrings(num_shots=N, one_state=ONE[mb] if dim > 2 else None)
    R.tests += 3
    try:
        r = QutipBackendV2(seq, config=QutipConfig(observables=[StateResult(), bobs], noise_model=nm)).run()
    except Exception as e:  # noqa: BLE001
        R.bad({**sig0, "clause": "v2_runs", "exc": type(e).__name__,
               "why": classify_v2_exception(e, True, False, seq.get_duration(), dim, False)},
              {**det0, "error": str(e)[:300]})
        return R.out()
    if tuple(r.atom_order) != tuple(IDS[:n]):
        R.bad({**sig0, "clause": "register_order", "api": "QutipBackendV2.run"}, {**det0, "atom_order": r.atom_order})
    c2 = v2_last(R, r, "bitstrings", sig0, det0)
    msg = check_counts(c2, p, N, n, slack) if c2 is not None else None
    if msg:
        R.bad({**sig0, "clause": "bit_convention" if noerr else "detection_errors",
               "api": "QutipBackendV2.run/BitStrings", "f": list(f)},
              {**det0, "why": msg, "counts": {str(k): int(v) for k, v in c2.items()}})
    v = v2_last(R, r, "state", sig0, det0)
    if v is not None:
        d = state_dev(v.to_qobj(), res.states[-1])
        R.watch("max_v2_legacy_dev", d)
        if d > STATE_TOL:
            R.bad({**sig0, "clause": "v2_equals_legacy", "why": "other", "program": "simultaneous_local_pi_pulses"},
                  {**det0, "deviation": d})
    return R.out()


@_guard
def emu_zero_worker(rec):
    """All-zero drive: the (arbitrary) initial state is returned unchanged and sampled with the conventions."""
    R = Rep()
    eb, mb, a, b, w = rec["e"], rec["m"], rec["a"], rec["b"], rec["w"]
    n = len(a)
    _seed_for(rec, 2)
    p = np.array(rec["d"], dtype=float) / 4 ** (n + 1)
    ka, kb = product_ket(a, eb), product_ket(b, eb)
    ket = ka if w == 4 else math.sqrt(w / 4) * ka + 1j * math.sqrt(1 - w / 4) * kb
    variant = ("delay", "zero_pulse")[_crc(rec) % 2]
    T = 24 + _crc(rec) % 37
    while overshoots(T):
        T += 1
    sig0 = {"eb": eb, "mb": mb, "n": n, "level": "emulator", "drive": variant}
    det0 = {"point": rec, "T": T}
    seq = Sequence(register(n), MockDevice)
    seq.declare_channel("ch", "mw_global" if mb == "XY" else "rydberg_global")
    if variant == "delay":
        seq.delay(T, "ch")
    else:
        seq.add(Pulse.ConstantPulse(T, 0.0, 0.0, 0.0), "ch")
    em = QutipEmulator.from_sequence(seq)
    em.set_initial_state(ket)
    res = em.run()
    N = 40 if w == 4 else 4000
    R.tests += 3
    worst = max(state_dev(st, ket) for st in res.states)
    R.watch("max_zero_drive_dev", worst)
    if worst > 1e-6:
        R.bad({**sig0, "clause": "zero_drive_unchanged", "api": "QutipEmulator.run"}, {**det0, "deviation": worst})
    sd = {str(k): float(v) for k, v in res[-1].sampling_dist.items()}
    exp_dist = {bitstr(k, n): p[k] for k in range(2 ** n) if p[k] > 0}
    if any(abs(sd.get(k, 0.0) - exp_dist.get(k, 0.0)) > 1e-6 for k in set(sd) | set(exp_dist)) \
            or abs(sum(sd.values()) - 1) > 1e-9:
        R.bad({**sig0, "clause": "bit_convention", "api": "QutipEmulator.run/sampling_dist"},
              {**det0, "got": sd, "expected": exp_dist})
    msg = check_counts(res.sample_final_state(N), p, N, n, slack=2)
    if msg:
        R.bad({**sig0, "clause": "bit_convention", "api": "QutipEmulator.run/sample_final_state"}, {**det0, "why": msg})
    for st in res.states[:: max(1, len(res.states) // 4)]:
        check_physical(R, st, {**sig0, "api": "QutipEmulator.run"}, det0, noisy=False)
    # V2 with the same initial state
    R.tests += 2
    try:
        cfgv = QutipConfig(observables=[StateResult(evaluation_times=[0.0, 0.5, 1.0]), BitStrings(num_shots=N)],
                           initial_state=QutipState(ket, eigenstates=tuple(eb)))
        r = QutipBackendV2(seq, config=cfgv).run()
    except Exception as e:  # noqa: BLE001
        R.bad({**sig0, "clause": "v2_runs", "exc": type(e).__name__,
               "why": classify_v2_exception(e, True, False, T, len(eb), False)}, {**det0, "error": str(e)[:300]})
        return R.out()
    if v2_last(R, r, "state", sig0, det0) is not None:
        worst = max(state_dev(s.to_qobj(), ket) for s in r.get_tagged_results()["state"])
        R.watch("max_zero_drive_dev", worst)
        if worst > 1e-6:
            R.bad({**sig0, "clause": "zero_drive_unchanged", "api": "QutipBackendV2.run"}, {**det0, "deviation": worst})
        if len(r.get_tagged_results()["state"]) < 3:
            R.bad({**sig0, "clause": "v2_holds_requested_times", "what": "count"},
                  {**det0, "stored": [float(t) for t in r.get_result_times("state")], "requested": [0.0, 0.5, 1.0]})
    c2 = v2_last(R, r, "bitstrings", sig0, det0)
    msg = check_counts(c2, p, N, n, slack=2) if c2 is not None else None
    if msg:
        R.bad({**sig0, "clause": "bit_convention", "api": "QutipBackendV2.run/BitStrings"}, {**det0, "why": msg})
    return R.out()


@_guard
def emu_spam_worker(rec):
    """State-preparation errors with eta = 1: every atom is dark, so every run reads the detection errors only."""
    R = Rep()
    eb, mb, a, f = rec["e"], rec["m"], rec["a"], tuple(rec["f"])
    n = len(a)
    _seed_for(rec, 3)
    eps, epsp = f[0] / 4, f[1] / 4
    seq = prep_sequence(a, eb, mb)
    runs, spr = 5, 3
    em = QutipEmulator.from_sequence(seq, evaluation_times="Minimal",
                                     config=SimConfig(noise="SPAM", eta=1.0, epsilon=eps, epsilon_prime=epsp,
                                                      runs=runs, samples_per_run=spr))
    res = em.run()
    sig0 = {"eb": eb, "mb": mb, "n": n, "level": "emulator", "noise": "SPAM(eta=1)"}
    det0 = {"point": rec}
    R.tests += 3
    # all atoms stay in g (read 0), then a 0 is read as 1 with probability eps
    exp = {"0" * n: 1.0} if eps == 0 else ({"1" * n: 1.0} if eps == 1 else None)
    for k, r_ in enumerate(res):
        sd = {str(x): float(v) for x, v in r_.sampling_dist.items()}
        if abs(sum(sd.values()) - 1) > 1e-9:
            R.bad({**sig0, "clause": "distribution_sums_to_one", "api": "NoisyResults.sampling_dist"}, {**det0, "got": sd})
        if exp is not None and sd != exp:
            R.bad({**sig0, "clause": "detection_errors", "api": "QutipEmulator.run/NoisyResults", "f": list(f)},
                  {**det0, "got": sd, "expected": exp, "time_index": k})
        if exp is not None:
            # the "state" of a NoisyResults is the diagonal pseudo-density in the documented state-vector order
            # (ground-rydberg: r = index 0, so the all-zero bitstring gg..g is the LAST basis vector)
            R.tests += 1
            diag = np.real(res.get_state(res._sim_times[k]).diag())
            want = np.zeros(2 ** n)
            want[(2 ** n - 1) if eps == 0 else 0] = 1.0
            if not np.allclose(diag, want, atol=1e-12):
                R.bad({**sig0, "clause": "bit_convention", "api": "NoisyResults.get_state"},
                      {**det0, "diag": diag.tolist(), "expected": want.tolist()})
        if sum(r_.bitstring_counts.values()) != runs * spr:
            R.bad({**sig0, "clause": "sampling", "api": "QutipEmulator.run/NoisyResults"},
                  {**det0, "counts": dict(r_.bitstring_counts), "expected_total": runs * spr})
    return R.out()


@_guard
def emu_leak_worker(rec):
    """Leakage bases (`*_with_error`) through the legacy emulator: SPAM detection errors with eta = 0 (so that
    CoherentResults come back), leakage + a 3x3 effective noise operator of negligible rate; the product state is
    prepared by local pi pulses (ground-rydberg, digital; no atom in x) or given as the initial state of an
    all-zero drive (ground-rydberg, XY; atoms in x allowed).  expect() of "atom i reads 1" against the reference
    probability and against the sampled bitstrings."""
    R = Rep()
    eb, mb, a, f = rec["e"], rec["m"], rec["a"], tuple(rec["f"])
    n = len(a)
    _seed_for(rec, 7)
    p = np.array(rec["d"], dtype=float) / 4 ** (n + 1)
    eps, epsp = f[0] / 4, f[1] / 4
    certain = all(x in (0, 4 ** (n + 1)) for x in rec["d"])
    N = 40 if certain else 2000
    core = eb.replace("x", "")
    by_pulses = "x" not in a and (core == "gh" or (core == "rg" and _crc(rec) % 2 == 0))
    if not by_pulses and core == "gh":
        return R.out()           # a zero drive is emulated in the ground-rydberg (or XY) basis: no digital variant
    sig0 = {"eb": eb, "mb": mb, "n": n, "level": "emulator", "noise": "SPAM+leakage+eff_noise",
            "prepared": "pi_pulses" if by_pulses else "initial_state"}
    det0 = {"point": rec}
    decay = np.zeros((3, 3))
    decay[1, 2] = 1.0            # x -> second level, at a rate that changes nothing over the run
    cfg = SimConfig(noise=("SPAM", "leakage", "eff_noise"), eta=0.0, epsilon=eps, epsilon_prime=epsp,
                    eff_noise_rates=[1e-9], eff_noise_opers=[qutip.Qobj(decay)])
    if by_pulses:
        seq = prep_sequence(a, core, mb)
        tol, slack = 2e-3, 3 + N * 1e-3
    else:
        seq = Sequence(register(n), MockDevice)
        seq.declare_channel("ch", "mw_global" if mb == "XY" else "rydberg_global")
        seq.delay(40, "ch")
        tol, slack = 1e-6, 2
    em = QutipEmulator.from_sequence(seq, evaluation_times="Minimal", config=cfg)
    if not by_pulses:
        em.set_initial_state(product_ket(a, eb))
    res = em.run()
    R.tests += 3
    if not isinstance(res, CoherentResults) or em.basis_name != basis_name_of(eb):
        R.bad({**sig0, "clause": "run_returns", "what": "results_kind"},
              {**det0, "type": type(res).__name__, "basis_name": em.basis_name})
        return R.out()
    for st in res.states:
        check_physical(R, st, {**sig0, "api": "QutipEmulator.run"}, det0, noisy=True)
    c = res.sample_final_state(N)
    msg = check_counts(c, p, N, n, slack)
    clause = "bit_convention" if f == (0, 0) else "detection_errors"
    if msg:
        R.bad({**sig0, "clause": clause, "api": "QutipEmulator.run/sample_final_state", "f": list(f)},
              {**det0, "why": msg, "counts": dict(c)})
    pos = 0 if mb == "ground-rydberg" else 1
    # without any detection error the noise model has no SPAM component and expect() works on the 3-level
    # states, not on the pseudo-density matrix (and SimulationResults._dim ignores the leakage level there:
    # outside this property), so the expectation clause is exercised with configured errors only
    for i in (range(n) if f != (0, 0) else ()):
        R.tests += 2
        ob = qutip.tensor([qutip.basis(2, pos).proj() if j == i else qutip.qeye(2) for j in range(n)])
        got = float(np.real(res.expect([ob])[0][-1]))
        marg = rec["r"][i] / 16
        if abs(got - marg) > tol:
            R.bad({**sig0, "clause": clause, "api": "QutipEmulator.run/expect(pseudo-density)", "f": list(f)},
                  {**det0, "atom": i, "got": got, "expected": marg})
        ones = sum(v for k, v in c.items() if str(k)[i] == "1")
        if abs(ones - N * got) > 6.0 * math.sqrt(max(N * got * (1 - got), 0.0)) + 0.5 + slack:
            R.bad({**sig0, "clause": clause, "api": "QutipEmulator.run/expect vs sample_final_state", "f": list(f)},
                  {**det0, "atom": i, "expect": got, "sampled_ones": ones, "shots": N})
    return R.out()


# ------------------------------------------------------------------------ initial state given in every accepted way
@_guard
def emu_init_worker(rec):
    """The initial state of an EmuBits point (product or superposed, 2-level bases) handed over as numpy array,
    qutip.Qobj and QutipState, normalised or scaled by a factor: the emulated state has norm 1 at every evaluation
    time and all ways give the same states as the normalised Qobj, under a zero drive or a resonant pulse."""
    R = Rep()
    eb, mb, a, b, w = rec["e"], rec["m"], rec["a"], rec["b"], rec["w"]
    n = len(a)
    c = _crc(rec)
    _seed_for(rec, 8)
    ka, kb = product_ket(a, eb), product_ket(b, eb)
    ket = ka if w == 4 else math.sqrt(w / 4) * ka + 1j * math.sqrt(1 - w / 4) * kb
    scale = (1.0, 2.0, 0.5, 3.0)[c % 4]
    drive = ("zero", "resonant")[(c >> 2) % 2]
    T = 40 + (c >> 3) % 23
    while overshoots(T):
        T += 1
    seq = Sequence(register(n), MockDevice)
    seq.declare_channel("ch", "mw_global" if mb == "XY" else "rydberg_global")
    if drive == "zero":
        seq.delay(T, "ch")
    else:
        seq.add(Pulse.ConstantPulse(T, 0.5 * math.pi / (T * 1e-3), 0.0, 0.0), "ch")
    sig0 = {"eb": eb, "mb": mb, "n": n, "level": "emulator", "drive": drive,
            "scaled": "no" if scale == 1.0 else "yes"}
    det0 = {"point": rec, "T": T, "scale": scale}
    ev = [T * q / 3000 for q in range(4)]

    def legacy(state):
        em = QutipEmulator.from_sequence(seq, evaluation_times=ev)
        em.set_initial_state(state)
        return em.run().states

    ref = legacy(ket)                                          # normalised Qobj
    ways = {"Qobj": lambda: legacy(scale * ket),
            "array": lambda: legacy(scale * ket.full()),
            "EmulatorConfig(array)": lambda: QutipBackend(
                seq, EmulatorConfig(evaluation_times=ev, initial_state=scale * ket.full().ravel())).run().states}
    for st in ref:
        check_physical(R, st, {**sig0, "api": "QutipEmulator.run", "given_as": "normalised Qobj"}, det0, noisy=False)
    if drive == "zero":
        R.tests += 1
        worst = max(state_dev(st, ket) for st in ref)
        if worst > 1e-6:
            R.bad({**sig0, "clause": "zero_drive_unchanged", "api": "QutipEmulator.run"}, {**det0, "deviation": worst})
    for wname, call in ways.items():
        states = call()
        sigw = {**sig0, "given_as": wname}
        for st in states:
            check_physical(R, st, {**sigw, "api": "QutipEmulator.run"}, det0, noisy=False)
        R.tests += 1
        worst = max(state_dev(x, y) for x, y in zip(states, ref)) if len(states) == len(ref) else 9.0
        if worst > 1e-7:
            R.bad({**sigw, "clause": "initial_state_same_results", "api": "QutipEmulator.run"}, {**det0, "deviation": worst})
    # V2: QutipState built from the scaled Qobj or from scaled amplitudes
    amps = {a: scale * (1.0 if w == 4 else math.sqrt(w / 4))}
    if w != 4:
        amps[b] = scale * 1j * math.sqrt(1 - w / 4)
    v2ways = {"QutipState(Qobj)": QutipState(scale * ket, eigenstates=tuple(eb)),
              "QutipState.from_state_amplitudes": QutipState.from_state_amplitudes(eigenstates=tuple(eb), amplitudes=amps)}
    for wname, qs in v2ways.items():
        sigw = {**sig0, "given_as": wname}
        R.tests += 2
        try:
            r = QutipBackendV2(seq, config=QutipConfig(observables=[StateResult(evaluation_times=[0.0, 1 / 3, 1.0])],
                                                       initial_state=qs)).run()
        except Exception as e:  # noqa: BLE001
            R.bad({**sigw, "clause": "v2_runs", "exc": type(e).__name__,
                   "why": classify_v2_exception(e, True, False, T, len(eb), False)}, {**det0, "error": str(e)[:300]})
            continue
        for sv in r.get_tagged_results().get("state", []):
            check_physical(R, sv.to_qobj(), {**sigw, "api": "QutipBackendV2.run"}, det0, noisy=False)
        v = v2_last(R, r, "state", sigw, det0)
        if v is not None:
            d = state_dev(v.to_qobj(), ref[-1])
            R.watch("max_v2_legacy_dev", d)
            if d > STATE_TOL:
                R.bad({**sigw, "clause": "initial_state_same_results", "api": "QutipBackendV2.run"}, {**det0, "deviation": d})
    return R.out()


# ------------------------------------------------------------------------------------------- EmuReconf histories
RATE = {1: 0.5, 2: 1.5}


def noise_model_of(cfg, basis):
    kw = {}
    for p_ in ("dephasing_rate", "hyperfine_dephasing_rate", "relaxation_rate", "depolarizing_rate"):
        if cfg[p_]:
            kw[p_] = RATE[cfg[p_]]
    if cfg["eff_noise_rate"]:
        dim = 3 if basis == "all" else 2
        op = np.zeros((dim, dim))
        op[1, 0] = 1.0
        op[dim - 1, dim - 1] = 0.5
        kw["eff_noise_rates"] = (RATE[cfg["eff_noise_rate"]],)
        kw["eff_noise_opers"] = (op,)
    if cfg["temperature"]:
        kw.update(temperature=40.0 * cfg["temperature"], runs=1, samples_per_run=1)
    return NoiseModel(**kw)


def reconf_sequence(basis):
    n = 2 if basis == "gr" else 1
    seq = Sequence(register(n), MockDevice)
    if basis in ("gr", "all"):
        seq.declare_channel("ry", "rydberg_global")
        seq.add(Pulse.ConstantPulse(200, 6.0, 1.0, 0.0), "ry")
    if basis in ("dig", "all"):
        seq.declare_channel("ra", "raman_local", initial_target=IDS[0])
        seq.add(Pulse.ConstantPulse(200, 5.0, 0.0, 0.0), "ra", protocol="no-delay")
    return seq


@_guard
def reconf_worker(rec):
    """One QutipEmulator built with hist[0] and re-configured with hist[1:], against a fresh emulator built with
    the configuration in force (the last one)."""
    R = Rep()
    basis, hist = rec["b"], rec["h"]
    _seed_for(rec, 9)
    seq = reconf_sequence(basis)
    T = seq.get_duration()
    ev = [T / 2000, T / 1000]
    changed = [[p_ for p_ in hist[i] if hist[i][p_] != hist[i + 1][p_]][0] for i in range(len(hist) - 1)]
    sig0 = {"basis": basis, "changed": changed[-1], "steps": len(hist) - 1,
            "old_on": "+".join(sorted(p_ for p_ in hist[-2] if hist[-2][p_])) or "none"}
    det0 = {"point": rec}
    em = QutipEmulator.from_sequence(seq, evaluation_times=ev, config=SimConfig.from_noise_model(noise_model_of(hist[0], basis)))
    if _crc(rec) % 2:
        em.run()                                   # the old configuration has been used before it is replaced
    for cfg in hist[1:]:
        em.set_config(SimConfig.from_noise_model(noise_model_of(cfg, basis)))
    got = em.run().states
    fresh = QutipEmulator.from_sequence(seq, evaluation_times=ev,
                                        config=SimConfig.from_noise_model(noise_model_of(hist[-1], basis))).run().states
    R.tests += 2
    if len(got) != len(fresh) or any(x.type != y.type for x, y in zip(got, fresh)):
        R.bad({**sig0, "clause": "reconfigured_equals_fresh", "what": "kind_of_states"},
              {**det0, "got": [x.type for x in got], "fresh": [y.type for y in fresh]})
        return R.out()
    worst = max(state_dev(x, y) for x, y in zip(got, fresh))
    R.watch("max_reconfigured_vs_fresh_dev", worst)
    if worst > 1e-7:
        R.bad({**sig0, "clause": "reconfigured_equals_fresh"}, {**det0, "deviation": worst})
    noisy = any(hist[-1].values())
    for st in got:
        check_physical(R, st, {**sig0, "api": "QutipEmulator.set_config/run"}, det0, noisy=noisy and st.isoper)
    return R.out()


# ------------------------------------------------------------------------------------------- EmuTimes points
CHAN = {0: ("ground-rydberg", "rydberg_global"), 1: ("digital", "raman_global"), 2: ("XY", "mw_global")}


def times_sequence(rec):
    n, segs = rec["n"], rec["sh"]
    seq = Sequence(register(n), MockDevice)
    seq.declare_channel("ch", CHAN[rec["bs"]][1])
    tp = sum(d for k, d in segs if k == "P")
    om = 0.7 * math.pi / (tp * 1e-3)
    ph = 0.3
    for k, d in segs:
        if k == "P":
            seq.add(Pulse.ConstantPulse(d, om, 0.4 * om, ph), "ch")
            ph += 0.8
        else:
            seq.delay(d, "ch")
    return seq


def idle_then_pulse_start(segs):
    """Absolute time (ns) from which finding KF-C11-v2-no-max-step applies: the start of the first pulse that
    follows an idle period (None if there is none)."""
    t, seen_idle = 0, False
    for k, d in segs:
        if k == "I":
            seen_idle = True
        elif seen_idle:
            return t
        t += d
    return None


@_guard
def times_worker(rec):
    R = Rep()
    T, rd, D, O, n = rec["T"], rec["rd"], rec["D"], rec["O"], rec["n"]
    basis = CHAN[rec["bs"]][0]
    _seed_for(rec, 4)
    seq = times_sequence(rec)
    assert seq.get_duration() == T, (seq.get_duration(), T)
    full_default = D == [-1]
    own = [k / 12 for k in O] if O else None
    default = "Full" if full_default else [k / 12 for k in D]
    asks_end = (12 in O) or (not full_default and 12 in D)
    multi_default = (not full_default) and len(D) >= 2
    sig0 = {"rate": f"1/{rd}", "default": "Full" if full_default else f"{len(D)}_times",
            "own": "none" if not O else f"{len(O)}_times", "basis": basis, "n": n,
            "shape": "".join(k for k, _ in rec["sh"])}
    det0 = {"point": rec}
    nshots = 16
    R.tests += 1
    try:
        cfg = QutipConfig(observables=[StateResult(evaluation_times=own), BitStrings(num_shots=nshots)],
                          default_evaluation_times=default, sampling_rate=1 / rd)
        r = QutipBackendV2(seq, config=cfg).run()
    except Exception as e:  # noqa: BLE001
        R.bad({**sig0, "clause": "v2_runs", "exc": type(e).__name__,
               "why": classify_v2_exception(e, asks_end, multi_default, T, 2, False)},
              {**det0, "error": str(e)[:300], "T_overshoots": overshoots(T)})
        return R.out()
    tagged = r.get_tagged_results()
    states = tagged.get("state", [])                      # nothing stored at all = nothing held
    stored = [float(t) for t in r.get_result_times("state")] if states else []
    # (a) a state is held at every required time; (b) times ascending, inside [0, 1]
    tol = 0.5 / T + 1e-12
    required = [j / T for j in range(T + 1)] if (rec["full"] and rd == 1) else \
               ([0.0, 1.0] if rec["full"] else [q / (12 * T) for q in rec["q"]])
    R.tests += len(required) + 2
    arr = np.array(stored)
    missing = [t for t in required if not np.any(np.abs(arr - t) <= tol)]
    if missing:
        R.bad({**sig0, "clause": "v2_holds_requested_times"}, {**det0, "missing": missing[:5], "stored": stored[:20]})
    if len(stored) < rec["mc"]:
        R.bad({**sig0, "clause": "v2_holds_requested_times", "what": "count"},
              {**det0, "stored": len(stored), "at_least": rec["mc"]})
    if any(y <= x for x, y in zip(stored, stored[1:])) or (stored and (stored[0] < 0 or stored[-1] > 1 + 1e-12)):
        R.bad({**sig0, "clause": "v2_times_ascending"}, {**det0, "stored": stored[:20]})
    R.obs["extra_stored_times"] = float(sum(1 for t in stored if not any(abs(t - q) <= tol for q in required)))
    # (c) every stored state equals the legacy state at the same absolute time
    times_us = sorted({min(max(t, 0.0) * T / 1000, T / 1000) for t in stored}) or [T / 1000]
    em = QutipEmulator.from_sequence(seq, sampling_rate=1 / rd, evaluation_times=times_us)
    lres = em.run()
    sim_t = np.asarray(lres._sim_times, dtype=float)
    t_idle = idle_then_pulse_start(rec["sh"])
    first_bad = None
    for t, s in zip(stored, states):
        R.tests += 2
        i = int(np.argmin(np.abs(sim_t - t * T / 1000)))
        v = s.to_qobj()
        d = state_dev(v, lres.states[i])
        in_class = t_idle is not None and t * T >= t_idle - 1       # the interpolated drive rises 1 ns earlier
        if d > STATE_TOL:
            if first_bad is None:
                first_bad = (t, d)
        R.watch("max_v2_legacy_dev_after_idle(finding class)" if in_class else "max_v2_legacy_dev", d)
        check_physical(R, v, {**sig0, "api": "QutipBackendV2.run"}, {**det0, "t": t}, noisy=False)
    if first_bad is not None:
        t, d = first_bad
        after_idle = t_idle is not None and t * T >= t_idle - 1
        R.bad({**sig0, "clause": "v2_equals_legacy", "why": "drive_after_idle" if after_idle else "other"},
              {**det0, "first_mismatch_at": t, "deviation": d, "idle_then_pulse_from_ns": t_idle})
    for st in lres.states:
        check_physical(R, st, {**sig0, "api": "QutipEmulator.run"}, det0, noisy=False)
    for res_t in lres:
        R.tests += 1
        s1 = sum(res_t.sampling_dist.values())
        if abs(s1 - 1) > 1e-9:
            R.bad({**sig0, "clause": "distribution_sums_to_one", "api": "QutipEmulator.run/sampling_dist"},
                  {**det0, "sum": s1})
            break
    # legacy look-up by time: get_state(t) / sample_state(t) address the state stored for t (1 ns tolerance)
    if len(sim_t) >= 3 and np.min(np.diff(sim_t)) > 2.5e-3:
        R.tests += 2
        j = len(sim_t) // 2
        got = lres.get_state(float(sim_t[j]), ignore_global_phase=False)
        if state_dev(got, lres.states[j]) > 1e-12:
            R.bad({**sig0, "clause": "legacy_evaluation_times", "choice": "get_state(t)"}, {**det0, "t_us": float(sim_t[j])})
        want = np.asarray(lres[j]._weights(), dtype=float)
        msg = check_counts(lres.sample_state(float(sim_t[j]), 2000), want, 2000, n)
        if msg:
            R.bad({**sig0, "clause": "sampling", "api": "CoherentResults.sample_state(t)"}, {**det0, "why": msg})
    # (d) sampled bitstrings of V2
    for c in tagged.get("bitstrings", []):
        R.tests += 1
        if sum(c.values()) != nshots or any(len(str(k)) != n or set(str(k)) - {"0", "1"} for k in c):
            R.bad({**sig0, "clause": "sampling", "api": "QutipBackendV2.run/BitStrings"},
                  {**det0, "counts": {str(k): int(v) for k, v in c.items()}})
            break
    # (e) the legacy emulator itself: the state at a time does not depend on the choice of evaluation times,
    #     and the wrapper QutipBackend is the same emulator (a rotating subset of the points)
    pick = _crc(rec) % 4
    if pick == 0:
        R.tests += 2
        alt = QutipEmulator.from_sequence(seq, sampling_rate=1 / rd, evaluation_times="Minimal").run()
        if len(alt.states) != 2 or abs(alt._sim_times[0]) > 0 or abs(alt._sim_times[-1] - T / 1000) > 1e-12:
            R.bad({**sig0, "clause": "legacy_evaluation_times", "choice": "Minimal"}, {**det0, "times": list(alt._sim_times)})
        d = state_dev(alt.states[-1], lres.states[-1])
        if d > STATE_TOL:
            R.bad({**sig0, "clause": "legacy_evaluation_times", "choice": "Minimal", "what": "state"}, {**det0, "deviation": d})
    elif pick == 1:
        R.tests += 2
        alt = QutipEmulator.from_sequence(seq, sampling_rate=1 / rd, evaluation_times="Full").run()
        at = np.asarray(alt._sim_times, dtype=float)
        if abs(at[0]) > 0 or abs(at[-1] - T / 1000) > 1e-12 or len(at) < T // rd - 1 or np.any(np.diff(at) <= 0):
            R.bad({**sig0, "clause": "legacy_evaluation_times", "choice": "Full"}, {**det0, "n_times": len(at)})
        worst = 0.0
        for i, tt in enumerate(sim_t):
            j = int(np.argmin(np.abs(at - tt)))
            if abs(at[j] - tt) < 1e-9:
                worst = max(worst, state_dev(alt.states[j], lres.states[i]))
        if worst > STATE_TOL:
            R.bad({**sig0, "clause": "legacy_evaluation_times", "choice": "Full", "what": "state"}, {**det0, "deviation": worst})
    elif pick == 3 and T // rd >= 8:
        R.tests += 2
        alt = QutipEmulator.from_sequence(seq, sampling_rate=1 / rd, evaluation_times=0.5).run()
        at = np.asarray(alt._sim_times, dtype=float)
        nfull = len(em.sampling_times)
        if (abs(at[0]) > 0 or abs(at[-1] - T / 1000) > 1e-12 or np.any(np.diff(at) <= 0)
                or not (nfull // 2 - 1 <= len(at) <= nfull // 2 + 2)
                or any(np.min(np.abs(em.sampling_times - x)) > 1e-12 for x in at[:-1])):
            R.bad({**sig0, "clause": "legacy_evaluation_times", "choice": "float"},
                  {**det0, "n_times": len(at), "n_sampling_times": nfull})
        d = state_dev(alt.states[-1], lres.states[-1])
        if d > STATE_TOL:
            R.bad({**sig0, "clause": "legacy_evaluation_times", "choice": "float", "what": "state"}, {**det0, "deviation": d})
    elif pick == 2:
        R.tests += 1
        ec = EmulatorConfig(sampling_rate=1 / rd, evaluation_times=list(times_us))
        wres = QutipBackend(seq, ec).run()
        worst = max(state_dev(x, y) for x, y in zip(wres.states, lres.states)) if len(wres.states) == len(lres.states) else 9.0
        if worst > 1e-9:
            R.bad({**sig0, "clause": "legacy_evaluation_times", "choice": "QutipBackend"}, {**det0, "deviation": worst})
    return R.out()


# ------------------------------------------------------------------------------------------- EmuQubit points
QCH = {"ground-rydberg": ("rydberg_global", "rydberg_local"), "digital": ("raman_global", "raman_local"),
       "XY": ("mw_global", None)}
DURS = [157, 233, 181, 211, 263, 199]      # ns: multiples of nothing in particular


def qubit_sequence(rec):
    basis, n, ops = rec["b"], rec["n"], rec["ops"]
    seq = Sequence(register(n), MockDevice)
    seq.declare_channel("g", QCH[basis][0])
    local = any(op[3] > 0 for op in ops)
    if local:
        seq.declare_channel("l", QCH[basis][1], initial_target=IDS[0])
    durs = [DURS[(i + len(ops)) % len(DURS)] for i in range(len(ops))]
    if durs:
        while overshoots(sum(durs)):         # stay outside the input class of the final-time finding
            durs[-1] += 1
    rates = 0.0
    for op, d in zip(ops, durs):
        kind, k, j, tgt = op
        if local:
            seq.align("g", "l")
        ch = "g" if tgt == 0 else "l"
        if tgt > 0:
            seq.target(IDS[tgt - 1], "l")
        if kind == "P":
            om = k * (math.pi / 2) / (d * 1e-3)
            seq.add(Pulse.ConstantPulse(d, om, 0.0, j * math.pi / 2), ch)
            rates += om
        elif kind == "D":
            de = k * (math.pi / 2) / (d * 1e-3)
            seq.add(Pulse.ConstantPulse(d, 0.0, de, 0.0), ch)
            rates += abs(de)
        elif (len(ops) + d) % 2:                # zero drive: a delay ...
            seq.delay(d, "g")
        else:                                   # ... or a pulse with zero amplitude and zero detuning
            seq.add(Pulse.ConstantPulse(d, 0.0, 0.0, 0.0), "g")
    return seq, rates


def noise_for(rec):
    """A dissipative noise model for a rotating subset of the programs (None = noiseless only)."""
    basis, c = rec["b"], _crc(rec)
    kinds = {"ground-rydberg": ["dephasing", "relaxation", "depolarizing", "eff_noise"],
             "digital": ["dephasing", "depolarizing", "eff_noise"],
             "XY": ["dephasing", "depolarizing", "eff_noise"]}[basis]
    kind = kinds[(c >> 3) % len(kinds)]
    if kind == "dephasing":
        return kind, NoiseModel(dephasing_rate=0.6, hyperfine_dephasing_rate=0.25)
    if kind == "relaxation":
        return kind, NoiseModel(relaxation_rate=0.5)
    if kind == "depolarizing":
        return kind, NoiseModel(depolarizing_rate=0.4)
    lower = np.array([[0.0, 1.0], [0.0, 0.0]])
    zed = np.array([[1.0, 0.0], [0.0, -1.0]])
    return kind, NoiseModel(eff_noise_rates=(0.5, 0.2), eff_noise_opers=(lower, zed))


@_guard
def qubit_worker(rec):
    R = Rep()
    basis, n, ops, exp = rec["b"], rec["n"], rec["ops"], rec["p"]
    _seed_for(rec, 5)
    sig0 = {"basis": basis, "n": n, "nops": len(ops)}
    det0 = {"point": rec}
    if not ops:
        return R.out()                      # an empty program cannot be emulated (no instruction)
    seq, rates = qubit_sequence(rec)
    T = seq.get_duration()
    # input class of finding KF-C11-v2-no-max-step: a drive (pulse or detuning) that starts after an idle period
    idle_before_pulse = any(ops[i][0] in "WD" and any(o[0] in "PD" for o in ops[i + 1:]) for i in range(len(ops)))
    only_zero = all(op[0] == "W" for op in ops)
    ev = [T * q / 4000 for q in range(5)]
    em = QutipEmulator.from_sequence(seq, evaluation_times=ev)
    res = em.run()
    for st in res.states:
        check_physical(R, st, {**sig0, "api": "QutipEmulator.run"}, det0, noisy=False)
    # populations at the Clifford point: band = what 1 ns of every drive can change (see module docstring)
    band = 0.5 * rates * 1e-3 + 2e-3
    sd = {str(k): float(v) for k, v in res[-1].sampling_dist.items()}
    R.tests += n + 1
    if abs(sum(sd.values()) - 1) > 1e-9:
        R.bad({**sig0, "clause": "distribution_sums_to_one", "api": "QutipEmulator.run/sampling_dist"}, {**det0, "got": sd})
    for i in range(n):
        got = sum(v for k, v in sd.items() if k[i] == "1")
        R.watch("max_population_dev_over_band", abs(got - exp[i] / 2) / band)
        if abs(got - exp[i] / 2) > band:
            clause = "zero_drive_unchanged" if only_zero else ("rabi_quarter_periods" if all(o[0] == "P" for o in ops)
                                                                else "clifford_dynamics")
            R.bad({**sig0, "clause": clause, "api": "QutipEmulator.run"},
                  {**det0, "atom": i, "P(1)": got, "expected": exp[i] / 2, "band": band})
            break
    if only_zero:
        R.tests += 1
        worst = max(state_dev(st, res.states[0]) for st in res.states)
        if worst > 1e-9:
            R.bad({**sig0, "clause": "zero_drive_unchanged", "api": "QutipEmulator.run", "what": "state"},
                  {**det0, "deviation": worst})
    # V2, same program, default configuration
    R.tests += 2 + n
    try:
        r = QutipBackendV2(seq, config=QutipConfig(observables=[StateResult(evaluation_times=[0.5]),
                                                                 BitStrings(num_shots=8)])).run()
        v = v2_last(R, r, "state", sig0, det0)
        if v is not None:
            v = v.to_qobj()
            d = state_dev(v, res.states[-1])
            if d > STATE_TOL:
                R.bad({**sig0, "clause": "v2_equals_legacy", "why": "drive_after_idle" if idle_before_pulse else "other"},
                      {**det0, "deviation": d})
            R.watch("max_v2_legacy_dev_after_idle(finding class)" if idle_before_pulse else "max_v2_legacy_dev", d)
            check_physical(R, v, {**sig0, "api": "QutipBackendV2.run"}, det0, noisy=False)
    except Exception as e:  # noqa: BLE001
        R.bad({**sig0, "clause": "v2_runs", "exc": type(e).__name__,
               "why": classify_v2_exception(e, True, False, T, 2, False)}, {**det0, "error": str(e)[:300]})
    # dissipative noise: physical density matrices, and V2 = legacy (rotating subset)
    if _crc(rec) % NOISE_EVERY == 0:
        kind, nm = noise_for(rec)
        sign = {**sig0, "noise": kind}
        emn = QutipEmulator.from_sequence(seq, evaluation_times=ev, config=SimConfig.from_noise_model(nm))
        resn = emn.run()
        for st in resn.states[1:]:
            check_physical(R, st, {**sign, "api": "QutipEmulator.run"}, det0, noisy=True)
        R.tests += 2
        s1 = sum(resn[-1].sampling_dist.values())
        if abs(s1 - 1) > 1e-9:
            R.bad({**sign, "clause": "distribution_sums_to_one", "api": "QutipEmulator.run/sampling_dist"}, {**det0, "sum": s1})
        try:
            rn = QutipBackendV2(seq, config=QutipConfig(observables=[StateResult()], noise_model=nm)).run()
            vn = v2_last(R, rn, "state", sign, det0)
            if vn is not None:
                vn = vn.to_qobj()
                check_physical(R, vn, {**sign, "api": "QutipBackendV2.run"}, det0, noisy=True)
                d = state_dev(vn, resn.states[-1])
                if d > STATE_TOL:
                    R.bad({**sign, "clause": "v2_equals_legacy",
                           "why": "drive_after_idle" if idle_before_pulse else "other"}, {**det0, "deviation": d})
                R.watch("max_v2_legacy_dev_after_idle(finding class)" if idle_before_pulse else "max_v2_legacy_dev", d)
        except Exception as e:  # noqa: BLE001
            R.bad({**sign, "clause": "v2_runs", "exc": type(e).__name__,
                   "why": classify_v2_exception(e, True, False, T, 2, False)}, {**det0, "error": str(e)[:300]})
    return R.out()


@_guard
def stochastic_worker(rec):
    """V2 with shot-to-shot noise: the averaged state must be a physical density matrix in every basis."""
    R = Rep()
    kind, nlev = rec["noise"], rec["levels"]
    _seed_for(rec, 6)
    n = rec["n"]
    seq = Sequence(register(n), MockDevice)
    seq.declare_channel("ry", "rydberg_global")
    seq.add(Pulse.ConstantPulse(200, 5.0, 1.0, 0.0), "ry")
    if nlev == 3:
        seq.declare_channel("ra", "raman_global")
        seq.add(Pulse.ConstantPulse(200, 4.0, 0.0, 0.0), "ra", protocol="no-delay")
    nm = {"state_prep": NoiseModel(state_prep_error=0.3, runs=6, samples_per_run=1),
          "amplitude": NoiseModel(amp_sigma=0.1, runs=4, samples_per_run=1),
          "doppler": NoiseModel(temperature=50.0, runs=4, samples_per_run=1)}[kind]
    sig0 = {"noise": kind, "levels": nlev, "n": n}
    R.tests += 1
    try:
        r = QutipBackendV2(seq, config=QutipConfig(observables=[StateResult()], noise_model=nm)).run()
        st = v2_last(R, r, "state", sig0, {"point": rec})
        if st is not None:
            check_physical(R, st.to_qobj(), {**sig0, "api": "QutipBackendV2.run"}, {"point": rec}, noisy=True)
    except Exception as e:  # noqa: BLE001
        R.bad({**sig0, "clause": "v2_runs", "exc": type(e).__name__,
               "why": classify_v2_exception(e, True, False, 200, nlev, True)}, {"point": rec, "error": str(e)[:300]})
    return R.out()


# ---------------------------------------------------------------------------------------------------- driver
CONFIGS = ('{<<<<"r","g">>,"ground-rydberg">>, <<<<"g","h">>,"digital">>, <<<<"u","d">>,"XY">>, '
           '<<<<"r","g">>,"digital">>, <<<<"g","h">>,"ground-rydberg">>, '
           '<<<<"r","g","x">>,"ground-rydberg">>, <<<<"g","h","x">>,"digital">>, <<<<"u","d","x">>,"XY">>, '
           '<<<<"r","g","h">>,"ground-rydberg">>, <<<<"r","g","h">>,"digital">>, '
           '<<<<"r","g","h","x">>,"ground-rydberg">>, <<<<"r","g","h","x">>,"digital">>}')
CONFIGS_UPTO3 = CONFIGS[:CONFIGS.index(', <<<<"r","g","h","x">>')] + "}"
BITS_LAWS = ["Emit", "SumsToOne", "NoErrorIsBits", "OnesAreOneLetter", "IndexRange", "IndexInjective",
             "TwoLevelOrder", "MarginalIsRate", "MarginalOfMixture", "LeakageReadsZero", "CertainFlip"]
RECONF_LAWS = ["Emit", "OneChangeAtATime", "AlwaysLegal", "Deterministic", "BackIsIdentity"]
TIMES_LAWS = ["Emit", "ShapeTiles", "WithinSequence", "EndRequiredIffAsked", "DistinctTimes", "DefaultsOnlyWithoutOwn"]
QUBIT_LAWS = ["Emit", "Physical", "FullTurn", "Additive", "OppositePhase", "PhaseIsFrame", "RabiFromPole",
              "DetuningKeepsPopulation"]


def collect(V, name, outs, stats):
    tests = 0
    for o in outs:
        if o.get("crash"):
            print(f"MACHINERY-FAILURE: worker {name} crashed on {json.dumps(o['rec'])[:300]}: {o['crash']}")
            raise SystemExit(2)
        tests += o["tests"]
        for sig, detail in o["reports"]:
            V.report(sig, detail)
        for k, v in o["obs"].items():
            if k == "extra_stored_times":
                stats[k] = stats.get(k, 0.0) + v
            else:
                stats[k] = max(stats.get(k, 0.0), v)
    return tests


def run(tier):
    V = Verdict("C11", tier)
    with open(os.path.join(HERE, "C11.findings.json")) as fh:
        V.known += json.load(fh)                   # proposed entries (see C11.NOTES.md)
    quick = tier != "thorough"
    runs, stats, t_impl = [], {}, {}

    def stage(tag, module, constants, laws, jobs):
        """TLC enumeration of one lattice, then every printed point through the given workers."""
        res, pts = enumerate_points("C11", tag, module, constants, laws)
        tests, executed = 0, 0
        for wname, worker, select, chunk in jobs:
            sel = [p for p in pts if select(p)]
            t0 = time.time()
            tests += collect(V, wname, pool_map(worker, sel, chunk), stats)
            t_impl[f"{tag}/{wname}"] = round(time.time() - t0, 1)
            executed += len(sel)
        runs.append({"config": tag, "module": module, "tlc_distinct": res.distinct, "tlc_generated": res.generated,
                     "tlc_s": round(res.wall, 1), "points_printed": len(pts), "point_executions": executed,
                     "implementation_assertions": tests, "samples": pts[:1] + pts[-1:], "cmd": res.cmd})

    # ---- measurement conventions
    def prep_ok(p):
        return p["w"] == 4 and (p["e"], p["m"]) in {("rg", "ground-rydberg"), ("gh", "digital"),
                                                    ("rgh", "ground-rydberg"), ("rgh", "digital")}

    def zero_ok(p):
        return tuple(p["f"]) == (0, 0) and (p["e"], p["m"]) in {("rg", "ground-rydberg"), ("ud", "XY")} \
            and (p["w"] == 4 or _crc(p) % 3 == 0)

    def spam_ok(p):
        return p["w"] == 4 and (p["e"], p["m"]) == ("rg", "ground-rydberg") and p["f"][0] in (0, 4)

    def leak_ok(p):
        return p["w"] == 4 and (p["e"], p["m"]) in {("rgx", "ground-rydberg"), ("ghx", "digital"), ("udx", "XY")} \
            and (len(p["a"]) < 3 or _crc(p) % 3 == 0)

    def init_ok(p):
        return tuple(p["f"]) == (0, 0) and (p["e"], p["m"]) in {("rg", "ground-rydberg"), ("ud", "XY")} \
            and len(p["a"]) <= 2 and p["w"] in (2, 4)

    bits_jobs = [("objects", bits_worker, lambda p: True, 16), ("prepared", emu_prep_worker, prep_ok, 4),
                 ("zero_drive", emu_zero_worker, zero_ok, 4), ("spam_eta1", emu_spam_worker, spam_ok, 4),
                 ("leakage", emu_leak_worker, leak_ok, 2), ("initial_state", emu_init_worker, init_ok, 2)]
    if quick:
        stage("bits-n12", "EmuBits", {"NSet": "{1, 2}", "Configs": CONFIGS, "Weights": "{1, 2, 4}",
                                      "Flips": "{<<0,0>>, <<4,0>>, <<0,4>>, <<4,4>>, <<1,2>>}",
                                      "MixFlips": "{<<0,0>>, <<4,4>>, <<1,2>>}"}, BITS_LAWS, bits_jobs)
        stage("bits-n3", "EmuBits", {"NSet": "{3}", "Configs": CONFIGS, "Weights": "{4}",
                                     "Flips": "{<<0,0>>, <<4,4>>, <<2,1>>}", "MixFlips": "{}"},
              BITS_LAWS, bits_jobs)
        stage("bits-n3-mix", "EmuBits", {"NSet": "{3}", "Configs": CONFIGS_UPTO3, "Weights": "{2}",
                                         "Flips": "{<<0,0>>}", "MixFlips": "{<<0,0>>}"}, BITS_LAWS, bits_jobs)
    else:
        stage("bits-n123", "EmuBits", {"NSet": "{1, 2, 3}", "Configs": CONFIGS, "Weights": "{1, 2, 3, 4}",
                                       "Flips": "{<<0,0>>, <<4,0>>, <<0,4>>, <<4,4>>, <<1,2>>, <<2,1>>, <<1,0>>, <<0,2>>}",
                                       "MixFlips": "{<<0,0>>}"}, BITS_LAWS, bits_jobs)
        stage("bits-n123-mixflips", "EmuBits", {"NSet": "{1, 2, 3}", "Configs": CONFIGS_UPTO3, "Weights": "{2}",
                                                "Flips": "{<<4,4>>, <<1,2>>}", "MixFlips": "{<<4,4>>, <<1,2>>}"},
              BITS_LAWS, bits_jobs)
        stage("bits-n4", "EmuBits", {"NSet": "{4}", "Configs": CONFIGS, "Weights": "{4}",
                                     "Flips": "{<<0,0>>, <<4,0>>, <<0,4>>, <<2,1>>}", "MixFlips": "{}"},
              BITS_LAWS, bits_jobs)

    # ---- a re-configured emulator = a fresh emulator with the configuration in force
    stage("reconf", "EmuReconf", {"Bases": '{"gr", "dig", "all"}', "Depth": "1" if quick else "2", "MaxOn": "1"},
          RECONF_LAWS, [("set_config", reconf_worker, lambda p: True, 2)])

    # ---- evaluation times, durations, idle periods: V2 = legacy
    dopts = "<< <<-1>>, <<12>>, <<6>>, <<0, 6, 12>>, <<4, 8>> >>"
    oopts = "<< << >>, <<3>>, <<0, 4, 12>> >>"
    tconst = {"Rates": "<<1, 2, 5>>", "DOpts": dopts, "OOpts": oopts}
    tjobs = [("v2_vs_legacy", times_worker, lambda p: True, 4)]
    if quick:
        stage("times", "EmuTimes", {**tconst, "TAll": "5..22", "TDiag": "23..180", "TDef": "5..260"}, TIMES_LAWS, tjobs)
    else:
        stage("times", "EmuTimes", {**tconst, "TAll": "5..80", "TDiag": "81..2000", "TDef": "5..2000"},
              TIMES_LAWS, tjobs)

    # ---- Clifford points: Rabi quarter periods, zero drive, detuned idle periods, three bases
    qconst = {"Bases": '{"ground-rydberg", "digital", "XY"}', "Quarter": "{1, 2, 3}", "Phases": "{0, 1, 2, 3}",
              "Detuned": "{-1, 1, 2}"}
    global NOISE_EVERY
    NOISE_EVERY = 4 if quick else 3          # inherited by the forked workers

    def qjobs():
        return [("programs", qubit_worker, lambda p: True, 4)]

    if quick:
        stage("qubit-n1", "EmuQubit", {**qconst, "NAtomsSet": "{1}", "Depth": "3", "FullDepth": "2", "SelMod": "40",
                                       "SelRes": str(seed() % 40)}, QUBIT_LAWS, qjobs())
        stage("qubit-n2", "EmuQubit", {**qconst, "NAtomsSet": "{2}", "Depth": "2", "FullDepth": "1", "SelMod": "10",
                                       "SelRes": str(seed() % 10)}, QUBIT_LAWS, qjobs())
    else:
        stage("qubit-n1", "EmuQubit", {**qconst, "NAtomsSet": "{1}", "Depth": "3", "FullDepth": "2", "SelMod": "2",
                                       "SelRes": str(seed() % 2)}, QUBIT_LAWS, qjobs())
        stage("qubit-n2", "EmuQubit", {**qconst, "NAtomsSet": "{2}", "Depth": "3", "FullDepth": "2", "SelMod": "120",
                                       "SelRes": str(seed() % 120)}, QUBIT_LAWS, qjobs())
        stage("qubit-n34", "EmuQubit", {**qconst, "NAtomsSet": "{3, 4}", "Depth": "2", "FullDepth": "1", "SelMod": "25",
                                        "SelRes": str(seed() % 25)}, QUBIT_LAWS, qjobs())

    if not quick:
        # seeded random walks: long programs (up to 7 operations); one printed state in 12 is executed
        t0 = time.time()
        res, pts = simulate_points("qubit-walks", "EmuQubit",
                                   {**qconst, "NAtomsSet": "{1, 2}", "Depth": "7", "FullDepth": "7", "SelMod": "1",
                                    "SelRes": "0"}, QUBIT_LAWS, num=30, depth=8)
        uniq = {json.dumps(p_, sort_keys=True): p_ for p_ in pts if len(p_["ops"]) >= 4}
        sel = [p_ for k_, p_ in sorted(uniq.items()) if (zlib.crc32(k_.encode()) + seed()) % 12 == 0]
        t1 = time.time()
        tests = collect(V, "walks", pool_map(qubit_worker, sel, 4), stats)
        t_impl["qubit-walks/programs"] = round(time.time() - t1, 1)
        runs.append({"config": "qubit-walks", "module": "EmuQubit", "tlc_distinct": len(uniq), "tlc_generated": len(pts),
                     "tlc_s": round(t1 - t0, 1), "points_printed": len(pts), "point_executions": len(sel),
                     "implementation_assertions": tests, "samples": sel[:1] + sel[-1:], "cmd": res.cmd,
                     "mode": "simulate num=30 depth=8 workers=1, programs of 4..7 operations, 1 in 12 executed"})

    # ---- shot-to-shot noise on V2 (no reference: monitor + "the run returns")
    sto = [{"noise": k, "levels": lv, "n": n} for k in ("state_prep", "amplitude", "doppler") for lv in (2, 3)
           for n in ((1, 2) if quick else (1, 2, 3))]
    t0 = time.time()
    sto_tests = collect(V, "stochastic", pool_map(stochastic_worker, sto, 1), stats)
    t_impl["stochastic"] = round(time.time() - t0, 1)

    cov = {
        "states": sum(r["tlc_distinct"] for r in runs), "transitions": sum(r["tlc_generated"] for r in runs),
        "traces_validated_against_impl": sum(r["points_printed"] for r in runs),
        "point_executions": sum(r["point_executions"] for r in runs) + len(sto),
        "implementation_assertions": sum(r["implementation_assertions"] for r in runs) + sto_tests,
        "samples": [s for r in runs for s in r["samples"]][:6],
        "exhaustive": True,
        "per_config": [{k: v for k, v in r.items() if k not in ("samples", "cmd")} for r in runs],
        "implementation_seconds": t_impl,
        "monitored_observations": {k: (round(v, 12) if isinstance(v, float) else v) for k, v in sorted(stats.items())},
        "monitored_thresholds": {"norm/trace": NORM_TOL, "hermiticity": HERM_TOL, "lambda_min": -POS_TOL,
                                 "same_state": STATE_TOL},
        "rule": "EmuBits: every diagonal state w/4|s1><s1|+(4-w)/4|s2><s2| of N atoms over 12 (eigenbasis, "
                "measurement basis) pairs x detection-error rates in quarters; EmuTimes: durations x sampling "
                "rates {1,1/2,1/5} x default times {Full,(1),(1/2),(0,1/2,1),(1/3,2/3)} x own times "
                "{none,(1/4),(0,1/3,1)} with shape/basis/atom number rotating; EmuQubit: every program of "
                "quarter-period pulses (4 phases), detuned idle periods and zero drives up to the depth, on "
                "global and local channels, 3 bases; stochastic noise: 3 kinds x {2,3} levels (monitor only)",
        "checker_cmd": runs[0]["cmd"],
    }
    return V.finish(cov, assumptions=[
        "isolated atoms = 2000 um apart on MockDevice (interaction < 1e-6 rad/us)",
        "the area of a constant pulse is defined up to Omega * 1 ns (spline through 1 ns samples): populations are "
        "compared within that band",
        "same state = max entry deviation <= 5e-3 at the same absolute time (ODE solver accuracy)",
        "statistical clauses use 6-sigma bounds on samples seeded from VERIF_SEED",
        "norm / trace / Hermiticity / positivity are monitored on the runs, not decided by a reference",
        "QutipResult with a 3-level state measured in a basis that is not its own and not 'all' is unreachable from a "
        "Sequence and left out"])


def replay(path):
    """Re-run the lattice point of a replay file written by Verdict.finish (for `./check C11 --replay`, if the
    coordinator wires harness.main.replay to it): 1 + VIOLATION line if the recorded clause fails again."""
    doc = json.load(open(path))
    pt, clause = doc["detail"]["point"], doc["signature"]["clause"]
    if "h" in pt:
        workers = [reconf_worker]
    elif "ops" in pt:
        workers = [qubit_worker]
    elif "T" in pt:
        workers = [times_worker]
    elif "noise" in pt:
        workers = [stochastic_worker]
    else:
        workers = [bits_worker, emu_prep_worker, emu_zero_worker, emu_spam_worker, emu_leak_worker, emu_init_worker]
        if doc["signature"].get("level") == "emulator":
            workers = workers[1:]
        else:
            workers = workers[:1]
    known = json.load(open(os.path.join(HERE, "C11.findings.json")))
    from .. import findings
    hit = 0
    for w in workers:
        try:
            out = w(pt)
        except Exception as e:  # noqa: BLE001  (a worker that does not apply to this point)
            print(f"{w.__name__}: not applicable ({type(e).__name__})")
            continue
        if out.get("crash"):
            print(f"{w.__name__}: {out['crash'][:300]}")
            continue
        for sig, detail in out["reports"]:
            kf = findings.match("C11", sig, findings.load() + known)
            print(("KNOWN-FINDING " + kf["id"]) if kf else "FAILS", json.dumps(sig), json.dumps(detail, default=str)[:400])
            if kf is None and sig.get("clause") == clause:
                hit += 1
    if hit:
        print(f"VIOLATION property=C11 replay={path}")
        return 1
    print("not reproduced")
    return 0
