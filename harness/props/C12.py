"""C12: a device accepts exactly the registers and layouts that fit its geometry.

Reference: spec/Geometry.tla (accept / violated clauses / offending atoms of a register or layout
on a device, on an integer lattice in 2^-10 um with an explicit don't-care band around the
code's 1e-6 um tolerance; the lattice of Register.max_connectivity requests) and
spec/DeviceCtor.tla (which combinations of device / channel parameters are valid).  TLC
enumerates every lattice point, checks the laws of the reference and prints one record per
point; this module turns EVERY printed record into tests of the working tree:

  register case   -> BaseDevice.validate_register, Sequence(register, device), the same register
                     with the atoms listed in reverse order, the planar register embedded as a
                     Register3D (3D devices), BaseDevice.validate_layout, Sequence(mappable
                     register) and Sequence.build(qubits=...), Register.with_automatic_layout
                     (closure: raises RuntimeError or the result is accepted)
  connectivity    -> Register.max_connectivity(n, device, spacing): must raise when the
                     reference says no such register can be accepted, otherwise raises or the
                     result has n atoms and is accepted by validate_register and Sequence
  device case     -> the channel, DMM and Device / VirtualDevice are constructed

Decided: accept <=> no clause violated; the class of the raised error names a clause that is
violated; the reported offenders are exactly the violating pairs / atoms / traps.
Observed only (counted in the evidence, never a violation): what the code does inside the
tolerance band; whether combinations the reference calls invalid are refused; `specs` and
`to_abstract_repr` of the constructed devices.
"""
import itertools
import json
import multiprocessing as mp
import os
import time
from collections import Counter

import numpy as np

from ..env import assert_tree, seed

assert_tree()
import pulser  # noqa: E402
from pulser import Register, Register3D, Sequence  # noqa: E402
from pulser.channels import Microwave, Raman, Rydberg  # noqa: E402
from pulser.channels.dmm import DMM  # noqa: E402
from pulser.channels.eom import RydbergBeam, RydbergEOM  # noqa: E402
from pulser.devices import Device, VirtualDevice  # noqa: E402
from pulser.exceptions.base import PulserValueError  # noqa: E402
from pulser.exceptions import sequence as seqerr  # noqa: E402
from pulser.register.mappable_reg import MappableRegister  # noqa: E402
from pulser.register.register_layout import RegisterLayout  # noqa: E402

from .common import Verdict, enumerate_points  # noqa: E402

UNIT = 2.0 ** -10       # um per lattice unit (exact)
NONE = -99              # "None" in DeviceCtor.tla
HERE = os.path.dirname(os.path.abspath(__file__))

GEOM_LAWS = ["Emit", "SubRegisterLaw", "RelaxLaw", "OffendersLaw", "LayoutLaw", "EmbedLaw",
             "BandLaw", "ConnLaw", "OptFillLaw"]
CTOR_LAWS = ["Emit", "UndefLaw", "ToVirtualLaw", "SeparableLaw"]


def tla_pts(pts):
    return "<< " + ", ".join("<<" + ",".join(str(v) for v in p) + ">>" for p in pts) + " >>"


def tla_set(vals):
    def one(v):
        if isinstance(v, bool):
            return "TRUE" if v else "FALSE"
        if isinstance(v, str):
            return json.dumps(v)
        return str(v)
    return "{" + ", ".join(one(v) for v in vals) + "}"


def um(p):
    return tuple(v * UNIT for v in p)


# ------------------------------------------------------------------------------------------
# devices of the geometry lattice
# ------------------------------------------------------------------------------------------
_PHYS_CH = Rydberg.Global(max_abs_detuning=20.0, max_amp=10.0, max_duration=10000)
_DEVS = {}


def geom_device(dt):
    """Device tuple of Geometry.tla -> (device | None, error text)."""
    key = tuple(dt)
    if key not in _DEVS:
        kind, dim, na, md, mr, tl, th, f4, of4, fden = dt
        kw = dict(name=f"dev_{kind}", dimensions=dim, rydberg_level=60,
                  min_atom_distance=md * UNIT, max_atom_num=na or None,
                  max_radial_distance=mr or None, min_layout_traps=tl,
                  max_layout_traps=th or None, max_layout_filling=f4 / fden,
                  optimal_layout_filling=(of4 / fden) if of4 else None,
                  channel_objects=(_PHYS_CH,))
        try:
            _DEVS[key] = ((Device if kind == "D" else VirtualDevice)(**kw), "")
        except Exception as e:  # noqa: BLE001
            _DEVS[key] = (None, f"{type(e).__name__}: {e}")
    return _DEVS[key]


# ------------------------------------------------------------------------------------------
# outcome of an implementation call -> (clause, offenders)
# ------------------------------------------------------------------------------------------
def classify(e, qidx, tidx):
    """Exception -> (clause name of Geometry.tla, offender set or None).
    qidx: qubit id -> lattice index; tidx: trap id (str) -> lattice index."""
    wrapped = False
    if type(e) is PulserValueError and e.__cause__ is not None:
        e, wrapped = e.__cause__, True
    if isinstance(e, (seqerr.DimensionPositionsTooHighError, seqerr.DimensionTooHighError)):
        return "dim", None
    if isinstance(e, seqerr.AtomsNumberError):
        return "count", None
    if isinstance(e, seqerr.QubitsNumberError):
        return "fill", None
    if isinstance(e, seqerr.TrapsNumberTooLowError):
        return "tmin", None
    if isinstance(e, seqerr.TrapsNumberTooHighError):
        return "tmax", None
    if isinstance(e, (seqerr.DistanceError, seqerr.RadiusError)):
        traps = e.kind == "traps"
        m = tidx if traps else qidx
        try:
            if isinstance(e, seqerr.DistanceError):
                off = {frozenset((m[a], m[b])) for a, b in e.invalid}
                return ("tdist" if traps else "dist"), off
            return ("trad" if traps else "radius"), {m[a] for a in e.invalid}
        except KeyError:
            return ("tdist" if traps else "dist") if isinstance(e, seqerr.DistanceError) else \
                ("trad" if traps else "radius"), {"unknown-id"}
    return f"other:{type(e).__name__}" + ("(wrapped)" if wrapped else ""), None


def attempt(fn, qidx, tidx):
    try:
        fn()
    except Exception as e:  # noqa: BLE001
        cl, off = classify(e, qidx, tidx)
        return cl, off, f"{type(e).__name__}: {str(e)[:160]}"
    return "ok", None, ""


class Local:
    """Per-process collector (reports are merged into the Verdict by the parent)."""

    def __init__(self):
        self.reports = []
        self.tests = 0
        self.obs = Counter()

    def report(self, sig, detail):
        self.reports.append((sig, detail))


def judge(L, sig0, via, out, v, o, off, detail):
    """Compare one implementation outcome with the reference.
    v: clauses violated for sure; o: clauses left open by the tolerance band;
    off: clause -> (offenders for sure, offenders in the band)."""
    L.tests += 1
    cl, got, msg = out
    v, o = set(v), set(o)
    if not v and o:
        L.obs["band:" + ("accepted" if cl == "ok" else "rejected")] += 1
    if cl == "ok":
        if v:
            L.report({**sig0, "clause": "accept_iff", "dir": "accepted_invalid",
                      "violated": "+".join(sorted(v)), "via": via}, detail)
        return
    if not v and not o:
        L.report({**sig0, "clause": "accept_iff", "dir": "rejected_valid", "raised": cl,
                  "via": via}, {**detail, "error": msg})
    elif cl not in v | o:
        L.report({**sig0, "clause": "error_class", "raised": cl,
                  "violated": "+".join(sorted(v | o)), "via": via}, {**detail, "error": msg})
    elif cl in off:
        must, may = off[cl]
        L.tests += 1
        if not (must <= got <= (must | may)):
            L.report({**sig0, "clause": "offenders", "which": cl, "via": via},
                     {**detail, "reported": sorted(map(sorted, got)) if cl.endswith("dist")
                      else sorted(got), "expected": sorted(map(sorted, must)) if cl.endswith("dist")
                      else sorted(must), "error": msg})


LAYOUT_CLAUSES = {"dim", "tmin", "tmax", "tdist", "trad"}
_AUTO = {}


def check_reg_case(rec, pts, L):
    """One (device, register[, layout]) state of Geometry.tla."""
    dt, a, t = rec["d"], sorted(rec["a"]), sorted(rec["t"])
    kind, dim = dt[0], dt[1]
    pdim = len(pts[0])
    dev, err = geom_device(dt)
    sig0 = {"kind": kind, "layout": bool(t), "pdim": pdim}
    detail = {"device": dt, "atoms": {f"q{i}": pts[i - 1] for i in a}, "traps": [pts[i - 1] for i in t],
              "unit_um": UNIT, "violated": rec["v"], "open": rec["o"]}
    if dev is None:
        L.tests += 1
        L.report({"clause": "construct", "kind": kind, "where": "geometry-lattice"},
                 {"device": dt, "error": err})
        return
    v, o = set(rec["v"]), set(rec["o"])
    pairs = lambda xs: {frozenset(p) for p in xs}  # noqa: E731
    off = {"dist": (pairs(rec["pm"]), pairs(rec["po"])), "radius": (set(rec["r"]), set()),
           "tdist": (pairs(rec["tm"]), pairs(rec["to"])), "trad": (set(rec["tr"]), set())}
    qidx = {f"q{i}": i for i in a}
    tidx = {}
    RegCls = Register3D if pdim == 3 else Register
    layout = None
    if t:
        try:
            layout = RegisterLayout([um(pts[i - 1]) for i in t])
            trap_of = {i: layout.get_traps_from_coordinates(um(pts[i - 1]))[0] for i in t}
            tidx = {str(tr): i for i, tr in trap_of.items()}
            reg = layout.define_register(*[trap_of[i] for i in a], qubit_ids=[f"q{i}" for i in a])
        except Exception as e:  # noqa: BLE001
            L.tests += 1
            L.report({**sig0, "clause": "build_register_from_layout", "exc": type(e).__name__},
                     {**detail, "error": str(e)})
            return
    else:
        reg = RegCls({f"q{i}": um(pts[i - 1]) for i in a})

    # 1. explicit validation and sequence creation
    judge(L, sig0, "validate_register", attempt(lambda: dev.validate_register(reg), qidx, tidx),
          v, o, off, detail)
    judge(L, sig0, "Sequence", attempt(lambda: Sequence(reg, dev), qidx, tidx), v, o, off, detail)
    if not t:
        # 2. the verdict and the offenders do not depend on the order of the atoms
        if len(a) > 1:
            rev = RegCls({f"q{i}": um(pts[i - 1]) for i in reversed(a)})
            judge(L, sig0, "validate_register(reversed)",
                  attempt(lambda: dev.validate_register(rev), qidx, tidx), v, o, off, detail)
        # 3. a planar register given as a Register3D with z = 0 (EmbedLaw)
        if pdim == 2 and dim == 3:
            emb = Register3D({f"q{i}": um(pts[i - 1]) + (0.0,) for i in a})
            judge(L, sig0, "validate_register(embedded3D)",
                  attempt(lambda: dev.validate_register(emb), qidx, tidx), v, o, off, detail)
    else:
        # 4. the layout on its own, and a mappable register on it
        lv, lo = v & LAYOUT_CLAUSES, o & LAYOUT_CLAUSES
        judge(L, sig0, "validate_layout", attempt(lambda: dev.validate_layout(layout), qidx, tidx),
              lv, lo, off, detail)
        qids = [f"q{i}" for i in a]
        mreg = MappableRegister(layout, *qids)
        mv = v & (LAYOUT_CLAUSES | {"fill"})
        res = {}

        def mk():
            res["seq"] = Sequence(mreg, dev)
        judge(L, sig0, "Sequence(mappable)", attempt(mk, qidx, tidx), mv, lo, off, detail)
        if "seq" in res:
            judge(L, sig0, "build(qubits)",
                  attempt(lambda: res["seq"].build(qubits={f"q{i}": trap_of[i] for i in a}),
                          qidx, tidx), v, o, off, detail)
    # 5. closure of with_automatic_layout: a register whose atoms fit a physical device either
    #    cannot be given a layout (RuntimeError) or the register returned is accepted.
    #    Reading: the constructor is only asked to add a layout, so it is exercised on
    #    registers whose atoms satisfy the device (no atom clause violated, none open), with
    #    coordinates that the 6-decimal storage of layouts keeps exactly (multiples of 2^-6 um).
    atom_v = (v | o) & {"dim", "count", "dist", "radius"}
    if kind == "D" and pdim == 2 and not atom_v and all(c % 16 == 0 for i in a for c in pts[i - 1]):
        key = (tuple(dt), tuple(a))
        if key not in _AUTO:
            _AUTO[key] = True
            plain = Register({f"q{i}": um(pts[i - 1]) for i in a})
            L.tests += 1
            try:
                auto = plain.with_automatic_layout(dev)
            except RuntimeError:
                L.obs["auto_layout:RuntimeError"] += 1
            except Exception as e:  # noqa: BLE001
                L.report({"clause": "closure", "ctor": "with_automatic_layout",
                          "raised": type(e).__name__, "kind": kind},
                         {**detail, "error": str(e)[:200]})
            else:
                L.obs["auto_layout:returned"] += 1
                for via, fn in (("validate_register", lambda: dev.validate_register(auto)),
                                ("Sequence", lambda: Sequence(auto, dev))):
                    L.tests += 1
                    cl, _, msg = attempt(fn, {}, {})
                    if cl != "ok":
                        L.report({"clause": "closure", "ctor": "with_automatic_layout",
                                  "rejected_by": cl, "via": via, "kind": kind},
                                 {**detail, "error": msg,
                                  "layout": [list(map(float, c)) for c in auto.layout.coords]})
                L.tests += 1
                if auto.layout is None or set(auto.qubit_ids) != set(plain.qubit_ids):
                    L.report({"clause": "closure", "ctor": "with_automatic_layout",
                              "rejected_by": "no-layout-or-ids"}, detail)


def check_conn_case(rec, L):
    """One Register.max_connectivity(n, device, spacing) request of Geometry.tla."""
    dt, n, sp, must_raise = rec["d"], rec["n"], rec["sp"], rec["x"]
    kind = dt[0]
    dev, err = geom_device(dt)
    if dev is None:
        L.tests += 1
        L.report({"clause": "construct", "kind": kind, "where": "geometry-lattice"},
                 {"device": dt, "error": err})
        return
    detail = {"device": dt, "n": n, "spacing_units": sp, "unit_um": UNIT}
    sig0 = {"clause": "closure", "ctor": "max_connectivity", "kind": kind}
    L.tests += 1
    try:
        reg = Register.max_connectivity(n, dev, spacing=None if sp == -1 else sp * UNIT)
    except Exception as e:  # noqa: BLE001
        L.obs["max_connectivity:raised:" + type(e).__name__] += 1
        return
    L.obs["max_connectivity:returned"] += 1
    L.tests += 1
    if len(reg.qubit_ids) != n:
        L.report({**sig0, "rejected_by": "wrong-number-of-atoms"}, {**detail, "got": len(reg.qubit_ids)})
    coords = np.array([np.asarray(c.as_array() if hasattr(c, "as_array") else c, dtype=float)
                       for c in reg.qubits.values()])
    for via, fn in (("validate_register", lambda: dev.validate_register(reg)),
                    ("Sequence", lambda: Sequence(reg, dev))):
        L.tests += 1
        cl, off, msg = attempt(fn, {q: q for q in reg.qubit_ids}, {})
        if cl == "ok":
            if must_raise:
                # the reference says no acceptable register of n atoms with this spacing exists
                L.report({**sig0, "dir": "impossible_request_accepted", "via": via}, detail)
            continue
        # float don't-care: the pattern has irrational coordinates; a rejection by less than
        # 1e-9 um (radius) is rounding of the pattern, not a decision of the constructor
        margin = None
        if cl == "radius":
            margin = float(np.max(np.linalg.norm(coords, axis=1)) - dt[4])
            if margin <= 1e-9:
                L.obs["max_connectivity:float-boundary"] += 1
                continue
        L.report({**sig0, "rejected_by": cl, "via": via, "request_impossible": bool(must_raise)},
                 {**detail, "error": msg, "margin_um": margin,
                  "coords": [list(map(float, c)) for c in coords[:8]]})


# ------------------------------------------------------------------------------------------
# device construction lattice
# ------------------------------------------------------------------------------------------
def opt(v, f=float):
    return None if v == NONE else f(v)


def build_ctor_case(rec):
    """Record of DeviceCtor.tla -> constructed device (may raise)."""
    (kind, dim, ryd, md, na, mr, f4, of4, tl, th, sd, runs, slm, dmm, rl, reuse, ids, xy) = rec["k"]
    (cls, addr, amp, det, maxdur, bw, pjt, mt, minavg, eom, clock, mindur) = rec["c"]
    C = {"Rydberg": Rydberg, "Raman": Raman, "Microwave": Microwave}[cls]
    kw = dict(clock_period=clock, min_duration=mindur, max_duration=opt(maxdur, int),
              mod_bandwidth=opt(bw), custom_phase_jump_time=opt(pjt, int), min_avg_amp=minavg)
    if eom:
        kw["eom_config"] = RydbergEOM(mod_bandwidth=24.0, limiting_beam=RydbergBeam.RED,
                                      max_limiting_amp=100.0, intermediate_detuning=700.0,
                                      controlled_beams=(RydbergBeam.BLUE, RydbergBeam.RED))
    if addr == "G":
        ch = C.Global(opt(det), opt(amp), **kw)
    else:
        ch = C.Local(opt(det), opt(amp), min_retarget_interval=0, fixed_retarget_t=0,
                     max_targets=opt(mt, int), **kw)
    second = Raman.Local(20.0, 10.0, max_targets=1, max_duration=1000)
    chans = (ch, second)
    dkw = dict(name="lattice", dimensions=dim, rydberg_level=ryd, min_atom_distance=float(md),
               max_atom_num=opt(na, int), max_radial_distance=opt(mr, int),
               max_layout_filling=f4 / 4, optimal_layout_filling=None if of4 == NONE else of4 / 4,
               min_layout_traps=tl, max_layout_traps=opt(th, int),
               max_sequence_duration=opt(sd, int), max_runs=opt(runs, int),
               supports_slm_mask=slm, requires_layout=rl, channel_objects=chans,
               interaction_coeff_xy=opt(xy))
    if dmm == "full":
        dkw["dmm_objects"] = (DMM(bottom_detuning=-100.0, total_bottom_detuning=-1000.0,
                                  clock_period=4, min_duration=16, max_duration=1000),)
    elif dmm == "virtual":
        dkw["dmm_objects"] = (DMM(),)
    else:
        dkw["dmm_objects"] = ()
    if ids != "default":
        dkw["channel_ids"] = {"custom": ("ch_a", "ch_b"), "dup": ("ch_a", "ch_a"),
                              "short": ("ch_a",), "dmmname": ("dmm_0", "ch_b")}[ids]
    if kind == "D":
        return Device(**dkw)
    return VirtualDevice(reusable_channels=reuse, **dkw)


def check_ctor_case(rec, L):
    L.tests += 1
    try:
        dev = build_ctor_case(rec)
    except Exception as e:  # noqa: BLE001
        if rec["ok"]:
            k, c = rec["k"], rec["c"]
            undef = [n for n, x in zip(("max_atom_num", "max_radial_distance", "optimal_filling",
                                        "max_layout_traps", "max_sequence_duration", "max_runs"),
                                       (k[4], k[5], k[7], k[9], k[10], k[11])) if x == NONE]
            undef += [n for n, x in zip(("max_amp", "max_abs_detuning", "max_duration",
                                         "mod_bandwidth", "custom_phase_jump_time", "max_targets"),
                                        (c[2], c[3], c[4], c[5], c[6], c[7])) if x == NONE]
            L.report({"clause": "construct", "kind": k[0], "exc": type(e).__name__,
                      "channel": f"{c[0]}.{c[1]}", "undefined": "+".join(undef)},
                     {"device_params": k, "channel_params": c, "error": str(e)[:300]})
        else:
            L.obs["invalid:refused"] += 1
        return
    if not rec["ok"]:
        L.obs["invalid:constructed"] += 1
        for w in rec["why"]:
            L.obs["invalid:constructed:" + w] += 1
        return
    L.obs["valid:constructed"] += 1
    # observations only
    try:
        _ = dev.specs
    except Exception as e:  # noqa: BLE001
        L.obs["specs:" + type(e).__name__] += 1
    if L.obs["valid:constructed"] % 40 == 0:
        try:
            dev.to_abstract_repr()
        except Exception as e:  # noqa: BLE001
            L.obs["to_abstract_repr:" + type(e).__name__] += 1


# ------------------------------------------------------------------------------------------
# running a batch of records (optionally on several processes)
# ------------------------------------------------------------------------------------------
def _work(args):
    kind, pts, recs = args
    L = Local()
    for rec in recs:
        if kind == "ctor":
            check_ctor_case(rec, L)
        elif "a" in rec:
            check_reg_case(rec, pts, L)
        else:
            check_conn_case(rec, L)
    return L.reports[:200], L.tests, dict(L.obs), len(L.reports)


def run_batch(kind, pts, recs, procs):
    if procs <= 1 or len(recs) < 4000:
        return [_work((kind, pts, recs))]
    # the auto-layout cache is per (device, atoms): keep records of one device together
    recs = sorted(recs, key=lambda r: json.dumps(r.get("d", r.get("k"))))
    n = procs * 4
    size = (len(recs) + n - 1) // n
    chunks = [(kind, pts, recs[i:i + size]) for i in range(0, len(recs), size)]
    with mp.get_context("fork").Pool(procs) as pool:
        return pool.map(_work, chunks)


# ------------------------------------------------------------------------------------------
# lattices
# ------------------------------------------------------------------------------------------
# 2D points (units of 2^-10 um).  With min_atom_distance = 5 um (5120) and max_radial_distance
# = 5 um: 3-4-5 triangles put atoms exactly at the limits, +-1 unit (1e-3 um) just beyond, and
# two points fall INSIDE the tolerance band of the origin (5 um - 0.57e-6 and - 1.43e-6).
P2 = [(0, 0), (3072, 4096), (3072, 4097), (3072, 4095), (-3072, 4096), (5120, 0), (5121, 0),
      (-4096, -3072), (0, 0), (1, 0), (2787, 4295), (807, 5056), (0, -5119)]
# 3D: 1-2-2-3 quadruples: min distance 3 um (3072), radius 6 um (6144)
P3 = [(0, 0, 0), (1024, 2048, 2048), (1024, 2048, 2047), (1024, 2048, 2049), (2048, 4096, 4096),
      (2048, 4096, 4097), (-2048, -4096, -4096), (0, 0, 6144), (0, 0, 6145), (0, 0, 0), (0, 1, 0)]
# layouts: multiples of 16 units (2^-6 um, kept exactly by the 6-decimal trap coordinates)
PL = [(0, 0), (3072, 4096), (3072, 4112), (3072, 4080), (-3072, 4096), (5120, 0), (5136, 0),
      (-4096, -3072), (16, 0)]
PL3 = [(0, 0, 0), (1024, 2048, 2048), (1024, 2048, 2032), (2048, 4096, 4096), (2048, 4096, 4112),
       (0, 0, 6144), (0, 0, 6160)]
PA = [(0, 0), (3072, 4096), (-2560, 0), (0, 2560), (2560, 2560)]
# pair positions: x = 16 * rank only fixes the enumeration order (ascending x = list order), the
# distances are set by y: sites 2 um apart, each twin 0.5 um above its site (min distance 1 um)
PP = [(16 * k, 2048 * k) for k in range(6)] + [(16 * (6 + k), 2048 * k + 512) for k in range(6)]
# 12 points of a 3 um square grid (trap grid, pairwise >= 3 um, all within 6.1 um of the origin)
PA12 = [(0, 0), (3072, 0), (0, 3072), (-3072, 0), (0, -3072), (3072, 3072), (-3072, 3072),
        (3072, -3072), (-3072, -3072), (6144, 0), (0, 6144), (-6144, 0)]


def random_points(rng, m, r, n, bound=7600):
    """Seeded 2D lattice points: each new point is either about one minimum distance `m` away
    from an earlier one, about `r` away from the origin (both within one unit of the limit, on
    either side, sometimes inside the band), or anywhere.  Any integer lattice keeps the float
    comparisons of the code exact (squared distances < 2^31)."""
    import math
    pts = [(0, 0)]
    while len(pts) < n:
        u = rng.random()
        if u < 0.5:
            b = pts[rng.randrange(len(pts))]
            dx = rng.randrange(-m, m + 1)
            dy = (math.isqrt(m * m - dx * dx) + rng.choice([-1, 0, 0, 1])) * rng.choice([-1, 1])
            p = (b[0] + dx, b[1] + dy)
        elif u < 0.8:
            x = rng.randrange(-r, r + 1)
            p = (x, (math.isqrt(r * r - x * x) + rng.choice([-1, 0, 0, 1])) * rng.choice([-1, 1]))
        else:
            p = (rng.randrange(-r, r + 1), rng.randrange(-r, r + 1))
        if max(abs(p[0]), abs(p[1])) <= bound:
            pts.append(p)
    return pts


def geometry_configs(quick):
    base = {"Kinds": tla_set(["D", "V"]), "ConnN": "{}", "ConnSp": "{}", "MinTrapsS": "{1}",
            "MaxTrapsS": "{0}", "Fill4S": "{2}", "OptFill4S": "{0}", "TMax": "0", "FillDen": "4",
            "Prefix": "FALSE", "NMin": "1", "TMin": "1", "AllTraps": "FALSE"}
    cfgs = []
    cfgs.append(("plain2d", P2 if not quick else P2[:12], {
        **base, "NMax": "3" if quick else "5", "Dims": "{2, 3}", "MaxAtomsS": "{0, 2, 3}",
        "MinDistS": "{0, 5120}", "MaxRadS": "{0, 5}"}))
    if not quick:
        import random
        rng = random.Random(seed() * 7919 + 12)
        for k in range(2):
            cfgs.append((f"plain2d-seeded{k}", random_points(rng, 5120, 5120, 11), {
                **base, "NMax": "4", "Dims": "{2}", "MaxAtomsS": "{0, 3}",
                "MinDistS": "{0, 5120}", "MaxRadS": "{0, 5}"}))
    cfgs.append(("plain3d", P3 if not quick else P3[:10], {
        **base, "NMax": "3" if quick else "4", "Dims": "{2, 3}", "MaxAtomsS": "{0, 2, 3}",
        "MinDistS": "{0, 3072}", "MaxRadS": "{0, 6}"}))
    cfgs.append(("layout2d", PL[:7] if quick else PL[:8], {
        **base, "NMax": "3" if quick else "4", "TMax": "3" if quick else "4",
        "Dims": "{2}", "MaxAtomsS": "{0, 2}",
        "MinDistS": "{5120}" if quick else "{0, 5120}", "MaxRadS": "{0, 5}",
        "MinTrapsS": "{1, 2}" if quick else "{1, 3}", "MaxTrapsS": "{0, 2}" if quick else "{0, 3}",
        "Fill4S": "{1, 2, 4}" if quick else "{1, 2, 3, 4}"}))
    cfgs.append(("layout3d", PL3[:6] if quick else PL3, {
        **base, "NMax": "2" if quick else "3", "TMax": "2" if quick else "3", "Dims": "{2, 3}",
        "MaxAtomsS": "{0, 2}", "MinDistS": "{3072}" if quick else "{0, 3072}", "MaxRadS": "{0, 6}",
        "MinTrapsS": "{1, 2}", "MaxTrapsS": "{0, 2}", "Fill4S": "{2, 4}"}))
    # WHICH pair is reported: registers and full layouts of 4, 5 and 6 atoms / traps taken from
    # six well separated sites P_k and their twins Q_k (half a minimum distance from P_k), listed
    # in the order in which both the register and the sorted layout enumerate them.  The subsets
    # with a single twin pair put the only violating pair at every position (i, j) of the
    # condensed distance vector (6/6, 10/10, 15/15 positions), those with two pairs at most of
    # them, so a wrong index arithmetic between pdist and the reported ids is visible.
    for lay in (False, True):
        cfgs.append(("pairpos-layout" if lay else "pairpos-plain", PP, {
            **base, "Kinds": tla_set(["D"]), "Dims": "{2}", "MaxAtomsS": "{6}", "MinDistS": "{1024}",
            "MaxRadS": "{12}", "Fill4S": "{4}", "NMin": "4", "NMax": "6", "TMin": "4",
            "TMax": "6" if lay else "0", "AllTraps": "TRUE"}))
    # registers on the trap grid given to with_automatic_layout on physical devices with every
    # combination of trap-number limits, maximum and optimal filling
    cfgs.append(("autolayout", PA, {
        **base, "Kinds": tla_set(["D"]), "NMax": "2" if quick else "3", "Dims": "{2}",
        "MaxAtomsS": "{3}", "MinDistS": "{0, 2560}", "MaxRadS": "{5}", "MinTrapsS": "{1, 3}",
        "MaxTrapsS": "{0, 4, 6}", "Fill4S": "{2, 4}", "OptFill4S": "{0, 1, 2}"}))
    # the same closure for filling fractions that are not 1/k (0.3, 0.35, 0.4, 0.45, 0.6 = f/20),
    # optimal filling undefined / below / equal to the maximum, registers of 1..12 atoms (the
    # prefixes of PA12).  No filling verdict is decided here (no layout in the state, floats are
    # not exact): only "raises RuntimeError or the device accepts what it produced".
    cfgs.append(("autolayout-nondyadic", PA12, {
        **base, "Kinds": tla_set(["D"]), "Prefix": "TRUE", "NMax": "12", "Dims": "{2}",
        "MaxAtomsS": "{12}", "MinDistS": "{0, 2560}", "MaxRadS": "{20}" if quick else "{12, 20}",
        "MinTrapsS": "{1}", "MaxTrapsS": "{0}" if quick else "{0, 45}", "FillDen": "20",
        "Fill4S": "{6, 7, 8, 9, 12}", "OptFill4S": "{0, 6, 7, 8, 9, 12}"}))
    cfgs.append(("connectivity", [(0, 0)], {
        **base, "NMax": "0", "Dims": "{2}" if quick else "{2, 3}",
        "MaxAtomsS": "{0, 7, 30}", "MinDistS": "{0, 4096, 5120}", "MaxRadS": "{0, 5, 21}",
        "ConnN": "{1, 2, 3, 6, 7, 8, 13, 19, 20, 30, 31}" if not quick else "{1, 2, 7, 8, 19, 20, 31}",
        "ConnSp": "{-1, 0, 1, 4095, 4096, 5120, 5121, 10241, 43009}"}))
    return cfgs


def ctor_configs(quick):
    N = NONE
    dev0 = {"KindS": ["D", "V"], "DimS": [2], "RydS": [60], "MinDistS": [0], "MaxAtomsS": [N, 3],
            "MaxRadS": [N, 5], "Fill4S": [2], "OptFill4S": [N], "MinTrapsS": [1], "MaxTrapsS": [N],
            "SeqDurS": [N], "RunsS": [N], "SlmS": [False], "DmmS": ["none"], "ReqLayoutS": [True],
            "ReusableS": [True], "IdsS": ["default"], "XYS": [N]}
    ch0 = {"ClsS": ["Rydberg"], "AddrS": ["G"], "AmpS": [N, 10], "DetS": [N, 20], "MaxDurS": [1000],
           "BwS": [N], "PjtS": [N], "MaxTargetsS": [N], "MinAvgS": [0], "EomS": [False],
           "ClockS": [1], "MinDurS": [1]}
    cfgs = []
    # (A) register / layout parameters, every optional limit present or absent
    cfgs.append(("ctor-geometry", {**dev0, **ch0, "DimS": [2] if quick else [2, 3],
                                   "MinDistS": [0, 4], "MaxAtomsS": [N, 1, 3], "MaxRadS": [N, 5],
                                   "Fill4S": [1, 2, 4], "OptFill4S": [N, 1, 2, 4],
                                   "MinTrapsS": [1, 3], "MaxTrapsS": [N, 2, 3, 12],
                                   "ReqLayoutS": [True] if quick else [True, False]}))
    # (B) every subset of the optional channel parameters, on each channel class
    cfgs.append(("ctor-channel", {**dev0, "XYS": [N, 3700], "DmmS": ["none", "full", "virtual"],
                                  "ClsS": ["Rydberg", "Raman", "Microwave"], "AddrS": ["G", "L"],
                                  "AmpS": [N, 10], "DetS": [N, 0, 20], "MaxDurS": [N, 1000],
                                  "BwS": [N, 4], "PjtS": [N, 0] if quick else [N, 0, 50],
                                  "MaxTargetsS": [N, 1], "MinAvgS": [0] if quick else [0, 1],
                                  "EomS": [False, True], "ClockS": [1] if quick else [1, 4],
                                  "MinDurS": [1, 16], "MaxAtomsS": [3] if quick else [N, 3],
                                  "MaxRadS": [5]}))
    # (C) the remaining device-level parameters
    cfgs.append(("ctor-misc", {**dev0, **ch0, "RydS": [60] if quick else [50, 100],
                               "SeqDurS": [N, 1000], "RunsS": [N, 10], "SlmS": [False, True],
                               "DmmS": ["none", "full", "virtual"], "ReusableS": [True, False],
                               "IdsS": ["default", "custom", "dup"] if quick else
                               ["default", "custom", "dup", "short", "dmmname"],
                               "XYS": [N, 3700], "ClsS": ["Rydberg", "Raman", "Microwave"],
                               "AddrS": ["G"] if quick else ["G", "L"], "MaxTargetsS": [N] if quick else [N, 1],
                               "DetS": [20]}))
    # (D) values outside the documented ranges (observation of the converse direction)
    cfgs.append(("ctor-invalid-device", {**dev0, **ch0, "AmpS": [10], "DetS": [20],
                                         "DimS": [2, 4], "RydS": [49, 50, 100, 101],
                                         "MinDistS": [-1, 0], "MaxAtomsS": [N, 0, 3],
                                         "MaxRadS": [N, 0, 5], "Fill4S": [0, 2, 5],
                                         "OptFill4S": [N, 0, 4], "MinTrapsS": [0, 1],
                                         "MaxTrapsS": [N, 0, 2] if quick else [N, 0, 2, 8]}))
    cfgs.append(("ctor-invalid-channel", {**dev0, **ch0, "AddrS": ["G", "L"], "AmpS": [-1, 10],
                                          "DetS": [-1, 20], "MaxDurS": [0, 8, 1000], "BwS": [N, 0, 4],
                                          "PjtS": [N, -1], "MaxTargetsS": [N, 0, 1], "MinAvgS": [-1, 0],
                                          "EomS": [False, True], "ClockS": [0, 1], "MinDurS": [0, 16]}))
    return cfgs


def run(tier):
    V = Verdict("C12", tier)
    with open(os.path.join(HERE, "C12.findings.json")) as fh:
        V.known = V.known + json.load(fh)
    quick = tier != "thorough"
    procs = max(1, min(8 if quick else 12, (os.cpu_count() or 2) - 2))
    per, samples, obs = [], [], Counter()
    states = trans = cases = tests = 0
    cmd = ""

    def absorb(name, res, pts_recs, results, t_impl):
        nonlocal states, trans, cases, tests, cmd
        nrep = 0
        ntests = 0
        for reports, nt, ob, nr in results:
            for sig, detail in reports:
                V.report(sig, detail)
            ntests += nt
            nrep += nr
            obs.update(ob)
        states += res.distinct
        trans += res.generated
        cases += len(pts_recs)
        tests += ntests
        cmd = cmd or res.cmd
        per.append({"config": name, "tlc_distinct": res.distinct, "tlc_s": round(res.wall, 1),
                    "records_executed": len(pts_recs), "implementation_assertions": ntests,
                    "impl_s": round(t_impl, 1), "mismatches_before_known_filter": nrep})
        samples.extend(pts_recs[:: max(1, len(pts_recs) // 2)][:2])

    # all TLC enumerations run concurrently (JVM start-up and JSON printing dominate), the
    # implementation tests of each configuration start as soon as its records are complete
    from concurrent.futures import ThreadPoolExecutor
    jobs = [("geom", name, pts, "Geometry", {"Pts": tla_pts(pts), **consts}, GEOM_LAWS)
            for name, pts, consts in geometry_configs(quick)]
    jobs += [("ctor", name, None, "DeviceCtor", {k: tla_set(v) for k, v in consts.items()}, CTOR_LAWS)
             for name, consts in ctor_configs(quick)]
    tlc_workers = max(2, (os.cpu_count() or 4) // 4)
    with ThreadPoolExecutor(max_workers=len(jobs)) as ex:
        futs = [(j, ex.submit(enumerate_points, "C12", j[1], j[3], j[4], j[5], tlc_workers))
                for j in jobs]
        for (kind, name, pts, _m, _c, _l), fut in futs:
            res, recs = fut.result()
            t0 = time.time()
            results = run_batch(kind, pts, recs, procs)
            absorb(name, res, recs, results, time.time() - t0)
            if kind == "ctor":
                per[-1]["valid_combinations"] = sum(1 for r in recs if r["ok"])
            if name.startswith("pairpos"):
                key, grp = ("tm", "t") if "layout" in name else ("pm", "a")
                seen = {(len(r[grp]), sorted(r[grp]).index(min(p)), sorted(r[grp]).index(max(p)))
                        for r in recs if len(r[key]) == 1 for p in r[key]}
                per[-1]["single_violating_pair_positions"] = {
                    str(n): f"{sum(1 for s in seen if s[0] == n)}/{n * (n - 1) // 2}" for n in (4, 5, 6)}

    cov = {
        "states": states, "transitions": trans,
        "traces_validated_against_impl": cases,
        "implementation_assertions": tests,
        "samples": samples[:6],
        "exhaustive": True,
        "per_config": per,
        "observations": dict(sorted(obs.items())),
        "rule": "Geometry.tla: every device of the product of the parameter sets that satisfies "
                "DevOK x every subset of 1..NMax candidate points (plain) / every layout of 1..TMax "
                "candidate traps and every non-empty selection of atoms on it (layout); points in "
                "2^-10 um at, one unit inside and one unit outside each limit (3-4-5 and 1-2-2-3 "
                "constructions), duplicates, two points inside the 2e-6 um don't-care band; every "
                "(device, n, spacing) of the max_connectivity lattice.  DeviceCtor.tla: full "
                "product of the listed parameter sets per configuration.",
        "checker_cmd": cmd,
        "seed_used": seed(),
    }
    return V.finish(cov, assumptions=[
        "coordinates = lattice integer * 2^-10 um, exact in binary floating point; squared "
        "distances are exact integers, so the float comparisons of the code are decided exactly "
        "outside the band",
        "pairs whose distance is in (min - 2e-6 um, min) carry no verdict (tolerance band of the "
        "code, 1e-6 um, doubled)",
        "trap coordinates are multiples of 2^-6 um so that the 6-decimal rounding of layouts is "
        "the identity",
        "when several clauses are violated any of them may be the one reported (the statement "
        "fixes no order)",
        "with_automatic_layout is exercised on registers whose atoms satisfy the device; a "
        "RuntimeError is an allowed outcome (documented)",
        "combinations of constructor parameters that the reference calls invalid are executed "
        "but only observed",
    ])
