"""C14: output modulation.  spec/Modulation.tla enumerates the case lattice (TLC pass 1); every case
is measured on the working tree; TLC pass 2 evaluates the contracts of Modulation.tla on the
integer-quantised observations.  The sequence-level clause (modulated sampling succeeds and ends
at duration + fall time) is decided on TLC-generated behaviours of the scheduler model
(predicate C14.ModSampling of the render configurations)."""
import json
import os
import warnings

import numpy as np

from ..env import WORK, assert_tree, seed

assert_tree()
from pulser import Pulse  # noqa: E402
from pulser.channels import Rydberg  # noqa: E402
from pulser.channels.eom import RydbergBeam, RydbergEOM  # noqa: E402
from pulser.waveforms import (BlackmanWaveform, ConstantWaveform, CustomWaveform,  # noqa: E402
                              InterpolatedWaveform, KaiserWaveform, RampWaveform)

from .common import Verdict, enumerate_points  # noqa: E402
from .. import seqcheck, configs  # noqa: E402


def make_wf(cls, dur, amp):
    a = amp / 4.0
    if cls == "const":
        return ConstantWaveform(dur, a)
    if cls == "rampup":
        return RampWaveform(dur, 0.0, a)
    if cls == "rampdown":
        return RampWaveform(dur, a, 0.0)
    if cls == "blackman":
        return BlackmanWaveform(dur, a * dur * 1e-3 * 0.42)
    if cls == "kaiser":
        return KaiserWaveform(dur, a * dur * 1e-3 * 0.3)
    if cls == "interp":
        return InterpolatedWaveform(dur, [0.0, 0.0, a / 12, a / 2, a])
    if cls == "step":
        return CustomWaveform([0.0] * (dur // 2) + [a] * (dur - dur // 2))
    if cls == "neg":
        return RampWaveform(dur, -a, a)
    raise KeyError(cls)


def channel(bw, ebw):
    kw = {}
    if ebw:
        kw["eom_config"] = RydbergEOM(mod_bandwidth=float(ebw), limiting_beam=RydbergBeam.RED,
                                      max_limiting_amp=40 * 2 * np.pi, intermediate_detuning=700 * 2 * np.pi,
                                      controlled_beams=(RydbergBeam.BLUE,))
    return Rydberg.Global(None, None, mod_bandwidth=float(bw), **kw)


def q6(x):
    return int(round(float(x) * 1e6))


def q9(x):
    return int(min(2_000_000_000, round(float(x) * 1e9)))


def observe(pt):
    cls, dur, bw, ebw, amp = pt["cls"], pt["dur"], pt["bw"], pt["ebw"], pt["amp"]
    if dur < 2 and cls in ("rampup", "rampdown", "neg", "interp", "blackman", "kaiser"):
        return None
    if cls == "blackman" and dur < 4:
        return None
    if cls == "interp" and dur < 16:
        return None
    with warnings.catch_warnings():
        warnings.simplefilter("ignore")
        ch = channel(bw, ebw)
        wf = make_wf(cls, dur, amp)
        x = np.asarray(wf.samples.as_array(detach=True), dtype=float)
        if not np.all(np.isfinite(x)):
            return None
        y = x[::-1].copy() * 0.5 + 0.25
        o = {"pt": pt, "len": [], "fall": [], "tail": []}
        modes = [(False, False), (False, True)] + ([(True, False), (True, True)] if ebw else [])
        for eom, keep in modes:
            out = np.asarray(ch.modulate(x, keep_ends=keep, eom=eom).as_array(detach=True))
            tr = ch.eom_config.rise_time if eom else ch.rise_time
            o["len"].append([len(x), len(out), int(tr)])
        m = lambda v: np.asarray(ch.modulate(v).as_array(detach=True))  # noqa: E731
        mx, my = m(x), m(y)
        o["linDefect"] = q9(np.max(np.abs(m(2 * x + 3 * y) - 2 * mx - 3 * my)))
        o["sumDefect"] = q9(abs(np.sum(mx) - np.sum(x)) / (abs(np.sum(x)) + 1.0))
        o["nonNegInput"] = bool(np.all(x >= 0))
        o["minOut"] = q9(np.min(mx))
        o["maxOut"] = q9(np.max(mx))
        o["maxIn"] = q9(np.max(x))
        # tone at the modulation bandwidth (only once per bandwidth: on the constant class)
        o["toneGain"] = -1
        if cls == "const" and dur >= 16:
            n = 4000
            t = np.arange(n)
            tone = np.sin(2 * np.pi * bw * 1e-3 * t)
            mo = m(tone)
            mid = mo[ch.rise_time + n // 4: ch.rise_time + 3 * n // 4]
            o["toneGain"] = int(round(np.max(np.abs(mid)) * 1e4))
        # fall time of the pulse built from this waveform (as amplitude, if non-negative, and detuning)
        pulses = []
        if o["nonNegInput"]:
            pulses.append(Pulse.ConstantDetuning(wf, 0.0, 0.0))
        pulses.append(Pulse.ConstantAmplitude(0.0, wf, 0.0))
        for p in pulses:
            for eom in ([False, True] if ebw else [False]):
                tr = ch.eom_config.rise_time if eom else ch.rise_time
                ft = int(p.fall_time(ch, in_eom_mode=eom))
                o["fall"].append([int(tr), ft] if tr > 0 else [0, 0])
                for w in (p.amplitude, p.detuning):
                    xs = np.asarray(w.samples.as_array(detach=True), dtype=float)
                    outp = np.asarray(ch.modulate(xs, eom=eom).as_array(detach=True))
                    tail = outp[len(xs) + ft:]
                    o["tail"].append([q6(np.max(np.abs(tail))) if len(tail) else 0, q6(np.max(np.abs(xs)))])
    return o


def run(tier):
    V = Verdict("C14", tier)
    quick = tier != "thorough"
    consts = {
        "Mode": '"enumerate"',
        "Classes": '{"const", "rampup", "rampdown", "blackman", "kaiser", "interp", "step", "neg"}',
        "Durations": "{4, 16, 52, 100, 400, 1000, 2000}" if quick else "{1, 2, 4, 7, 16, 52, 100, 250, 400, 1000, 2000, 3000}",
        # 24, 48, 96: bandwidths whose rise time 0.48 / bw is a whole number of ns only up to float rounding
        "Bandwidths": "{4, 8, 24, 40, 120}" if quick else "{1, 4, 8, 20, 24, 40, 48, 96, 120, 480}",
        "EomBandwidths": "{0, 24}" if quick else "{0, 24, 40}",
        "Amps": "{1, 24}" if quick else "{1, 8, 24, 60}",
    }
    res1, pts = enumerate_points("C14", "cases", "Modulation", consts, ["Emit"])
    obs = []
    from multiprocessing import get_context
    with get_context("fork").Pool(12) as pool:
        for o in pool.imap(observe, pts, chunksize=16):
            if o is not None:
                obs.append(o)
    os.makedirs(os.path.join(WORK, "C14"), exist_ok=True)
    path = os.path.join(WORK, "C14", "obs.json")
    with open(path, "w") as fh:
        json.dump(obs, fh)
    consts2 = dict(consts)
    consts2["Mode"] = '"judge"'
    os.environ["OBS_FILE"] = path
    res2, verdicts = enumerate_points("C14", "judge", "Modulation", consts2, ["Judge"])
    for r in verdicts:
        o = obs[r["i"] - 1]
        for pred in r["v"]:
            V.report({"pred": pred, "cls": o["pt"]["cls"], "bw": o["pt"]["bw"], "ebw": o["pt"]["ebw"]},
                     {"case": o["pt"], "obs": {k: v for k, v in o.items() if k != "pt"}})
    # ---- sequence-level clause on TLC-generated behaviours (render configurations)
    runs = []
    for cfg in configs.instances("render", tier):
        r = seqcheck.run_config("C14", ["C14."], cfg, cfg.name)
        runs.append((cfg, r))
        for cand in r["cands"]:
            pred, key, outs, src, pre = cand[:5]
            sig = seqcheck.signature(pred, cfg, key, outs, pre)
            if len(cand) > 5 and isinstance(cand[5], dict):
                sig.update({k: v for k, v in cand[5].items() if isinstance(v, (str, int, bool))})
            V.report(sig, {"calls": seqcheck.describe(cfg, key), "detail": cand[5] if len(cand) > 5 else None})
    cov = {
        "states": res1.distinct + res2.distinct + sum(r["tlc"].distinct for _, r in runs),
        "transitions": res1.generated + res2.generated + sum(r["tlc"].generated for _, r in runs),
        "traces_validated_against_impl": len(obs) + sum(r["leaves"] for _, r in runs),
        "cases_enumerated_by_tlc": len(pts), "cases_measured_on_impl": len(obs),
        "observations_judged_by_tlc": res2.distinct,
        "behaviours_replayed_for_modulated_sampling": sum(r["leaves"] for _, r in runs),
        "samples": [o["pt"] for o in obs[:3]] + [{"config": r["tag"]} for _, r in runs[:1]],
        "exhaustive": True,
        "rule": "cases = waveform class x duration x channel bandwidth x EOM bandwidth x amplitude (lattice in "
                "Modulation.tla); degenerate durations that give non-finite samples are skipped (C16's subject)",
        "explanation": "filter laws are monitored observations judged by TLC, not model checking (DESIGN 6)",
        "checker_cmd": res1.cmd,
    }
    return V.finish(cov, assumptions=["observations quantised to 1e-9 (laws) / 1e-6 (tails) rad/us",
                                      "tone gain measured on the middle half of a 4000-sample sine"])
