"""C19: layouts number traps canonically; registers, maps and layouts agree.
Reference: spec/Layout.tla (TLC enumerates every coordinate sequence of the lattice and prints
the expected trap ids); this module turns every enumerated sequence into implementation tests."""
import itertools

import numpy as np

from ..env import assert_tree

assert_tree()
from pulser.register.register_layout import RegisterLayout  # noqa: E402
from pulser.register.mappable_reg import MappableRegister  # noqa: E402
from pulser.register.weight_maps import DetuningMap  # noqa: E402

from .common import Verdict, enumerate_points  # noqa: E402

UNIT = 1e-7      # um per lattice unit


def to_um(p):
    return [v * UNIT for v in p]


def check_point(rec, V):
    pts, ids, rounded = rec["pts"], rec["ids"], rec["rounded"]
    n, dim = len(pts), len(pts[0])
    coords = [to_um(p) for p in pts]
    sig0 = {"n": n, "dim": dim}
    try:
        lay = RegisterLayout(coords)
    except Exception as e:  # noqa: BLE001
        V.report({**sig0, "clause": "construct", "exc": type(e).__name__}, {"pts": pts, "err": str(e)})
        return 1
    tests = 0
    td = lay.traps_dict
    # 1. trap ids = rank under (x, y, z) of the rounded coordinates
    for i in range(n):
        exp = np.array(rounded[i]) * 1e-6
        got = td[ids[i]]
        tests += 1
        if not np.allclose(got, exp, rtol=0, atol=1e-9):
            V.report({**sig0, "clause": "trap_id"}, {"pts": pts, "i": i, "expected_id": ids[i],
                                                      "traps_dict": {k: list(v) for k, v in td.items()}})
            return tests
    # 2. looking the coordinates up returns the same ids
    tests += 1
    got = lay.get_traps_from_coordinates(*coords)
    if list(got) != list(ids):
        V.report({**sig0, "clause": "lookup"}, {"pts": pts, "got": list(got), "expected": ids})
    # 3. equality and static hash are independent of the order of the input
    perms = [list(reversed(coords)), coords[1:] + coords[:1]]
    if n <= 4:
        perms = [list(p) for p in itertools.permutations(coords)][1:]
    for pc in perms:
        other = RegisterLayout(pc)
        tests += 1
        if not (other == lay and other.static_hash() == lay.static_hash() and hash(other) == hash(lay)):
            V.report({**sig0, "clause": "order_independent_eq_hash"}, {"pts": pts, "perm": pc})
            break
        if any(not np.array_equal(other.traps_dict[k], td[k]) for k in td):
            V.report({**sig0, "clause": "order_independent_ids"}, {"pts": pts, "perm": pc})
            break
    # 4. define_register places each qubit on its trap (every ordered selection of 1..2 ids)
    sel = [[k] for k in range(n)] + [[a, b] for a in range(n) for b in range(n) if a != b]
    for s in sel[:12]:
        qids = [f"q{k}" for k in s]
        reg = lay.define_register(*s, qubit_ids=qids)
        tests += 1
        ok = list(reg.qubit_ids) == qids and all(
            np.allclose(np.asarray(reg.qubits[q].as_array() if hasattr(reg.qubits[q], "as_array")
                                   else reg.qubits[q], dtype=float), td[t], atol=1e-12)
            for q, t in zip(qids, s))
        if not ok:
            V.report({**sig0, "clause": "define_register"}, {"pts": pts, "sel": s,
                                                             "qubits": {q: list(map(float, np.asarray(v.as_array() if hasattr(v, 'as_array') else v))) for q, v in reg.qubits.items()}})
            break
        back = lay.get_traps_from_coordinates(*[np.asarray(reg.qubits[q].as_array() if hasattr(reg.qubits[q], "as_array") else reg.qubits[q], dtype=float) for q in qids])
        if list(back) != list(s):
            V.report({**sig0, "clause": "register_roundtrip"}, {"pts": pts, "sel": s, "back": list(back)})
            break
    # 5. mappable register: chosen qubits on the mapped traps, in declared order
    names = ["b", "a", "c", "q10", "q2"][:n]
    mreg = MappableRegister(lay, *names)
    for k in range(1, n + 1):
        chosen = {names[j]: (n - 1 - j) for j in range(k)}      # declared prefix, reversed traps
        # a mapping given in another insertion order must not matter
        chosen_rev = dict(reversed(list(chosen.items())))
        reg = mreg.build_register(chosen_rev)
        tests += 1
        okm = list(reg.qubit_ids) == names[:k] and all(
            np.allclose(np.asarray(reg.qubits[q].as_array() if hasattr(reg.qubits[q], "as_array") else reg.qubits[q], dtype=float), td[t], atol=1e-12)
            for q, t in chosen.items())
        if not okm:
            V.report({**sig0, "clause": "mappable_declared_order"},
                     {"pts": pts, "chosen": chosen, "got_ids": list(reg.qubit_ids)})
            break
    # 6. detuning map: each qubit gets the weight of the trap at its position, zero if none
    weights = [((3 * i + 1) % 5) / 4 for i in range(n)]         # 0.25, 1.0, 0.5 ... in input order
    dmap = DetuningMap(coords, weights)
    reg = lay.define_register(*range(n), qubit_ids=[f"q{k}" for k in range(n)])
    wm = dmap.get_qubit_weight_map(reg.qubits)
    tests += 1
    # two traps closer than the lookup tolerance (np.isclose: atol 1e-6 + rtol 1e-5) are a separate case
    near = any(all(abs(a - b) <= 1.2e-6 + 1e-5 * abs(b) for a, b in zip(coords[i], coords[j]))
               for i in range(n) for j in range(n) if i != j)
    for i in range(n):
        q = f"q{ids[i]}"                                         # qubit sitting on trap ids[i] = point i
        if abs(wm[q] - weights[i]) > 1e-12:
            V.report({**sig0, "clause": "weight_near_tie" if near else "weight_of_trap"},
                     {"pts": pts, "weights_in_input_order": weights, "got": wm})
            break
    # 6b. a qubit that sits on a trap only after rounding to 1e-6 um (residue below the precision)
    #     still gets the weight of that trap: same rounding as the layout itself uses
    res = 3e-7
    shifted = {f"s{i}": [c + res for c in coords[i]] for i in range(n)}
    ws = dmap.get_qubit_weight_map(shifted)
    tests += 1
    if not near:
        for i in range(n):
            # only when the shifted position still rounds onto the same trap
            if all(round((c + res) * 1e6) == round(c * 1e6) for c in coords[i]) \
                    and abs(ws[f"s{i}"] - weights[i]) > 1e-12:
                V.report({**sig0, "clause": "weight_sub_precision_residue"},
                         {"pts": pts, "i": i, "expected": weights[i], "got": ws[f"s{i}"]})
                break
    far = {"z": [12345.0] * dim}
    if abs(dmap.get_qubit_weight_map(far)["z"]) > 0:
        V.report({**sig0, "clause": "weight_zero_off_trap"}, {"pts": pts})
    sw = list(dmap.sorted_weights)
    exp_sw = [weights[ids.index(t)] for t in range(n)]
    tests += 1
    if not np.allclose(sw, exp_sw):
        V.report({**sig0, "clause": "sorted_weights"}, {"pts": pts, "got": sw, "expected": exp_sw})
    # 7. the arrays handed out by the accessors are copies: editing them in place must not change
    #    the layout (trap ids, equality, hash, placement of registers, look-ups)
    h0, td0 = lay.static_hash(), {k: v.copy() for k, v in lay.traps_dict.items()}
    for getter in (lambda: lay.coords, lambda: lay.sorted_coords, lambda: next(iter(lay.traps_dict.values())),
                   lambda: dmap.sorted_coords, lambda: dmap.trap_coordinates):
        try:
            arr = getter()
            arr += 17.0
        except (ValueError, TypeError):
            continue          # a read-only view is fine too
    tests += 1
    if lay.static_hash() != h0 or any(not np.array_equal(lay.traps_dict[k], td0[k]) for k in td0) \
            or list(lay.get_traps_from_coordinates(*coords)) != list(ids) \
            or not (RegisterLayout(coords) == lay):
        V.report({**sig0, "clause": "accessor_aliases_internal_array"}, {"pts": pts})
    return tests


def probes(V):
    """Selections and positions the layout documents it refuses.  A refusal is fine; when such a call returns
    normally, what the statement says about its result must hold (the qubit sits exactly on the trap it
    records, and looking its position up returns that same id)."""
    import pulser
    tests = 0
    for dim, pts in ((2, [(0.0, 0.0), (20.0, 0.0), (0.0, 20.0), (20.0, 20.0), (10.0, 5.0)]),
                     (3, [(0.0, 0.0, 0.0), (20.0, 0.0, 0.0), (0.0, 20.0, 5.0), (20.0, 20.0, 20.0)])):
        lay = RegisterLayout(pts)
        n = lay.number_of_traps
        sc = np.asarray(lay.sorted_coords, dtype=float)
        for sel in ((-1,), (-n,), (n - 1, -1), (n,), (0, -2)):
            tests += 1
            try:
                reg = lay.define_register(*sel)
            except Exception:  # noqa: BLE001
                continue
            pos = [np.asarray(reg.qubits[q].as_array() if hasattr(reg.qubits[q], "as_array") else reg.qubits[q],
                              dtype=float) for q in reg.qubit_ids]
            on = all(0 <= t < n and np.allclose(p, sc[t], rtol=0, atol=1e-6) for t, p in zip(sel, pos))
            try:
                back = list(lay.get_traps_from_coordinates(*pos))
            except Exception:  # noqa: BLE001
                back = None
            if not on or back != list(sel) or len({tuple(np.round(p, 6)) for p in pos}) != len(pos):
                V.report({"clause": "define_register_outside_ids", "dim": dim, "n": n},
                         {"selection": list(sel), "lookup": back, "positions": [list(map(float, p)) for p in pos]})
        # a register that names its layout and traps while sitting off them
        Reg = pulser.Register if dim == 2 else pulser.Register3D
        for off in (3e-6, 5e-5, 2e-4):
            tests += 1
            ids = [n - 1, 1]         # the first one has large coordinates: a relative tolerance would swallow the offset
            q = {f"a{k}": sc[t] + (off if k == 0 else 0.0) * np.eye(dim)[0] for k, t in enumerate(ids)}
            try:
                reg = Reg(q, layout=lay, trap_ids=ids)
            except Exception:  # noqa: BLE001
                continue
            V.report({"clause": "register_off_its_traps_accepted", "dim": dim},
                     {"offset_um": off, "trap": ids[0], "trap_coords": list(map(float, sc[ids[0]]))})
    return tests


def run(tier):
    V = Verdict("C19", tier)
    quick = tier != "thorough"
    runs = []
    # TLC builds the set of all point sequences in the initial predicate: at most 1e6 elements per run
    if quick:
        lattices = [(2, 3, "{-6, -4, 4, 6, 10000014}"), (3, 2, "{-6, 4, 10000014}")]
    else:
        lattices = [(2, 3, "{-16, -6, -4, 4, 6, 10000014}"), (2, 4, "{-6, -4, 4, 10000014}"),
                    (3, 3, "{-6, 4, 10000014}")]
    for (dim, nmax, g) in lattices:
        res, pts = enumerate_points("C19", f"layout-{dim}d-n{nmax}", "Layout",
                                    {"Grid": g, "Dim": str(dim), "NMin": "2", "NMax": str(nmax)},
                                    ["Emit", "Bijection", "PermutationInvariant", "SortedAscending"])
        tests = 0
        for rec in pts:
            tests += check_point(rec, V)
        runs.append((dim, nmax, res, len(pts), tests, pts[:2]))
    n_probes = probes(V)
    cov = {
        "refusal_probes": n_probes,
        "states": sum(r[2].distinct for r in runs), "transitions": sum(r[2].generated for r in runs),
        "traces_validated_against_impl": sum(r[3] for r in runs),
        "implementation_assertions": sum(r[4] for r in runs),
        "samples": [s for r in runs for s in r[5]][:4],
        "exhaustive": True,
        "per_config": [{"dim": r[0], "max_points": r[1], "tlc_distinct": r[2].distinct,
                        "tlc_s": round(r[2].wall, 1), "layouts_enumerated": r[3]} for r in runs],
        "rule": "every sequence (= every set in every order) of 2..max points of Grid^dim whose rounded "
                "coordinates are distinct; grid in 1e-7 um with near-ties at the 1e-6 rounding precision",
        "checker_cmd": runs[0][2].cmd,
    }
    return V.finish(cov, assumptions=["float coordinates = lattice integer * 1e-7 um (no exact rounding halves)",
                                      "inputs whose rounded coordinates collide are excluded (the property "
                                      "speaks of sets of coordinates)"])
