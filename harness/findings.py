"""Known findings (DESIGN 3.5): genuine defects recorded by signature, never whole properties."""
import json
import os

from .env import VERIF

PATH = os.path.join(VERIF, "known_findings.json")


def load():
    if not os.path.exists(PATH):
        return []
    with open(PATH) as fh:
        return json.load(fh)["findings"]


def match(prop, sig, entries=None):
    """Return the first 'finding' entry whose signature is a sub-dictionary of sig."""
    for e in (load() if entries is None else entries):
        if e.get("status") != "finding" or e["property"] != prop:
            continue
        if all(sig.get(k) == v for k, v in e["signature"].items()):
            return e
    return None
