"""Spec -> code conformance: explore a configuration with TLC, replay every explored
behaviour on the implementation and compare outcome + projected state after each call."""
import json
import multiprocessing as mp
import os
import shutil
import time

from .env import WORK, assert_tree

assert_tree()
from . import project as P  # noqa: E402
from .replay import Runner, nm_of  # noqa: E402
from .tla import run_tlc, unquote_tla_string  # noqa: E402

_G = {}


def dev_of(key):
    return int(key[0][1:])


def calls_of(key):
    return tuple(key[1:])


def explore(cfg, workdir, depth=None, workers=16, simulate=None, invariants=None, timeout=3600):
    """Run TLC on the configuration; returns (TLCResult, expect) where expect maps a history
    (tuple of call indices) to (outs, rets, raw-json-of-state, viol-list)."""
    expect = {}

    def on_line(line):
        if not line.startswith('"ST|'):
            return
        body = unquote_tla_string(line)[3:]
        rec = json.loads(body)
        h = rec["h"]
        key = (f"d{rec['s']['dev']}",) + tuple(e[0] for e in h)
        expect[key] = (tuple(e[1] for e in h), tuple(e[2] for e in h), rec["s"], rec["v"], rec.get("r"),
                       rec.get("b"), tuple(e[3] for e in h), rec.get("sw"))

    render = getattr(cfg, "render", False)
    template = bool(getattr(cfg, "assignments", None))
    switch = getattr(cfg, "switch", False)
    inv = invariants or (("EmitR", "RenderInv") if render else ("EmitB",) if template
                         else ("EmitS",) if switch else ("Emit",)) + ("TilingInv", "TypeOK")
    res = run_tlc(workdir, "MC_gen", cfg.cfg_text(inv, depth), cfg.gen_module(),
                  on_line=on_line, workers=workers, simulate=simulate, timeout=timeout)
    return res, expect


def _ctx(cfg, dev_index):
    dev = cfg.devs[dev_index - 1]
    from . import devices as D

    def cid_of(real_id):
        for k in range(1, len(dev["chs"]) + 1):
            if D.real_id(dev, k) == real_id:
                return k
        return 0
    ctx = P.Ctx(dev_index, dev, cid_of, nm_of, cfg.phase_unit, cfg.phase_mod,
                cfg.sp_lookup(dev_index))
    if dev.get("intids"):
        ctx.qids = D.reg_ids(dev)
    return ctx


def _replay_chunk(keys):
    cfg, expect = _G["cfg"], _G["expect"]
    verified = set()
    mismatches = []
    nsteps = 0
    hookv = []
    render = getattr(cfg, "render", False)
    if render:
        from .render import check_render
    ham = getattr(cfg, "ham", False)
    if ham:
        from .hamcheck import check_hamiltonian
    template = bool(getattr(cfg, "assignments", None))
    if template:
        from .template import check_build
    mappable = bool(getattr(cfg, "mappings", None))
    if mappable:
        from .template import check_mappable
    relations = getattr(cfg, "relations", False)
    if relations:
        from .relations import check_relations
    switch = getattr(cfg, "switch", False)
    if switch:
        from .switch import check_switch
    for key in keys:
        outs, rets, st = expect[key][:3]
        dev_index = dev_of(key)
        run = Runner(cfg, dev_index)
        ctx = _ctx(cfg, dev_index)
        bad = False
        for k in cfg.init_calls:
            out, _ = run.call(cfg.calls[k - 1])
            if out != "ok":
                mismatches.append({"h": list(key), "at": -1, "why": f"init call {k} -> {out}"})
                bad = True
                break
        if bad:
            continue
        for n, k in enumerate(key[1:]):
            out, ret = run.call(cfg.calls[k - 1])
            nsteps += 1
            pre = key[:n + 2]
            if pre in verified:
                continue
            e = expect.get(pre)
            if e is None:
                mismatches.append({"h": list(pre), "at": n, "why": "prefix not emitted by TLC"})
                break
            why = None
            if out != e[0][n]:
                why = f"outcome {out} vs model {e[0][n]}"
            elif ret != e[1][n]:
                why = f"return {ret} vs model {e[1][n]}"
            else:
                proj = P.project(run.seq, ctx)
                why = P.diff(proj, e[2], cfg.ptol, cfg.phase_mod, "s")
                for pred, detail in P.check_readings(run.seq, proj):
                    hookv.append((pred, pre, detail))
                if not why and render and e[4] is not None:
                    for pred, detail in check_render(run.seq, e[4], proj):
                        hookv.append((pred, pre, detail))
                if not why and switch and dev_index in cfg.init_devs:
                    for pred, detail in check_switch(cfg, run, ctx, proj, e[7]):
                        hookv.append((pred, pre, detail))
                if not why and mappable:
                    for pred, detail in check_mappable(cfg, run, ctx, pre, e, proj):
                        hookv.append((pred, pre, detail))
                if not why and relations:
                    for pred, detail in check_relations(cfg, run, ctx, proj):
                        hookv.append((pred, pre, detail))
                if not why and template and e[5] is not None:
                    for pred, detail in check_build(cfg, run, ctx, pre, e, proj):
                        hookv.append((pred, pre, detail))
                if not why and render and e[4] is not None:
                    if ham and e[0][n] == "ok":
                        for pred, detail in check_hamiltonian(run.seq, e[4], proj, run.dev["nq"]):
                            hookv.append((pred, pre, detail))
            if why:
                mismatches.append({"h": list(pre), "at": n, "why": why,
                                   "call": cfg.calls[k - 1]})
                if render:
                    try:
                        from .render import check_modsampling
                        for pred, detail in check_modsampling(run.seq, P.project(run.seq, ctx)):
                            hookv.append((pred, pre, detail))
                    except Exception:  # noqa: BLE001
                        pass
                if relations:
                    try:
                        for pred, detail in check_relations(cfg, run, ctx, P.project(run.seq, ctx)):
                            hookv.append((pred, pre, detail))
                    except Exception:  # noqa: BLE001
                        pass
                if template:
                    # the build relations are implementation-vs-implementation: they are still
                    # decided on a behaviour that drifted from the model (real outcomes are used)
                    try:
                        e2 = list(e)
                        e2[0] = tuple(e[0][:n]) + (out,)
                        e2[5] = None
                        for pred, detail in check_build(cfg, run, ctx, pre, e2, P.project(run.seq, ctx)):
                            hookv.append((pred, pre, detail))
                    except Exception:  # noqa: BLE001
                        pass
                break
            verified.add(pre)
    return mismatches, nsteps, len(verified), hookv


def replay_all(cfg, expect, procs=16):
    """Replay every maximal history; returns (mismatches, n_leaves, n_steps, n_states_compared)."""
    keys = sorted(expect)
    keyset = set(keys)
    # leaves: histories that are not a proper prefix of another emitted history
    has_child = set(k[:-1] for k in keys if len(k) > 1)
    leaves = [k for k in keys if k not in has_child]
    _G["cfg"], _G["expect"] = cfg, expect
    if not leaves:
        return [], 0, 0, 0, []
    n = max(1, min(procs, len(leaves) // 50 + 1))
    size = max(1, len(leaves) // (n * 8) + 1)
    chunks = [leaves[i:i + size] for i in range(0, len(leaves), size)]
    mism, steps, comp, hookv = [], 0, 0, []
    if n == 1:
        results = [_replay_chunk(c) for c in chunks]
    else:
        ctx = mp.get_context("fork")
        with ctx.Pool(n) as pool:
            results = pool.map(_replay_chunk, chunks)
    for m, s, c, hv in results:
        mism += m
        steps += s
        comp += c
        hookv += hv
    return mism, len(leaves), steps, comp, hookv


# --------------------------------------------------------------------------------------
# code -> spec: record real executions and let TLC judge them (spec/PulserSeqTrace.tla)
def record_trace(cfg, dev_index, key):
    """Run the calls `key` (indices into cfg.calls) on a fresh real Sequence, logging the
    projection of the real object after every call."""
    run = Runner(cfg, dev_index)
    ctx = _ctx(cfg, dev_index)
    for k in cfg.init_calls:
        run.call(cfg.calls[k - 1])
    init = P.project(run.seq, ctx)
    steps = []
    for k in calls_of(key) if key and isinstance(key[0], str) else key:
        out, ret = run.call(cfg.calls[k - 1])
        steps.append({"k": k, "out": out, "ret": ret, "post": P.project(run.seq, ctx)})
    return {"init": init, "steps": steps}


def trace_check(cfg, traces, workdir, timeout=3600):
    """Validate recorded traces with TLC.  Returns (TLCResult, reports) where reports is a list
    of {t, l, drift, v} for every line that drifted from the model or violated a predicate."""
    os.makedirs(workdir, exist_ok=True)
    path = os.path.join(workdir, "traces.json")
    with open(path, "w") as fh:
        json.dump(traces, fh)
    reports = []

    def on_line(line):
        if line.startswith('"TV|'):
            reports.append(json.loads(unquote_tla_string(line)[3:]))
        elif line.startswith('"SV|'):
            r = json.loads(unquote_tla_string(line)[3:])
            reports.append({"t": r["t"], "l": 0, "drift": False, "v": r["v"]})

    gen = cfg.gen_module(name="MC_trace", root="PulserSeqTrace")
    cfgtxt = cfg.cfg_text(invariants=(), depth=0).replace("SPECIFICATION Spec", "SPECIFICATION TraceSpec")
    cfgtxt = "\n".join(l for l in cfgtxt.split("\n")
                       if not l.strip().startswith(("NAssign", "InitDevs")))
    cfgtxt += "\nPOSTCONDITION AllConsumed\n"
    res = run_tlc(workdir, "MC_trace", cfgtxt, gen, on_line=on_line, workers=1, timeout=timeout,
                  env_extra={"TRACE_FILE": path})
    return res, reports
