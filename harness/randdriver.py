"""Code -> spec with a randomized driver: long random programs (8-18 public calls, valid and invalid)
on random devices with float-valued pulses, executed on the working tree under the recorder of
harness/record.py and validated by TLC against spec/PulserSeqTrace.tla -- strict conformance with
the mirrored model and the declarative predicates on the real states at every step.

Where the exhaustive configurations are deep in *branching* (every call of a lattice at every
step, depth 3-4), this driver is deep in *length*: trace validation is linear in the trace, so a
program of 18 calls costs 18 states.  Everything is a function of (seed, index)."""
import random
import warnings

from .env import assert_tree

assert_tree()
import numpy as np  # noqa: E402
from pulser import Pulse, Sequence  # noqa: E402
from pulser.waveforms import (BlackmanWaveform, CompositeWaveform, ConstantWaveform, CustomWaveform,  # noqa: E402
                              InterpolatedWaveform, RampWaveform)

from . import devices as D  # noqa: E402
from . import record as R  # noqa: E402

PROTOS = ["min-delay", "no-delay", "wait-for-all"]


def gen_device(rng):
    nq = rng.choice([2, 3, 4])
    nch = rng.choice([1, 2, 3, 3])
    chs = []
    for k in range(nch):
        local = rng.random() < 0.4
        clock = rng.choice([1, 1, 2, 4, 4, 8])
        c = {"kind": rng.choice(["ryd", "ryd", "ram"]), "addr": "L" if local else "G",
             "clock": clock, "minDur": rng.choice([1, 4, 6, 8, 16, 12]),
             "bw": rng.choice([None, None, 160.0, 80.0, 40.0, 20.0, 8.0, 4.0]),
             "maxDur": rng.choice([None, None, None, 1000, 240]),
             "maxAmp": rng.choice([None, 12.5, 2.0]), "maxDet": rng.choice([None, 50.0, 1.0, 0.0]),
             "minAvg": rng.choice([0, 0, 0, 0.5])}
        c["cpjt"] = rng.choice([None, None, 0, 20, 200, 400]) if c["bw"] is not None else rng.choice([None, None, 20])
        if local:
            c["minRet"] = rng.choice([0, 20, 100, 220])
            c["fixRet"] = rng.choice([0, 0, 8, 10, 300])
            c["maxTg"] = rng.choice([1, 2, None])
        elif c["kind"] == "ryd" and rng.random() < 0.75:
            c["bw"] = c["bw"] or 40.0
            c["eom"] = {"bw": rng.choice([40.0, 24.0, 48.0]), "buf": rng.choice([None, None, 40, 240]),
                        "multiple_beam_control": rng.random() < 0.7,
                        "controlled_beams": rng.choice([("BLUE",), ("BLUE", "RED"), ("BLUE", "RED")])}
            c["maxAmp"] = c["maxAmp"] or 25.0
            c["maxDet"] = None if c["maxDet"] in (0.0, 1.0) else c["maxDet"]
        chs.append(c)
    ndmm = rng.choice([0, 0, 1, 2])
    for _ in range(ndmm):
        chs.append({"kind": "dmm", "clock": rng.choice([1, 4]), "minDur": rng.choice([1, 16]),
                    "bw": rng.choice([None, None, None, 40.0]), "bottom": rng.choice([-50.0, -20.0]),
                    "totalBottom": rng.choice([None, -60.0])})
    dev = {"nq": nq, "chs": chs, "maxSeq": rng.choice([-1, -1, -1, 600, 2000]),
           "reusable": rng.random() < 0.25, "slm": ndmm > 0 and rng.random() < 0.6}
    return dev


def gen_pulse(rng):
    dur = rng.choice([1, 3, 5, 8, 12, 16, 17, 24, 52, 100, 128])
    amp = rng.choice([0.0, 0.25, 1.0, 2.0, 2.001, 3.5, 12.5, 12.501])
    det = rng.choice([0.0, 0.0, -1.0, 1.0, 0.3, -7.25, 25.0, 50.0, 50.002])
    ph = rng.choice([0.0, 0.0, round(rng.uniform(-7, 14), 3), 1.0, 3.141593])
    pps = rng.choice([0.0, 0.0, 0.0, round(rng.uniform(-3, 3), 3)])
    kind = rng.choice(["const", "const", "ramp", "rampdet", "blackman", "custom", "composite", "interp"])
    try:
        if kind == "const":
            return Pulse.ConstantPulse(dur, amp, det, ph, post_phase_shift=pps)
        if kind == "ramp":
            return Pulse(RampWaveform(dur, amp / 4, amp), ConstantWaveform(dur, det), ph, post_phase_shift=pps)
        if kind == "rampdet":
            return Pulse(ConstantWaveform(dur, amp), RampWaveform(dur, -det, det), ph, post_phase_shift=pps)
        if kind == "blackman":
            return Pulse.ConstantDetuning(BlackmanWaveform(max(dur, 8), 0.02 * max(amp, 0.5)), det, ph,
                                          post_phase_shift=pps)
        if kind == "custom":
            return Pulse(CustomWaveform([amp * ((j * 7) % 5) / 4 for j in range(dur)]),
                         CustomWaveform([det * (1 - 2 * (j % 2)) for j in range(dur)]), ph, post_phase_shift=pps)
        if kind == "composite":
            d1 = max(1, dur // 3)
            return Pulse(CompositeWaveform(ConstantWaveform(d1, amp), RampWaveform(max(2, dur - d1), amp, 0.0)),
                         ConstantWaveform(d1 + max(2, dur - d1), det), ph, post_phase_shift=pps)
        return Pulse(InterpolatedWaveform(max(dur, 4), [0.0, amp, amp / 2]), ConstantWaveform(max(dur, 4), det), ph,
                     post_phase_shift=pps)
    except Exception:  # noqa: BLE001  (degenerate shapes the constructors refuse)
        return Pulse.ConstantPulse(max(dur, 4), amp, det, ph)


class World:
    """One random device with a pool of pulses; programs are drawn on it."""

    def __init__(self, rng):
        self.rng = rng
        for _ in range(50):
            try:
                self.dev = gen_device(rng)
                self.device = D.make_device(self.dev)
                break
            except Exception:  # noqa: BLE001
                continue
        else:
            raise RuntimeError("no device")
        self.reg = D.make_register(self.dev["nq"])
        self.qids = list(self.reg.qubit_ids)
        self.pulses = [gen_pulse(rng) for _ in range(10)]
        self.ids = list(self.device.channels.keys())
        self.dmm_ids = list(self.device.dmm_channels.keys())
        # distinct amplitudes: the projection recognises a block's setpoint by (amp_on, detuning_on)
        self.setpoints = [(a, rng.choice([0.0, -2.0, 3.0]), rng.choice([0.0, 0.0, -20.0, 1.0, -4.0]))
                          for a in rng.sample([1.0, 2.5, 12.5, 0.5], 3)]

    def program(self, n_calls):
        rng = self.rng
        with warnings.catch_warnings():
            warnings.simplefilter("ignore")
            seq = Sequence(self.reg, self.device)
            names = []
            dmm_names = []
            eom_names = []

            def call(f, *a, **k):
                try:
                    return getattr(seq, f)(*a, **k)
                except Exception:  # noqa: BLE001  (refusals are part of the program)
                    return None

            def some_q(kmax=2):
                k = rng.choice([1, 1, 1, 2][:max(1, kmax + 2)])
                return rng.sample(self.qids, min(k, len(self.qids)))

            def name():
                pool = names + dmm_names
                if not pool or rng.random() < 0.04:
                    return "nope"
                return rng.choice(pool)

            # mostly start by declaring something
            for _ in range(n_calls):
                r = rng.random()
                if (not names and r < 0.85) or r < 0.10:
                    cid = rng.choice(self.ids) if rng.random() < 0.95 else "zz"
                    nm = f"ch{len(names)}" if rng.random() < 0.93 or not names else rng.choice(names)
                    ch = self.device.channels.get(cid)
                    it = None
                    if ch is not None and ch.addressing == "Local" and rng.random() < 0.7:
                        it = some_q()
                        it = it[0] if len(it) == 1 and rng.random() < 0.5 else it
                    elif rng.random() < 0.05:
                        it = self.qids[0]
                    before = set(seq.declared_channels)
                    call("declare_channel", nm, cid, initial_target=it)
                    if nm in seq.declared_channels and nm not in before:
                        names.append(nm)
                        if ch is not None and ch.supports_eom():
                            eom_names.append(nm)
                    continue
                if r < 0.40:
                    call("add", rng.choice(self.pulses), name(), protocol=rng.choice(PROTOS))
                elif r < 0.50:
                    call("delay", rng.choice([0, 1, 4, 7, 16, 40, 100, 13, 1000, -4]), name(),
                         at_rest=rng.random() < 0.3)
                elif r < 0.60:
                    q = some_q()
                    if rng.random() < 0.05:
                        q = ["notaqubit"]
                    call("target", q[0] if len(q) == 1 else q, name())
                elif r < 0.66:
                    if len(names) >= 2:
                        k = rng.choice([2, 2, 3])
                        call("align", *rng.sample(names, min(k, len(names))), at_rest=rng.random() < 0.5)
                    else:
                        call("align", *(names + ["nope"]))
                elif r < 0.73:
                    basis = rng.choice(["ground-rydberg", "digital", "digital", "XY"])
                    tg = some_q() if rng.random() < 0.7 else []
                    call("phase_shift", round(rng.uniform(-7, 7), 4), *tg, basis=basis)
                elif r < 0.765:
                    call("estimate_added_delay", rng.choice(self.pulses), name(), protocol=rng.choice(PROTOS))
                elif r < 0.79:
                    call("get_duration", name())
                elif r < 0.92 and eom_names:
                    nm = rng.choice(eom_names)
                    rr = rng.random()
                    sp = rng.choice(self.setpoints)
                    if rr < 0.3:
                        call("enable_eom_mode", nm, sp[0], sp[1], optimal_detuning_off=sp[2],
                             correct_phase_drift=rng.random() < 0.5)
                    elif rr < 0.65:
                        call("add_eom_pulse", nm, rng.choice([16, 24, 100, 17, 4]),
                             rng.choice([0.0, 0.0, 1.5, round(rng.uniform(-3, 9), 3)]),
                             post_phase_shift=rng.choice([0.0, 0.0, 0.75]), protocol=rng.choice(PROTOS),
                             correct_phase_drift=rng.random() < 0.5)
                    elif rr < 0.8:
                        call("modify_eom_setpoint", nm, sp[0], sp[1], optimal_detuning_off=sp[2],
                             correct_phase_drift=rng.random() < 0.5)
                    else:
                        call("disable_eom_mode", nm, correct_phase_drift=rng.random() < 0.5)
                elif r < 0.955 and self.dmm_ids:
                    rr = rng.random()
                    if rr < 0.35:
                        w = {q: rng.choice([0.0, 0.5, 1.0]) for q in self.qids}
                        if not any(w.values()):
                            w[self.qids[0]] = 1.0
                        try:
                            dm = self.reg.define_detuning_map(w)
                        except Exception:  # noqa: BLE001
                            continue
                        did = rng.choice(self.dmm_ids)
                        before = set(seq.declared_channels)
                        call("config_detuning_map", dm, did)
                        dmm_names += [n for n in seq.declared_channels if n not in before]
                    elif rr < 0.5:
                        before = set(seq.declared_channels)
                        call("config_slm_mask", some_q(), rng.choice(self.dmm_ids))
                        dmm_names += [n for n in seq.declared_channels if n not in before]
                    elif dmm_names:
                        d = rng.choice([4, 16, 40, 17])
                        v = rng.choice([-1.0, -5.0, -20.0, -55.0, 0.0, 2.0])
                        wf = ConstantWaveform(d, v) if rng.random() < 0.7 else RampWaveform(d, v, 0.0)
                        call("add_dmm_detuning", wf, rng.choice(dmm_names), protocol=rng.choice(PROTOS))
                elif r < 0.965:
                    call("measure", rng.choice(["ground-rydberg", "digital", "XY", "ground-rydberg"]))
                else:
                    call("delay", 16, name())
        return seq


def generate(seed, n_worlds, per_world, n_calls=(8, 18)):
    """Runs the programs under the recorder; returns the recorded traces."""
    R.install()
    start = len(R.TRACES)
    for w in range(n_worlds):
        rng = random.Random(f"randprog-{seed}-{w}")
        world = World(rng)
        for i in range(per_world):
            R.CURRENT_ORIGIN[0] = f"randprog seed={seed} world={w} program={i}"
            world.program(rng.randint(*n_calls))
    return R.TRACES[start:]


def replay(origin, workdir):
    """Re-executes the program named by an origin string ("randprog seed=S world=W program=I") on the
    tree and validates it again; returns (trace, reports)."""
    import re
    from . import tracecheck
    m = re.match(r"randprog seed=(\d+) world=(\d+) program=(\d+)", origin)
    sd, w, i = (int(x) for x in m.groups())
    R.install()
    rng = random.Random(f"randprog-{sd}-{w}")
    world = World(rng)
    start = len(R.TRACES)
    for k in range(i + 1):
        R.CURRENT_ORIGIN[0] = f"randprog seed={sd} world={w} program={k}"
        world.program(rng.randint(8, 18))
    tr = [t for t in R.TRACES[start:] if t.origin == origin]
    summ, reports = tracecheck.validate(tr, workdir, max_group=10)
    return tr, summ, reports


def main(argv):
    """python -m harness.randdriver <seed> <worlds> <programs per world> <report.json>"""
    import json
    import os
    import time
    from . import tracecheck
    from .env import WORK
    seed, nw, pw = int(argv[1]), int(argv[2]), int(argv[3])
    out = argv[4] if len(argv) > 4 else None
    wdir = os.path.join(os.path.dirname(out), f"tlc-s{seed}") if out else os.path.join(WORK, "randprog-dev", f"s{seed}")
    t0 = time.time()
    traces = generate(seed, nw, pw)
    t1 = time.time()
    summ, reports = tracecheck.validate(traces, wdir, max_group=pw)
    dead, ops, outs = {}, {}, {}
    for t in traces:
        if t.dead:
            dead[t.dead] = dead.get(t.dead, 0) + 1
        for s in t.steps:
            op = t.calls[s["k"] - 1]["op"]
            ops[op] = ops.get(op, 0) + 1
            outs[s["out"]] = outs.get(s["out"], 0) + 1
    samples = []
    for t in traces:
        if len(t.steps) >= 8 and len(samples) < 3:
            samples.append({"origin": t.origin, "calls": [t.calls[s["k"] - 1] for s in t.steps[:10]],
                            "outs": [s["out"] for s in t.steps[:10]]})
    doc = {"summary": {"traces": summ["traces"], "lines": summ["lines"], "tlc_states": summ["tlc_states"],
                       "errors": [str(e)[:600] for e in summ["errors"]], "sequences_seen": len(traces),
                       "prefix_ended_by": dead, "ops": ops, "outcomes": outs,
                       "gen_s": round(t1 - t0, 1), "val_s": round(time.time() - t1, 1)},
           "reports": reports, "samples": samples}
    if out:
        with open(out, "w") as fh:
            json.dump(doc, fh, default=str)
    else:
        print(json.dumps(doc["summary"], indent=1, default=str))
        for r in reports[:40]:
            print(r["origin"], "line", r["line"], "drift" if r["drift"] else "", r["v"], json.dumps(r["call"]),
                  r["out"], r.get("model_out"))
    return 0


if __name__ == "__main__":
    import sys
    sys.exit(main(sys.argv))
