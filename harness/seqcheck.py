"""Generic decision procedure for the sequence-level properties (DESIGN 3.4):
TLC explores the mirrored model and evaluates the declarative predicates on every transition;
every explored behaviour is replayed on the implementation; behaviours on which the
implementation differs from the model are recorded and judged by TLC on the real states."""
import json
import os
import shutil
import sys
import time

from .env import WORK, seed
from . import engine, findings, evidence

MAX_TRACES = 4000


def describe(cfg, key):
    return [cfg.calls[k - 1] for k in engine.calls_of(key)]


def signature(pred, cfg, key, outs, pre=None):
    c = dict(cfg.calls[key[-1] - 1]) if len(key) > 1 else {}
    sig = {"pred": pred, "out": outs[-1] if outs else ""}
    if pre is not None and "nm" in c:
        # one state feature: was the channel of the call still empty (duration 0) before it?
        for ch in pre.get("ch", []):
            if ch["nm"] == c["nm"]:
                sig["chan_empty_before"] = ch["du"] == 0
    for k, v in c.items():
        if isinstance(v, (str, int, bool)):
            sig[k] = v
    return sig


def tree_digest(tag):
    """Digest of everything a configuration run depends on: the implementation files of the
    working tree, the specs, the harness, the seed and the configuration tag."""
    import hashlib
    from .env import REPO, VERIF
    h = hashlib.sha256()
    roots = [os.path.join(REPO, "pulser-core", "pulser"),
             os.path.join(REPO, "pulser-simulation", "pulser_simulation"),
             os.path.join(VERIF, "spec"), os.path.join(VERIF, "harness")]
    for root in roots:
        for dp, dn, fn in sorted(os.walk(root)):
            dn.sort()
            if "__pycache__" in dp:
                continue
            for f in sorted(fn):
                if f.endswith(".pyc"):
                    continue
                fp = os.path.join(dp, f)
                h.update(fp.encode())
                with open(fp, "rb") as fh:
                    h.update(fh.read())
    h.update(f"{tag}|{seed()}".encode())
    return h.hexdigest()[:24]


def run_config(prop, preds, cfg, tag, simulate=None, report=None):
    """Memoised on the content of the working tree (+ specs, harness, seed, configuration):
    several properties are decided on the same configurations, and a run is a pure function
    of those inputs.  VERIF_NOCACHE=1 disables the memo."""
    import pickle
    cdir = os.path.join(WORK, "cache")
    os.makedirs(cdir, exist_ok=True)
    cpath = os.path.join(cdir, f"{tag}-{tree_digest(tag)}.pkl")
    if os.path.exists(cpath) and not os.environ.get("VERIF_NOCACHE"):
        try:
            with open(cpath, "rb") as fh:
                r = pickle.load(fh)
            r["cache_hit"] = True
        except Exception:  # noqa: BLE001
            r = None
    else:
        r = None
    if r is None:
        _t = time.time()
        r = _run_config(prop, cfg, tag, simulate)
        r["cache_hit"] = False
        r["run_wall_s"] = round(time.time() - _t, 1)
        # prune old cache entries of this tag
        for f in os.listdir(cdir):
            if f.startswith(tag + "-") and os.path.join(cdir, f) != cpath:
                os.remove(os.path.join(cdir, f))
        with open(cpath + ".tmp", "wb") as fh:
            pickle.dump(r, fh)
        os.replace(cpath + ".tmp", cpath)
    r = dict(r)
    r["cands"] = [c for c in r["all_cands"] if c[0].startswith(tuple(preds))]
    return r


def _run_config(prop, cfg, tag, simulate=None):
    """Returns dict with counts and the list of all candidate violations
    [(pred, key, outs, source)]."""
    preds = ("C",)
    work = os.path.join(WORK, prop, tag)
    shutil.rmtree(work, ignore_errors=True)
    res, expect = engine.explore(cfg, work, simulate=simulate)
    if not res.ok or not expect:
        print(f"MACHINERY-FAILURE: TLC failed on configuration {tag}: {res.errors[:3]}")
        print("\n".join(res.tail[-30:]))
        sys.exit(2)
    ham_res = None
    if getattr(cfg, "ham", False):
        from .props.common import enumerate_points
        from . import hamcheck
        ham_res, pts = enumerate_points(prop, tag + "-hamterms", "Hamiltonian", {"MaxN": "3"},
                                        ["Emit", "InRange", "Hermitian", "DriveLocal", "Counting"])
        hamcheck.load_terms(pts)
    mism, leaves, steps, compared, hookv = engine.replay_all(cfg, expect)
    cands = []
    seen_h = set()
    # results of switch_device(strict=False): TLC judges the real state against the new device
    sw_states = [(key, d) for pred, key, d in hookv if pred == "STATE.NonStrict"]
    hookv = [h for h in hookv if h[0] != "STATE.NonStrict"]
    if sw_states:
        traces = [{"init": d["state"], "steps": []} for _, d in sw_states]
        sres, sreports = engine.trace_check(cfg, traces, os.path.join(work, "switch_states"))
        if not sres.ok:
            print(f"MACHINERY-FAILURE: state validation failed on {tag}: {sres.errors[:3]}")
            print("\n".join(sres.tail[-30:]))
            sys.exit(2)
        for r in sreports:
            key, d = sw_states[r["t"] - 1]
            hookv.append(("C18.NonStrictWithinLimits", key,
                          {"clause": "result_outside_limits", "variant": d["variant"], "violated": sorted(r["v"])[0]}))
    for pred, key, detail in hookv:
        if (pred, key) in seen_h:
            continue
        seen_h.add((pred, key))
        pre = expect[key[:-1]][2] if len(key) > 1 and key[:-1] in expect else None
        outs_h = expect[key][0]
        # did an earlier call of this history fail after a partial mutation?  Then the state is no
        # longer the effect of the recorded calls (reported under C09.FailUnchanged) and the copy /
        # round-trip relations are consequences of that, not separate defects.
        detail = dict(detail)
        detail["after_partial_failure"] = any(
            key[:n] in expect and "C09.FailUnchanged" in expect[key[:n]][3] for n in range(2, len(key) + 1))
        if detail["after_partial_failure"] and pred.startswith(("C04.", "C18.")):
            continue
        if "template_out" in detail:
            outs_h = tuple(outs_h[:-1]) + (detail["template_out"],)
        cands.append((pred, key, outs_h, "hook", pre, detail))
    bad_prefix = set(tuple(m["h"]) for m in mism)
    # model-level violations on states where the implementation agrees with the model
    for key, ex in expect.items():
        outs, rets, st, v = ex[:4]
        if not v:
            continue
        if any(key[:n] in bad_prefix for n in range(2, len(key) + 1)):
            continue   # judged from the recorded trace instead
        pre = expect[key[:-1]][2] if len(key) > 1 and key[:-1] in expect else None
        feat = _change_features({"pre_state": pre, "real_state": st, "call": cfg.calls[key[-1] - 1]}) \
            if pre is not None and len(key) > 1 else {}
        for pred in v:
            if pred.startswith(tuple(preds)):
                cands.append((pred, key, outs, "model+replay", pre, feat))
    drift = 0
    tv_states = 0
    traces_checked = 0
    if mism:
        # every explored behaviour that extends a mismatching prefix is judged on real states
        keys = sorted(k for k in expect
                      if any(k[:n] in bad_prefix for n in range(2, len(k) + 1)))
        has_child = set(k[:-1] for k in keys)
        keys = [k for k in keys if k not in has_child][:MAX_TRACES]
        traces = [engine.record_trace(cfg, engine.dev_of(k), k) for k in keys]
        tres, reports = engine.trace_check(cfg, traces, os.path.join(work, "trace"))
        if not tres.ok:
            print(f"MACHINERY-FAILURE: trace validation failed on {tag}: {tres.errors[:3]}")
            print("\n".join(tres.tail[-30:]))
            sys.exit(2)
        tv_states = tres.distinct
        traces_checked = len(traces)
        seen = set()
        for r in reports:
            key = keys[r["t"] - 1][:r["l"] + 1]
            if r["drift"]:
                drift += 1
            for pred in r["v"]:
                if pred.startswith(tuple(preds)) and (pred, key) not in seen:
                    seen.add((pred, key))
                    tr = traces[r["t"] - 1]
                    outs = tuple(s["out"] for s in tr["steps"][:r["l"]])
                    pre = tr["steps"][r["l"] - 2]["post"] if r["l"] >= 2 else tr["init"]
                    feat = _change_features({"pre_state": pre, "real_state": tr["steps"][r["l"] - 1]["post"],
                                             "call": cfg.calls[key[-1] - 1]})
                    cands.append((pred, key, outs, "trace", pre, feat))
    res.tail = res.tail[-20:]
    if ham_res is not None:
        res.distinct += ham_res.distinct
        res.generated += ham_res.generated
    return {"tag": tag, "tlc": res, "expect": len(expect), "leaves": leaves, "steps": steps,
            "compared": compared, "mismatches": len(mism), "mismatch_samples": mism[:3],
            "drift_lines": drift, "traces_checked": traces_checked, "tv_states": tv_states,
            "all_cands": cands,
            "sample_keys": [k for k in list(expect)[:: max(1, len(expect) // 3)]][:3]}


class _Res:
    def __init__(self, distinct, generated, wall, cmd):
        self.distinct, self.generated, self.wall, self.cmd = distinct, generated, wall, cmd
        self.tail, self.errors, self.ok = [], [], True


REPO_TEST_FILES = ["tests/test_sequence.py", "tests/test_eom.py", "tests/test_dmm.py",
                   "tests/test_sequence_sampler.py", "tests/test_abstract_repr.py", "tests/test_json.py",
                   "tests/test_paramseq.py", "tests/pulser_simulation/test_simulation.py"]


class _RecCfg:
    """Stand-in for a configuration: recorded traces carry their own calls."""
    max_depth = 0
    calls = []


def run_recorded(prop, preds):
    """Code -> spec from an independent source: the repository's own tests run against the tree with
    the recorder of harness/record.py; TLC validates every recorded trace (strict conformance with
    the model + the declarative predicates on the real states).  Memoised on the tree digest."""
    import glob
    import pickle
    import subprocess
    from .env import REPO, VERIF
    tag = "repotests"
    cdir = os.path.join(WORK, "cache")
    os.makedirs(cdir, exist_ok=True)
    cpath = os.path.join(cdir, f"{tag}-{tree_digest(tag)}.pkl")
    if os.path.exists(cpath) and not os.environ.get("VERIF_NOCACHE"):
        with open(cpath, "rb") as fh:
            r = pickle.load(fh)
        r["cache_hit"] = True
    else:
        t0 = time.time()
        work = os.path.join(WORK, prop, "rec")
        shutil.rmtree(work, ignore_errors=True)
        os.makedirs(work, exist_ok=True)
        rep = os.path.join(work, "report")
        env = dict(os.environ)
        env.update({"VERIF_TRACE_REPORT": rep, "VERIF_TRACE_WORK": work, "MPLBACKEND": "Agg",
                    "PYTHONPATH": f"{VERIF}:{REPO}/pulser-core:{REPO}/pulser-simulation"})
        cmd = ["/venv/bin/python", "-m", "pytest", *REPO_TEST_FILES, "-q", "-p", "harness.pytest_recorder",
               "-p", "no:cacheprovider", "-n", "12", "-x", "--timeout=900"]
        pr = subprocess.run(cmd, cwd=REPO, env=env, capture_output=True, text=True)
        if not glob.glob(rep + ".*"):
            # nothing was recorded (worker start-up failure under load, ...): once more, fewer workers
            cmd[cmd.index("-n") + 1] = "4"
            pr = subprocess.run(cmd, cwd=REPO, env=env, capture_output=True, text=True)
        tail = pr.stdout.strip().split("\n")[-1] if pr.stdout else ""
        if not glob.glob(rep + ".*"):
            tail += " | " + " ".join((pr.stdout + pr.stderr).strip().split("\n")[-12:])[-900:]
        tot = {"traces": 0, "lines": 0, "tlc_states": 0, "sequences_seen": 0}
        reports, errors, samples, dead, ops = [], [], [], {}, {}
        for f in glob.glob(rep + ".*"):
            with open(f) as fh:
                d = json.load(fh)
            for k in tot:
                tot[k] += d["summary"][k]
            errors += d["summary"]["errors"]
            reports += d["reports"]
            samples += d["samples"]
            for k, v in d["summary"]["prefix_ended_by"].items():
                dead[k] = dead.get(k, 0) + v
            for k, v in d["summary"]["ops"].items():
                ops[k] = ops.get(k, 0) + v
        if errors or tot["traces"] == 0:
            print(f"MACHINERY-FAILURE: trace validation of the repository tests failed: {errors[:2]} {tail}")
            sys.exit(2)
        cands = _rec_candidates(reports)
        r = {"tag": tag, "tlc": _Res(tot["tlc_states"], tot["tlc_states"], time.time() - t0, " ".join(cmd)),
             "expect": 0, "leaves": 0, "steps": tot["lines"], "compared": tot["lines"], "mismatches": 0,
             "mismatch_samples": [], "drift_lines": sum(1 for x in reports if x["drift"]),
             "traces_checked": tot["traces"], "tv_states": tot["tlc_states"], "rec_cands": cands,
             "sample_keys": [], "rec_samples": samples[:3], "pytest": tail, "prefix_ended_by": dead, "ops": ops,
             "sequences_seen": tot["sequences_seen"], "cache_hit": False,
             "run_wall_s": round(time.time() - t0, 1)}
        with open(cpath + ".tmp", "wb") as fh:
            pickle.dump(r, fh)
        os.replace(cpath + ".tmp", cpath)
    r = dict(r)
    r["cands"] = []
    r["rec"] = [(p_, rr) for p_, rr in r["rec_cands"] if p_.startswith(tuple(preds))]
    return r


def _rec_candidates(reports):
    cands, seen = [], set()
    for r_ in reports:
        for pred in r_["v"]:
            sig_key = (pred, json.dumps(r_["call"], sort_keys=True), r_["out"], _chan_empty(r_))
            if sig_key in seen:
                continue
            seen.add(sig_key)
            cands.append((pred, r_))
    return cands


def _chan_empty(rr):
    """State feature of a recorded transition (same as `signature`): was the call's channel empty?"""
    c, pre = rr.get("call") or {}, rr.get("pre_state")
    if pre is not None and "nm" in c:
        for ch in pre.get("ch", []):
            if ch["nm"] == c["nm"]:
                return ch["du"] == 0
    return None


def _change_features(rr):
    """What a recorded transition changed: the top-level fields that differ and the kinds of the slots
    appended to the call's channel (so that a finding about one partial effect names exactly it)."""
    pre, post, c = rr.get("pre_state"), rr.get("real_state"), rr.get("call") or {}
    if not pre or not post:
        return {}
    f = {"changed": "+".join(sorted(k for k in post if post.get(k) != pre.get(k)))}
    if "nm" in c:
        a = [ch for ch in pre.get("ch", []) if ch["nm"] == c["nm"]]
        b = [ch for ch in post.get("ch", []) if ch["nm"] == c["nm"]]
        if a and b and b[0]["sl"][:len(a[0]["sl"])] == a[0]["sl"]:
            f["appended"] = "+".join(str(sl["k"]) for sl in b[0]["sl"][len(a[0]["sl"]):])
            f["eom_blocks_changed"] = a[0]["eb"] != b[0]["eb"]
    return f


RAND_SIZE = {"quick": (6, 25), "thorough": (48, 40)}     # (random devices, programs per device)


def run_random(prop, preds, tier):
    """Code -> spec with the randomized driver (harness/randdriver.py): long random programs on random
    devices, recorded on the tree and validated by TLC.  Own process (the recorder patches Sequence),
    memoised on the tree digest."""
    import pickle
    import subprocess
    from .env import REPO, VERIF
    nw, pw = RAND_SIZE[tier]
    tag = f"randprog-{nw}x{pw}"
    cdir = os.path.join(WORK, "cache")
    os.makedirs(cdir, exist_ok=True)
    cpath = os.path.join(cdir, f"{tag}-{tree_digest(tag)}.pkl")
    if os.path.exists(cpath) and not os.environ.get("VERIF_NOCACHE"):
        with open(cpath, "rb") as fh:
            r = pickle.load(fh)
        r["cache_hit"] = True
    else:
        t0 = time.time()
        work = os.path.join(WORK, prop, "randprog")
        shutil.rmtree(work, ignore_errors=True)
        os.makedirs(work, exist_ok=True)
        env = dict(os.environ)
        env.update({"MPLBACKEND": "Agg", "PYTHONPATH": f"{VERIF}:{REPO}/pulser-core:{REPO}/pulser-simulation"})
        # several processes, each with its own slice of the random devices
        nproc = 1 if tier == "quick" else 8
        procs = []
        for k in range(nproc):
            share = nw // nproc + (1 if k < nw % nproc else 0)
            if share == 0:
                continue
            out = os.path.join(work, f"report{k}.json")
            cmd = ["/venv/bin/python", "-m", "harness.randdriver", str(seed() * 1000 + k), str(share), str(pw), out]
            procs.append((subprocess.Popen(cmd, cwd=VERIF, env=env, stdout=subprocess.PIPE, stderr=subprocess.STDOUT,
                                           text=True), out, cmd))
        tot = {"traces": 0, "lines": 0, "tlc_states": 0, "sequences_seen": 0}
        reports, errors, samples, dead, ops = [], [], [], {}, {}
        for pr, out, cmd in procs:
            so, _ = pr.communicate()
            if pr.returncode != 0 or not os.path.exists(out):
                print(f"MACHINERY-FAILURE: random driver failed: {so[-1500:]}")
                sys.exit(2)
            with open(out) as fh:
                d = json.load(fh)
            for k in tot:
                tot[k] += d["summary"][k]
            errors += d["summary"]["errors"]
            reports += d["reports"]
            samples += d["samples"]
            for k, v in d["summary"]["prefix_ended_by"].items():
                dead[k] = dead.get(k, 0) + v
            for k, v in d["summary"]["ops"].items():
                ops[k] = ops.get(k, 0) + v
        if errors or tot["traces"] == 0:
            print(f"MACHINERY-FAILURE: trace validation of the random programs failed: {errors[:2]}")
            sys.exit(2)
        r = {"tag": tag, "tlc": _Res(tot["tlc_states"], tot["tlc_states"], time.time() - t0, " ".join(procs[0][2])),
             "expect": 0, "leaves": 0, "steps": tot["lines"], "compared": tot["lines"], "mismatches": 0,
             "mismatch_samples": [], "drift_lines": sum(1 for x in reports if x["drift"]),
             "traces_checked": tot["traces"], "tv_states": tot["tlc_states"], "rec_cands": _rec_candidates(reports),
             "sample_keys": [], "rec_samples": samples[:2], "pytest": f"{nw} random devices x {pw} programs",
             "prefix_ended_by": dead, "ops": ops, "sequences_seen": tot["sequences_seen"], "cache_hit": False,
             "run_wall_s": round(time.time() - t0, 1)}
        with open(cpath + ".tmp", "wb") as fh:
            pickle.dump(r, fh)
        os.replace(cpath + ".tmp", cpath)
    r = dict(r)
    r["cands"] = []
    r["rec"] = [(p_, rr) for p_, rr in r["rec_cands"] if p_.startswith(tuple(preds))]
    return r


def decide(prop, preds, runs, tier, t0, level_note=""):
    """Classify candidates, print verdict lines, write evidence, return exit code."""
    known = findings.load()
    viol, kf = [], {}
    for cfg, r in runs:
        for cand in r["cands"]:
            pred, key, outs, src, pre = cand[:5]
            sig = signature(pred, cfg, key, outs, pre)
            if len(cand) > 5 and isinstance(cand[5], dict):
                for k2, v2 in cand[5].items():
                    if isinstance(v2, (str, int, bool)) and k2 not in sig:
                        sig[k2] = v2
            e = findings.match(prop, sig, known)
            if e is not None:
                kf.setdefault(e["id"], [e, 0])[1] += 1
            else:
                viol.append((cfg, r["tag"], pred, key, outs, src, sig))
    rec_viol = []
    for cfg, r in runs:
        for pred, rr in r.get("rec", []):
            c = rr["call"] or {}
            sig = {"pred": pred, "out": rr["out"]}
            sig.update({k: v for k, v in c.items() if isinstance(v, (str, int, bool))})
            ce = _chan_empty(rr)
            if ce is not None:
                sig["chan_empty_before"] = ce
            sig.update(_change_features(rr))
            e = findings.match(prop, sig, known)
            if e is not None:
                kf.setdefault(e["id"], [e, 0])[1] += 1
            else:
                rec_viol.append((pred, rr, sig))
    for e, n in kf.values():
        print(f"KNOWN-FINDING: property={prop} {e['id']}: {e['description']} ({n} occurrences)")
    rc = 0
    shutil.rmtree(os.path.join(WORK, prop, "replay"), ignore_errors=True)
    if rec_viol:
        rc = 1
        os.makedirs(os.path.join(WORK, prop, "replay"), exist_ok=True)
        for n_, (pred, rr, sig) in enumerate(rec_viol[:8], 1):
            src_ = "randprog" if str(rr.get("origin", "")).startswith("randprog") else "repotests"
            path = os.path.join(WORK, prop, "replay", f"{src_}-{n_}.json")
            with open(path, "w") as fh:
                json.dump({"property": prop, "config": src_, "pred": pred, "origin": rr.get("origin"),
                           "history": rr.get("history"), "signature": sig}, fh, indent=1, default=str)
            print(f"VIOLATION property={prop} replay={path}")
            print(f"  {pred} in {rr.get('origin')} after {json.dumps(rr.get('history'), default=str)[:300]} [recorded]")
    if viol:
        rc = 1
        os.makedirs(os.path.join(WORK, prop, "replay"), exist_ok=True)
        seen = set()
        for cfg, tag, pred, key, outs, src, sig in sorted(viol, key=lambda v: len(v[3])):
            s = json.dumps(sig, sort_keys=True)
            if s in seen:
                continue
            seen.add(s)
            if len(seen) > 12:
                break
            path = os.path.join(WORK, prop, "replay", f"{tag}-{len(seen)}.json")
            with open(path, "w") as fh:
                json.dump({"property": prop, "config": tag, "pred": pred, "dev": engine.dev_of(key),
                           "history": list(engine.calls_of(key)),
                           "calls": describe(cfg, key), "outcomes": list(outs), "source": src,
                           "signature": sig}, fh, indent=1)
            print(f"VIOLATION property={prop} replay={path}")
            print(f"  {pred} after {json.dumps(describe(cfg, key))} -> {list(outs)} [{src}]")
    states = sum(r["tlc"].distinct for _, r in runs)
    trans = sum(r["tlc"].generated for _, r in runs)
    samples = []
    for cfg, r in runs:
        for k in r["sample_keys"]:
            samples.append({"config": r["tag"], "calls": describe(cfg, k)})
        for sm in r.get("rec_samples", []):
            samples.append({"config": r["tag"], **sm})
    cov = {
        "states": states, "transitions": trans,
        "traces_validated_against_impl": sum(r["leaves"] + r["traces_checked"] for _, r in runs),
        "samples": samples[:6],
        "exhaustive": True,
        "behaviours_replayed_on_impl": sum(r["leaves"] for _, r in runs),
        "impl_calls_executed": sum(r["steps"] for _, r in runs),
        "states_compared_with_impl": sum(r["compared"] for _, r in runs),
        "conformance_mismatches": sum(r["mismatches"] for _, r in runs),
        "drift_lines_judged_by_trace_validation": sum(r["drift_lines"] for _, r in runs),
        "recorded_traces_validated_by_tlc": sum(r["traces_checked"] for _, r in runs),
        "predicates": list(preds),
        "known_findings_hit": {e["id"]: n for e, n in kf.values()},
        "per_config": [{"config": r["tag"], "tlc_distinct": r["tlc"].distinct,
                        "tlc_generated": r["tlc"].generated, "tlc_s": round(r["tlc"].wall, 1),
                        "depth": cfg.max_depth, "calls_in_lattice": len(cfg.calls),
                        **({"pytest": r["pytest"], "sequences_recorded": r["sequences_seen"],
                            "recorded_lines_validated": r["steps"], "prefix_ended_by": r["prefix_ended_by"],
                            "recorded_ops": r["ops"]} if r["tag"] == "repotests" or r["tag"].startswith("randprog") else {}),
                        "leaves_replayed": r["leaves"], "mismatches": r["mismatches"],
                        "memoised_on_tree_digest": r.get("cache_hit", False),
                        "explore_replay_wall_s": r.get("run_wall_s"),
                        "mismatch_samples": r["mismatch_samples"]} for cfg, r in runs],
        "checker_cmd": runs[0][1]["tlc"].cmd if runs else "",
    }
    nm = sum(r["mismatches"] for _, r in runs)
    if nm and rc == 0:
        print(f"CONFORMANCE-DRIFT: {nm} behaviours differ from the mirrored model without "
              f"violating {prop} (judged on the real states by TLC); see evidence")
    evidence.write(prop, tier, seed(), "model_checking", cov, time.time() - t0, len(viol) + len(rec_viol),
                   assumptions=["fall times / EOM off-detunings are numeric oracles read from the tree"
                                " when the check starts (DESIGN 2.4)", level_note])
    return rc
