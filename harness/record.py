"""Code -> spec from independent executions: a recorder that wraps the public building API of
pulser.Sequence, logs every call (abstracted to the model's vocabulary) with the projection of the
real object after it, and turns the recorded traces into batches that TLC validates against
spec/PulserSeqTrace.tla (strict conformance with the mirrored model + the declarative predicates
on the real states).  Used with the repository's own test-suite run against the tree
(harness/pytest_recorder.py) and with random drivers."""
import functools
import math
import warnings

from .env import assert_tree

assert_tree()
import numpy as np  # noqa: E402
import pulser  # noqa: E402
from pulser.parametrized import Parametrized  # noqa: E402
from pulser.pulse import Pulse  # noqa: E402
from pulser.register.mappable_reg import MappableRegister  # noqa: E402
from pulser.sequence.sequence import Sequence  # noqa: E402
from pulser.waveforms import Waveform  # noqa: E402

from . import project as P  # noqa: E402
from .replay import classify  # noqa: E402

UNIT = 1e-6          # phase unit of recorded traces (rad)
PMOD = 6283185
TRACES = []          # finished or live Trace objects
CURRENT_ORIGIN = [None]
_depth = {"n": 0}


class Unsupported(Exception):
    pass


class SkipEvent(Exception):
    """A read-only call the model has no operation for: not logged (check_pre of the next call
    verifies that it did not change anything)."""


class Trace:
    def __init__(self, seq):
        self.seq = seq
        self.device = seq._device
        reg = seq._register
        if isinstance(reg, MappableRegister):
            raise Unsupported("mappable register")
        self.qids = list(reg.qubit_ids)
        if len(self.qids) > 12:
            raise Unsupported("more than 12 qubits")
        self.ids = list(self.device.channels.keys()) + list(self.device.dmm_channels.keys())
        self.names = {}
        self.pulses = []          # real Pulse objects (catalogue of this trace)
        self.setpoints = []       # (amp, det_on, optimal_off)
        self.calls = []           # abstract call records
        self.steps = []           # {"k", "out", "ret", "post"}
        self.dead = None          # reason the validated prefix ended
        self.origin = CURRENT_ORIGIN[0]
        self.ctx = P.Ctx(1, {"nq": len(self.qids), "ids": self.ids}, self.cid_of, self.nm_of, UNIT, PMOD,
                         self.sp_lookup)
        self.ctx.qids = self.qids
        self.init = P.project(seq, self.ctx)

    # ---- naming ------------------------------------------------------------------------
    def cid_of(self, real_id):
        return self.ids.index(real_id) + 1 if real_id in self.ids else 0

    def nm_of(self, name):
        if isinstance(name, str) and name.startswith("dmm_") and name.split("_")[1].isdigit():
            parts = name.split("_")
            base = "_".join(parts[:2])
            if base in self.device.dmm_channels:
                k = list(self.device.dmm_channels.keys()).index(base)
                return 100 + k + (10 * int(parts[2]) if len(parts) > 2 else 0)
        if name not in self.names:
            if len(self.names) >= 90:
                raise Unsupported("too many channel names")
            self.names[name] = len(self.names) + 1
        return self.names[name]

    def sp_lookup(self, cid, amp, don, doff):
        for k, (a, d, o) in enumerate(self.setpoints, 1):
            if P.qv(a) == P.qv(amp) and P.qv(d) == P.qv(don):
                return k
        return 0

    def mask(self, qubits):
        if isinstance(qubits, (str, int, np.integer)) or not hasattr(qubits, "__iter__"):
            qubits = [qubits]
        m = 0
        for q in qubits:
            if isinstance(q, Parametrized):
                raise Unsupported("parametrized target")
            if q in self.qids:
                m |= 1 << self.qids.index(q)
            else:
                m |= 1 << len(self.qids)          # an id that is not in the register
        return m

    def pulse_index(self, pulse):
        if not isinstance(pulse, Pulse):
            raise Unsupported("non-pulse or parametrized pulse")
        for k, p in enumerate(self.pulses, 1):
            if p is pulse:
                return k
        self.pulses.append(pulse)
        return len(self.pulses)

    def phq(self, x):
        if isinstance(x, Parametrized):
            raise Unsupported("parametrized phase")
        v = float(x)
        if not math.isfinite(v) or abs(v) > 1000:
            raise Unsupported("phase out of range")
        return int(round(v / UNIT))

    # ---- abstraction of one call -------------------------------------------------------
    def abstract(self, name, args, kwargs):
        import inspect
        sig = inspect.signature(getattr(Sequence, name))
        try:
            b = sig.bind(self.seq, *args, **kwargs)
        except TypeError:
            raise Unsupported("unbindable call")
        b.apply_defaults()
        a = dict(b.arguments)
        for v in a.values():
            if isinstance(v, Parametrized):
                raise Unsupported("parametrized argument")

        def chan(x):
            if not isinstance(x, str):
                raise Unsupported("non-string channel")
            return self.nm_of(x)
        if name == "declare_channel":
            it = a["initial_target"]
            cid = self.cid_of(a["channel_id"]) if a["channel_id"] in self.device.channels else 99
            return {"op": "declare", "nm": chan(a["name"]), "cid": cid, "it": 0 if it is None else self.mask(it)}
        if name == "target":
            return {"op": "target", "nm": chan(a["channel"]), "tg": self.mask(a["qubits"])}
        if name == "target_index":
            q = a["qubits"]
            q = [q] if isinstance(q, (int, np.integer)) else list(q)
            ids = [self.qids[int(i)] if 0 <= int(i) < len(self.qids) else "__bad__" for i in q]
            return {"op": "target", "nm": chan(a["channel"]), "tg": self.mask(ids), "idx": True}
        if name == "delay":
            d = a["duration"]
            if not isinstance(d, (int, np.integer)):
                raise Unsupported("non-int delay")
            return {"op": "delay", "nm": chan(a["channel"]), "d": int(d), "rest": bool(a["at_rest"])}
        if name == "add":
            return {"op": "add", "nm": chan(a["channel"]), "p": self.pulse_index(a["pulse"]),
                    "proto": str(a["protocol"])}
        if name == "estimate_added_delay":
            return {"op": "est", "nm": chan(a["channel"]), "p": self.pulse_index(a["pulse"]),
                    "proto": str(a["protocol"])}
        if name == "align":
            return {"op": "align", "nms": [chan(c) for c in a["channels"]], "rest": bool(a["at_rest"])}
        if name in ("phase_shift", "phase_shift_index"):
            tg = a["specific_targets"]
            if name == "phase_shift_index":
                tg = [self.qids[int(i)] if 0 <= int(i) < len(self.qids) else "__bad__" for i in tg]
            return {"op": "pshift", "phi": self.phq(a["phi"]), "tg": self.mask(tg) if tg else 0,
                    "basis": str(a["basis"]), "idx": name == "phase_shift_index"}
        if name == "measure":
            return {"op": "measure", "basis": str(a["basis"])}
        if name in ("enable_eom_mode", "modify_eom_setpoint"):
            sp = (float(a["amp_on"]), float(a["detuning_on"]), float(a["optimal_detuning_off"]))
            if sp not in self.setpoints:
                self.setpoints.append(sp)
            return {"op": "eom_on" if name == "enable_eom_mode" else "eom_mod", "nm": chan(a["channel"]),
                    "sp": self.setpoints.index(sp) + 1, "cpd": bool(a["correct_phase_drift"])}
        if name == "disable_eom_mode":
            return {"op": "eom_off", "nm": chan(a["channel"]), "cpd": bool(a["correct_phase_drift"])}
        if name == "add_eom_pulse":
            d = a["duration"]
            if not isinstance(d, (int, np.integer)):
                raise Unsupported("non-int duration")
            return {"op": "eom_add", "nm": chan(a["channel"]), "dur": int(d), "ph": self.phq(a["phase"]),
                    "pps": self.phq(a["post_phase_shift"]), "proto": str(a["protocol"]),
                    "cpd": bool(a["correct_phase_drift"])}
        if name == "get_duration":
            if a["channel"] is None or a["include_fall_time"]:
                raise SkipEvent()
            return {"op": "getdur", "nm": chan(a["channel"])}
        if name == "set_magnetic_field":
            z = float(np.linalg.norm((a["bx"], a["by"], a["bz"]))) == 0.0
            return {"op": "magfield", "zero": z}
        if name == "config_detuning_map":
            dm = a["detuning_map"]
            wm = dm.get_qubit_weight_map(self.seq.register.qubits)
            w2 = [2 * float(wm[q]) for q in self.qids]
            if any(abs(w - round(w)) > 1e-12 for w in w2):
                raise Unsupported("detuning-map weights that are not multiples of 1/2")
            cid = self.cid_of(a["dmm_id"]) if a["dmm_id"] in self.device.dmm_channels else 99
            w2 = [int(round(w)) for w in w2]
            mw = [2 * float(x) for x in dm.weights]
            if any(abs(w - round(w)) > 1e-12 for w in mw):
                raise Unsupported("detuning-map weights that are not multiples of 1/2")
            return {"op": "detmap", "mp": [int(round(max(mw))), int(round(sum(mw)))], "w2": w2, "cid": cid}
        if name == "config_slm_mask":
            cid = self.cid_of(a["dmm_id"]) if a["dmm_id"] in self.device.dmm_channels else 99
            tg = self.mask(list(a["qubits"]))
            if tg == 0:
                raise Unsupported("empty SLM mask")
            dch = self.device.dmm_channels.get(a["dmm_id"])
            if dch is not None:
                # two things the model states it does not cover (it would Assert): the automatic pulse of
                # a *modulated* mask DMM, and a total bottom detuning that does not divide exactly
                if dch.mod_bandwidth is not None:
                    raise Unsupported("SLM mask on a modulated DMM")
                n = bin(tg).count("1")
                tb = getattr(dch, "total_bottom_detuning", None)
                if tb is not None and int(round(float(tb) * 1e6)) % n != 0:
                    raise Unsupported("total bottom detuning not divisible by the number of masked atoms")
            return {"op": "slm", "tg": tg, "cid": cid}
        if name == "add_dmm_detuning":
            wf = a["waveform"]
            if not isinstance(wf, Waveform):
                raise Unsupported("parametrized waveform")
            return {"op": "dmm_add", "nm": chan(a["dmm_name"]),
                    "p": self.pulse_index(Pulse.ConstantAmplitude(0, wf, 0)), "proto": str(a["protocol"])}
        raise Unsupported(f"operation {name}")

    def check_pre(self):
        """Before a recorded call: the object must still be in the last logged state, otherwise
        something the recorder does not see (a private method, direct attribute access) changed
        it and the rest of the trace would mis-attribute that change to the next call."""
        if self.dead:
            return
        try:
            now = P.project(self.seq, self.ctx)
            last = self.steps[-1]["post"] if self.steps else self.init
            if now != last:
                self.dead = "unobserved mutation between recorded calls"
        except Exception as e:  # noqa: BLE001
            self.dead = f"projection failed: {type(e).__name__}: {e}"

    def log(self, name, args, kwargs, exc, ret):
        if self.dead:
            return
        try:
            if not self.seq._building:
                raise Unsupported("parametrized sequence")
            c = self.abstract(name, args, kwargs)
            out = "ok" if exc is None else classify(exc)
            self.calls.append(c)
            self.steps.append({"k": len(self.calls), "out": out,
                               "ret": int(ret) if isinstance(ret, (int, np.integer)) and exc is None else 0,
                               "post": P.project(self.seq, self.ctx)})
        except SkipEvent:
            pass
        except Unsupported as e:
            self.dead = str(e)
        except Exception as e:  # noqa: BLE001  (anything the projection cannot express ends the prefix)
            self.dead = f"projection failed: {type(e).__name__}: {e}"


RECORDED = ["declare_channel", "target", "target_index", "delay", "add", "estimate_added_delay", "align",
            "phase_shift", "phase_shift_index", "measure", "enable_eom_mode", "modify_eom_setpoint",
            "disable_eom_mode", "add_eom_pulse", "get_duration", "set_magnetic_field", "config_detuning_map",
            "config_slm_mask", "add_dmm_detuning"]
_installed = {"on": False}


def install(max_traces=100000):
    """Wrap Sequence.__init__ and the public building calls (outermost call only)."""
    if _installed["on"]:
        return
    _installed["on"] = True
    orig_init = Sequence.__init__

    @functools.wraps(orig_init)
    def init(self, *a, **k):
        orig_init(self, *a, **k)
        if _depth["n"] == 0 and len(TRACES) < max_traces:
            try:
                with warnings.catch_warnings():
                    warnings.simplefilter("ignore")
                    self.__dict__["_verif_trace"] = Trace(self)
                TRACES.append(self.__dict__["_verif_trace"])
            except Exception:  # noqa: BLE001
                pass
    Sequence.__init__ = init
    for name in RECORDED:
        orig = getattr(Sequence, name)

        def make(orig, name):
            @functools.wraps(orig)
            def wrapper(self, *a, **k):
                tr = self.__dict__.get("_verif_trace")
                if tr is None or _depth["n"] > 0:
                    return orig(self, *a, **k)
                _depth["n"] += 1
                exc = ret = None
                try:
                    with warnings.catch_warnings():
                        warnings.simplefilter("ignore")
                        tr.check_pre()
                except Exception:  # noqa: BLE001
                    pass
                try:
                    ret = orig(self, *a, **k)
                    return ret
                except Exception as e:  # noqa: BLE001
                    exc = e
                    raise
                finally:
                    _depth["n"] -= 1
                    try:
                        with warnings.catch_warnings():
                            warnings.simplefilter("ignore")
                            _depth["n"] += 1
                            tr.log(name, a, k, exc, ret)
                    finally:
                        _depth["n"] -= 1
            return wrapper
        setattr(Sequence, name, make(orig, name))
