"""C06 / C14(b): compare pulser.sampler.sample with the reference rendering computed by TLC
(spec/PulserRender.tla) at every nanosecond.  The samples of a pulse slot are taken from the
pulse object stored in the (already conformance-checked) slot of the real schedule."""
import numpy as np

from .env import assert_tree

assert_tree()
from pulser.sampler import sampler  # noqa: E402

from .devices import qid  # noqa: E402

ATOL = 1e-9


def _arr(x):
    return np.asarray(x.as_array(detach=True) if hasattr(x, "as_array") else x, dtype=float)


def check_render(seq, R, proj):
    """Returns a list of (pred, detail) violations for one state."""
    out = []
    names = list(seq._schedule.keys())
    scheds = [seq._schedule[n] for n in names]
    rids = list(seq.register.qubit_ids)      # position k <-> id rids[k - 1]
    try:
        samples = sampler.sample(seq)
    except Exception as e:  # noqa: BLE001
        return [("C06.ChannelSamples", {"clause": "sample_raises", "exc": repr(e)})]
    maxdur = max([r["len"] for r in R["ch"]] + [0])
    exp_ch = []
    for i, (r, cs_sched) in enumerate(zip(R["ch"], scheds)):
        cs = samples.samples_list[i]
        n = r["len"]
        amp, det = np.zeros(n), np.zeros(n)
        for (a, b, k, kph) in r["segs"]:
            if k:
                sl = cs_sched.slots[k - 1]
                off = a - sl.ti
                amp[a:b] = _arr(sl.type.amplitude.samples)[off:off + b - a]
                det[a:b] = _arr(sl.type.detuning.samples)[off:off + b - a]
        exp_ch.append((amp, det))
        got_a, got_d, got_p = _arr(cs.amp), _arr(cs.det), _arr(cs.phase)
        if len(got_a) != n or len(got_d) != n or len(got_p) != n:
            out.append(("C06.ChannelSamples", {"clause": "length", "ch": names[i], "expected": n,
                                               "got": [len(got_a), len(got_d), len(got_p)]}))
            continue
        for nm, g, e in (("amp", got_a, amp), ("det", got_d, det)):
            if not np.allclose(g, e, rtol=0, atol=ATOL):
                t = int(np.argmax(np.abs(g - e) > ATOL))
                out.append(("C06.ChannelSamples", {"clause": nm, "ch": names[i], "t": t,
                                                   "got": float(g[t]), "expected": float(e[t])}))
        for (a, b, k, kph) in r["segs"]:
            if kph:
                ph = float(cs_sched.slots[kph - 1].type.phase)
                if not np.allclose(got_p[a:b], ph, rtol=0, atol=ATOL):
                    out.append(("C06.Phase", {"clause": "pulse_phase", "ch": names[i], "seg": [a, b],
                                              "expected": ph, "got": float(got_p[a])}))
                    break
    # ---- extension only pads
    for ext in (maxdur + 1, maxdur + 7):
        try:
            s2 = sampler.sample(seq, extended_duration=ext)
        except Exception as e:  # noqa: BLE001
            out.append(("C06.Extend", {"clause": "raises", "ext": ext, "exc": repr(e)}))
            break
        for i, r in enumerate(R["ch"]):
            c2 = s2.samples_list[i]
            n = r["len"]
            a2, d2, p2 = _arr(c2.amp), _arr(c2.det), _arr(c2.phase)
            base = samples.samples_list[i]
            okk = (len(a2) == ext and np.allclose(a2[:n], exp_ch[i][0], atol=ATOL)
                   and np.allclose(d2[:n], exp_ch[i][1], atol=ATOL)
                   and np.all(a2[n:] == 0)
                   and np.allclose(d2[n:], r["padDet"] / 1e6, rtol=0, atol=1e-6)
                   and np.allclose(p2[:n], _arr(base.phase), atol=ATOL)
                   and np.allclose(p2[n:], _arr(base.phase)[-1] if n > 0 else 0.0, atol=ATOL))
            if not okk:
                out.append(("C06.Extend", {"clause": "padding", "ch": names[i], "ext": ext, "len": n,
                                           "padDet": r["padDet"] / 1e6,
                                           "got_det_tail": [float(x) for x in d2[n:n + 2]],
                                           "got_amp_tail": [float(x) for x in a2[n:n + 2]]}))
                break
    # ---- per-atom view
    for all_local, key in ((False, "glob"), (True, "loc")):
        try:
            nd = samples.to_nested_dict(all_local=all_local)
        except Exception as e:  # noqa: BLE001
            out.append(("C06.NestedDict", {"clause": "raises", "all_local": all_local, "exc": repr(e)}))
            continue
        exp = {}
        for (bucket, basis, q, i, k, a, b, w2) in R[key]:
            sl = scheds[i - 1].slots[k - 1]
            off = a - sl.ti
            e = exp.setdefault((bucket, basis, q), [np.zeros(maxdur), np.zeros(maxdur)])
            e[0][a:b] += _arr(sl.type.amplitude.samples)[off:off + b - a]
            e[1][a:b] += _arr(sl.type.detuning.samples)[off:off + b - a] * (w2 / 2)
        got = {}
        for basis, d in nd.get("Global", {}).items():
            got[("G", basis, 0)] = [np.asarray(d["amp"], float), np.asarray(d["det"], float)]
        for basis, dq in nd.get("Local", {}).items():
            for qq, d in dq.items():
                got[("L", basis, rids.index(qq) + 1)] = [np.asarray(d["amp"], float), np.asarray(d["det"], float)]
        bad = None
        # don't-care band: a channel still in EOM mode that is shorter than the longest one is
        # padded with its off-detuning; whether that padding belongs to the per-atom view is not
        # said by the statement (the global bucket gets it, the per-target view does not)
        dc = {}
        for i, r in enumerate(R["ch"]):
            if r["padDet"] != 0 and r["len"] < maxdur:
                b = scheds[i].channel_obj.basis
                dc[b] = min(dc.get(b, maxdur), r["len"])
        for kk in set(exp) | set(got):
            e = exp.get(kk, [np.zeros(maxdur), np.zeros(maxdur)])
            g = got.get(kk, [np.zeros(maxdur), np.zeros(maxdur)])
            for j, nm in enumerate(("amp", "det")):
                if nm == "det" and kk[1] in dc and len(g[j]) == maxdur:
                    g[j] = g[j].copy()
                    g[j][dc[kk[1]]:] = e[j][dc[kk[1]]:]
                if len(g[j]) != maxdur or not np.allclose(g[j], e[j], rtol=0, atol=ATOL):
                    t = int(np.argmax(np.abs(g[j] - e[j]) > ATOL)) if len(g[j]) == maxdur else -1
                    bad = {"clause": nm, "all_local": all_local, "bucket": kk[0], "basis": kk[1],
                           "atom": kk[2], "t": t,
                           "got": float(g[j][t]) if t >= 0 else None,
                           "expected": float(e[j][t]) if t >= 0 else None}
                    break
            if bad:
                break
        if bad:
            out.append(("C06.NestedDict", bad))
        # ---- phase of the per-atom view: while a pulse of non-zero amplitude plays, its bucket carries the
        # phase of that pulse.  Compared wherever no OTHER channel contributes a non-zero phase to the bucket
        # (the implementation sums the phase arrays of all contributing channels: recorded under C05).
        if not bad:
            chphase = []
            for j in range(len(scheds)):
                pj = _arr(samples.samples_list[j].phase)
                if len(pj) < maxdur:
                    pj = np.concatenate([pj, np.full(maxdur - len(pj), pj[-1] if len(pj) else 0.0)])
                chphase.append(pj)
            contrib = {}
            for (bucket, basis, q, i, k, a, b, w2) in R[key]:
                contrib.setdefault((bucket, basis, q), []).append((i, k, a, b))
            gotp = {}
            for basis, d in nd.get("Global", {}).items():
                gotp[("G", basis, 0)] = np.asarray(d["phase"], float)
            for basis, dq in nd.get("Local", {}).items():
                for qq, d in dq.items():
                    gotp[("L", basis, rids.index(qq) + 1)] = np.asarray(d["phase"], float)
            pbad = None
            for kk, lst in contrib.items():
                g = gotp.get(kk)
                if g is None or len(g) != maxdur:
                    continue
                for (i, k, a, b) in lst:
                    sl = scheds[i - 1].slots[k - 1]
                    obj = scheds[i - 1].channel_obj
                    if type(obj).__name__ == "DMM" or not np.any(_arr(sl.type.amplitude.samples) != 0):
                        continue
                    # any other channel of the basis whose (held) phase is non-zero there may be summed in
                    other = np.zeros(b - a)
                    for j, sc in enumerate(scheds):
                        oj = sc.channel_obj
                        if j != i - 1 and oj.basis == kk[1] and type(oj).__name__ != "DMM":
                            other += np.abs(chphase[j][a:b])
                    free = other == 0
                    ph = float(sl.type.phase)
                    if np.any(free) and not np.allclose(g[a:b][free], ph, rtol=0, atol=1e-9):
                        t = a + int(np.argmax(free & (np.abs(g[a:b] - ph) > 1e-9)))
                        pbad = {"clause": "phase", "all_local": all_local, "bucket": kk[0], "basis": kk[1],
                                "atom": kk[2], "t": t, "got": float(g[t]), "expected": ph}
                        break
                if pbad:
                    break
            if pbad:
                out.append(("C06.NestedDict", pbad))
    out += check_modsampling(seq, proj)
    return out


def decl_dur_fall(ch):
    """Declarative duration with fall time of a projected channel: end of the last instruction, or
    end of the last pulse-typed slot plus its fall time (current mode) if later."""
    du = ch["sl"][-1]["tf"] if ch["sl"] else 0
    in_eom = bool(ch["eb"]) and ch["eb"][-1]["tf"] == -1
    ps = [s_ for s_ in ch["sl"] if s_["k"] == "p"]
    if not ps:
        return du
    last = ps[-1]
    return max(du, last["tf"] + (last["fe"] if in_eom else last["fs"]))


def check_modsampling(seq, proj):
    """C14(b) / C15 on one real state (needs no reference from the model)."""
    out = []
    names = list(seq._schedule.keys())
    scheds = [seq._schedule[n] for n in names]
    # ---- C14(b): modulated sampling succeeds whenever plain sampling does, ends at duration + fall
    try:
        sm = sampler.sample(seq, modulation=True)
        for i, ch in enumerate(proj["ch"]):
            got = len(_arr(sm.samples_list[i].amp))
            if len(_arr(sm.samples_list[i].det)) != got or len(_arr(sm.samples_list[i].phase)) != got:
                got = -1
            want = decl_dur_fall(ch)
            # which fall time a pulse next to an EOM block has (the channel's or the EOM's) is the reading left
            # open in DESIGN 12.2: on a channel that has used the EOM any length between the two is accepted
            lo = hi = want
            ps_ = [s_ for s_ in ch["sl"] if s_["k"] == "p"]
            if ch["eb"] and ps_:
                du_ = ch["sl"][-1]["tf"]
                lo = max(du_, ps_[-1]["tf"] + min(ps_[-1]["fs"], ps_[-1]["fe"]))
                hi = max(du_, ps_[-1]["tf"] + max(ps_[-1]["fs"], ps_[-1]["fe"]))
            if not (lo <= got <= hi):
                out.append(("C14.ModSampling", {"clause": "length", "ch": names[i], "expected": want,
                                                "got": got, "plain_len": ch["du"]}))
                break
        # C15: the detuning between pulses is the off-detuning, also at the output: a channel that
        # is in EOM mode from t = 0 and idles for at least two EOM rise times idles at the
        # off-detuning of ITS FIRST block at t = 0
        for i, ch in enumerate(proj["ch"]):
            cobj = scheds[i].channel_obj
            if not ch["eb"] or ch["eb"][0]["ti"] != 0 or ch["du"] == 0 or not cobj.supports_eom():
                continue
            er = int(cobj.eom_config.rise_time)
            first_real = min([s["ti"] for s in ch["sl"] if s["k"] == "p" and not s["dd"]] + [10 ** 9])
            first_block_end = ch["eb"][0]["tf"] if ch["eb"][0]["tf"] != -1 else ch["du"]
            if first_real < 2 * er or first_block_end < 2 * er or ch["du"] < 2 * er:
                continue
            doff = ch["eb"][0]["doff"] / 1e6
            got0 = float(_arr(sm.samples_list[i].det)[0])
            if abs(got0 - doff) > 0.02 * abs(doff) + 1e-6:
                out.append(("C15.ModulatedIdleDetuning", {"clause": "t0", "ch": names[i], "expected": doff,
                                                          "got": got0, "blocks": len(ch["eb"])}))
    except Exception as e:  # noqa: BLE001
        empty = any(ch["du"] == 0 for ch in proj["ch"])
        out.append(("C14.ModSampling", {"clause": "raises", "exc": type(e).__name__,
                                        "has_empty_channel": empty, "msg": str(e)[:120]}))
    return out
