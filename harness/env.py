"""Environment guard: the implementation under test must be the working tree in /repo."""
import os
import sys

# no native thread pools (see ./check): must be set before numpy / scipy are imported
for _v in ("DUCC0_NUM_THREADS", "OPENBLAS_NUM_THREADS", "OMP_NUM_THREADS", "MKL_NUM_THREADS"):
    os.environ.setdefault(_v, "1")
REPO = os.environ.get("VERIF_REPO", "/repo")
VERIF = os.path.dirname(os.path.dirname(os.path.abspath(__file__)))
# scratch space; a run against another tree (VERIF_REPO) gets its own, so that it cannot disturb a run against /repo
OTHER_TREE = os.path.realpath(REPO) != "/repo"
WORK = os.path.join(VERIF, ".work") if not OTHER_TREE else \
    os.path.join(VERIF, ".work", "other-tree", os.path.realpath(REPO).strip("/").replace("/", "_"))


def setup_paths():
    for p in (os.path.join(REPO, "pulser-simulation"), os.path.join(REPO, "pulser-core")):
        if p in sys.path:
            sys.path.remove(p)
        sys.path.insert(0, p)
    os.environ.setdefault("MPLBACKEND", "Agg")


def assert_tree():
    """Exit 2 (machinery failure) unless pulser is imported from the working tree."""
    setup_paths()
    import warnings
    warnings.filterwarnings("ignore")
    import pulser
    if not os.path.abspath(pulser.__file__).startswith(os.path.abspath(REPO) + os.sep):
        print(f"MACHINERY-FAILURE: pulser imported from {pulser.__file__}, not {REPO}")
        sys.exit(2)
    return pulser


def seed():
    try:
        return int(os.environ.get("VERIF_SEED", "0"))
    except ValueError:
        return 0
