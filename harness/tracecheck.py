"""Batches of recorded traces (harness/record.py) -> TLC trace validation."""
import json
import os

from .env import assert_tree

assert_tree()
from . import record as R  # noqa: E402
from .configs import Config  # noqa: E402
from . import engine  # noqa: E402


class TraceConfig(Config):
    """Constants of the model for a group of recorded traces: the real devices themselves, the
    pulses that were actually used, the calls that were actually made."""

    def __init__(self, name, entries, pulses, calls, setpoints, cf_max):
        # entries: list of (device, nq, ids)
        self.name = name
        self.devs = [{"nq": nq, "ids": ids} for (_, nq, ids) in entries]
        self.real_devices = [d for (d, _, _) in entries]
        self.real_pulses = pulses
        self.calls = calls
        self.init_calls = []
        self.max_depth = 0
        self.phase_unit = R.UNIT
        self.phase_mod = R.PMOD
        self.ptol = 50
        self.setpoints = list(setpoints)
        self.cf_max = cf_max


def group_traces(traces, max_group=60):
    """Yield (TraceConfig, [trace json]) groups; pulses / calls are compacted per group."""
    live = [t for t in traces if t.steps]
    live.sort(key=lambda t: (id(t.device), len(t.qids)))
    for i in range(0, len(live), max_group):
        grp = live[i:i + max_group]
        entries, eidx = [], {}
        pulses, calls, out = [], [], []
        setpoints = []
        pseen = {}
        maxdur = 0
        for t in grp:
            key = (id(t.device), len(t.qids))
            if key not in eidx:
                entries.append((t.device, len(t.qids), t.ids))
                eidx[key] = len(entries)
            d = eidx[key]
            pmap = {}
            for k, p in enumerate(t.pulses, 1):
                if id(p) not in pseen:         # the same Pulse object used by several traces of the group
                    pulses.append(p)
                    pseen[id(p)] = len(pulses)
                pmap[k] = pseen[id(p)]
            spmap = {}
            for k, sp in enumerate(t.setpoints, 1):
                if sp not in setpoints:
                    setpoints.append(sp)
                spmap[k] = setpoints.index(sp) + 1
            cmap = {}
            for k, c in enumerate(t.calls, 1):
                c2 = dict(c)
                if "p" in c2:
                    c2["p"] = pmap[c2["p"]]
                if "sp" in c2:
                    c2["sp"] = spmap[c2["sp"]]
                calls.append(c2)
                cmap[k] = len(calls)

            def fix(st):
                st = dict(st)
                st["dev"] = d
                chs = []
                for ch in st["ch"]:
                    ch = dict(ch)
                    ch["eb"] = [{**b, "sp": spmap.get(b["sp"], 0)} for b in ch["eb"]]
                    chs.append(ch)
                    for sl in ch["sl"]:
                        maxdur = max(0, sl["tf"] - sl["ti"])
                        nonlocal_max[0] = max(nonlocal_max[0], maxdur)
                st["ch"] = chs
                return st
            nonlocal_max = [maxdur]
            steps = [{"k": cmap[s["k"]], "out": s["out"], "ret": s["ret"], "post": fix(s["post"])} for s in t.steps]
            out.append({"init": fix(t.init), "steps": steps})
            maxdur = max(maxdur, nonlocal_max[0])
        min_clock = min(int(ch.clock_period) for (dv, _, _) in entries
                        for ch in list(dv.channels.values()) + list(dv.dmm_channels.values()))
        cf_max = min(1500, maxdur // max(1, min_clock) + 2) if setpoints else 1
        cfg = TraceConfig(f"traces{i}", entries, pulses, calls, setpoints, cf_max)
        yield cfg, out, grp


def validate(traces, workdir, max_group=60):
    """Returns (summary dict, list of reports {trace, line, drift, v, call})."""
    reports = []
    n_lines = n_traces = tlc_states = 0
    errors = []
    for gi, (cfg, tj, grp) in enumerate(group_traces(traces, max_group)):
        res, rep = engine.trace_check(cfg, tj, os.path.join(workdir, f"g{gi}"))
        if not res.ok:
            errors.append((gi, res.errors[:2], res.tail[-12:]))
            continue
        tlc_states += res.distinct
        n_traces += len(tj)
        n_lines += sum(len(t["steps"]) for t in tj)
        for r in rep:
            t = grp[r["t"] - 1]
            call = t.calls[t.steps[r["l"] - 1]["k"] - 1] if r["l"] >= 1 else None
            reports.append({"group": gi, "trace": r["t"], "line": r["l"], "drift": r["drift"], "v": r["v"],
                            "call": call, "out": t.steps[r["l"] - 1]["out"] if r["l"] >= 1 else None,
                            "origin": getattr(t, "origin", None), "model_out": r.get("mo"),
                            "model_state": r.get("ms"),
                            "pre_state": (t.steps[r["l"] - 2]["post"] if r["l"] >= 2 else t.init) if r["l"] >= 1 else None,
                            "real_state": t.steps[r["l"] - 1]["post"] if r["l"] >= 1 else None,
                            "history": [(t.calls[s["k"] - 1], s["out"]) for s in t.steps[:r["l"]]]})
    return {"traces": n_traces, "lines": n_lines, "tlc_states": tlc_states, "errors": errors}, reports
