"""Execute calls of the model's vocabulary on a real pulser.Sequence."""
import warnings

from .env import assert_tree

assert_tree()
import pulser  # noqa: E402
from pulser import Sequence  # noqa: E402

from . import devices as D  # noqa: E402

ERR = {ValueError: "VE", TypeError: "TE", RuntimeError: "RE", IndexError: "IE",
       NotImplementedError: "NIE"}


def classify(exc):
    for t, code in ERR.items():
        if type(exc) is t:
            return code
    for t, code in ERR.items():
        if isinstance(exc, t):
            return code
    return "EX:" + type(exc).__name__


def chname(nm):
    return f"ch{nm}"


def nm_of(name):
    if name.startswith("ch"):
        return int(name[2:])
    if name.startswith("dmm_"):
        parts = name.split("_")
        return 100 + int(parts[1]) + (10 * int(parts[2]) if len(parts) > 2 else 0)
    raise ValueError(name)


def name_of(nm):
    if nm >= 100:
        k, j = (nm - 100) % 10, (nm - 100) // 10
        return f"dmm_{k}" + (f"_{j}" if j else "")
    return chname(nm)


def ids_of(mask):
    return D.mask_to_ids(mask)


class Runner:
    """One real Sequence driven by calls of a configuration."""

    def __init__(self, cfg, dev_index):
        self.cfg = cfg
        self.dev_index = dev_index
        self.dev = cfg.devs[dev_index - 1]
        self.device = cfg.real_devices[dev_index - 1]
        if getattr(cfg, "mappings", None):
            from pulser.register.mappable_reg import MappableRegister
            from pulser.register.register_layout import RegisterLayout
            self.layout = RegisterLayout([[6.0 * k, 0.0] for k in range(2 * self.dev["nq"] + 2)])
            reg = MappableRegister(self.layout, *[D.qid(k) for k in range(1, self.dev["nq"] + 1)])
        else:
            reg = D.make_register(self.dev["nq"], ids=D.reg_ids(self.dev))
        self.ids = D.reg_ids(self.dev)
        self.seq = Sequence(reg, self.device)
        self.V = None
        if getattr(cfg, "variables", None):
            self.V = {}
            for (name, dtype, size) in cfg.variables:
                self.V[name] = (self.seq.declare_variable(name, dtype=dtype) if size is None
                                else self.seq.declare_variable(name, dtype=dtype, size=size))

    def ids_of(self, mask):
        # bits beyond the register keep naming ids that are not in it
        return [self.ids[k - 1] if k <= len(self.ids) else D.qid(k) for k in range(1, 9) if (mask >> (k - 1)) & 1]

    def call(self, c):
        """Returns (out, ret)."""
        seq, cfg = self.seq, self.cfg
        ids_of = self.ids_of
        u = cfg.phase_unit
        op = c["op"]
        pv = None
        if c.get("par"):
            # the variable-dependent argument of a parametrized call, built from this
            # sequence's own Variable objects
            pv = cfg.par_real[c["pk"]](self.V)
        try:
            with warnings.catch_warnings():
                warnings.simplefilter("ignore")
                ret = 0
                if op == "declare":
                    it = ids_of(c["it"]) if c["it"] else None
                    if it is not None and len(it) == 1:
                        it = it[0]
                    seq.declare_channel(name_of(c["nm"]), D.real_id(self.dev, c["cid"])
                                        if 1 <= c["cid"] <= len(self.dev["chs"]) else "nochan",
                                        initial_target=it)
                elif op == "target":
                    ids = ids_of(c["tg"])
                    if pv is None:
                        seq.target(ids[0] if len(ids) == 1 else ids, name_of(c["nm"]))
                    else:
                        seq.target_index(pv, name_of(c["nm"]))
                elif op == "delay":
                    seq.delay(c["d"] if pv is None else pv, name_of(c["nm"]), at_rest=c["rest"])
                elif op == "add":
                    seq.add(cfg.real_pulses[c["p"] - 1] if pv is None else pv, name_of(c["nm"]), c["proto"])
                elif op == "est":
                    ret = int(seq.estimate_added_delay(cfg.real_pulses[c["p"] - 1],
                                                       name_of(c["nm"]), c["proto"]))
                elif op == "align":
                    seq.align(*[name_of(n) for n in c["nms"]], at_rest=c["rest"])
                elif op == "pshift":
                    seq.phase_shift(c["phi"] * u if pv is None else pv, *ids_of(c["tg"]), basis=c["basis"])
                elif op == "measure":
                    seq.measure(c["basis"])
                elif op == "eom_on" or op == "eom_mod":
                    amp, don, opt = cfg.setpoints[c["sp"] - 1]
                    f = seq.enable_eom_mode if op == "eom_on" else seq.modify_eom_setpoint
                    f(name_of(c["nm"]), amp_on=amp, detuning_on=don, optimal_detuning_off=opt,
                      correct_phase_drift=c["cpd"])
                elif op == "eom_off":
                    seq.disable_eom_mode(name_of(c["nm"]), correct_phase_drift=c["cpd"])
                elif op == "eom_add":
                    seq.add_eom_pulse(name_of(c["nm"]), c["dur"] if pv is None else pv, c["ph"] * u,
                                      post_phase_shift=c["pps"] * u, protocol=c["proto"],
                                      correct_phase_drift=c["cpd"])
                elif op == "getdur":
                    ret = int(seq.get_duration(name_of(c["nm"])))
                elif op == "detmap":
                    reg = seq.register
                    dmap = reg.define_detuning_map({self.ids[k]: w / 2 for k, w in enumerate(c["w2"])})
                    seq.config_detuning_map(dmap, D.real_id(self.dev, c["cid"])
                                            if 1 <= c["cid"] <= len(self.dev["chs"]) else "dmm_9")
                elif op == "slm":
                    seq.config_slm_mask(ids_of(c["tg"]), D.real_id(self.dev, c["cid"])
                                        if 1 <= c["cid"] <= len(self.dev["chs"]) else "dmm_9")
                elif op == "dmm_add":
                    seq.add_dmm_detuning(cfg.real_pulses[c["p"] - 1].detuning, name_of(c["nm"]), c["proto"])
                elif op == "magfield":
                    seq.set_magnetic_field(*((0.0, 0.0, 0.0) if c["zero"]
                                             else [(0.0, 0.0, 30.0), (1.0, 2.0, 0.5), (30.0, 0.0, 0.0)][c.get("b", 0)]))
                else:
                    raise AssertionError(f"unknown op {op}")
            return "ok", ret
        except AssertionError:
            raise
        except Exception as e:  # noqa: BLE001
            return classify(e), 0
