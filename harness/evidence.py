"""Evidence files (schema /root/.vp/EVIDENCE.schema.json)."""
import json
import os

from .env import VERIF


def write(prop, tier, seed, level, coverage, wall, violations, assumptions=()):
    os.makedirs(os.path.join(VERIF, "evidence"), exist_ok=True)
    doc = {"property_id": prop, "tier": tier, "seed": int(seed), "level": level,
           "coverage": coverage, "assumptions": list(assumptions), "wall_s": round(float(wall), 2),
           "violations": int(violations)}
    path = os.path.join(VERIF, "evidence", f"{prop}.json")
    with open(path + ".tmp", "w") as fh:
        json.dump(doc, fh, indent=1, default=str)
    os.replace(path + ".tmp", path)
    return path
