"""Evidence files (schema /root/.vp/EVIDENCE.schema.json)."""
import json
import os

from .env import OTHER_TREE, VERIF, WORK


def write(prop, tier, seed, level, coverage, wall, violations, assumptions=()):
    # evidence/ describes runs against /repo itself; runs against another tree (VERIF_REPO) go elsewhere
    edir = os.path.join(WORK, "evidence") if OTHER_TREE else os.path.join(VERIF, "evidence")
    os.makedirs(edir, exist_ok=True)
    doc = {"property_id": prop, "tier": tier, "seed": int(seed), "level": level,
           "coverage": coverage, "assumptions": list(assumptions), "wall_s": round(float(wall), 2),
           "violations": int(violations)}
    path = os.path.join(edir, f"{prop}.json")
    with open(path + ".tmp", "w") as fh:
        json.dump(doc, fh, indent=1, default=str)
    os.replace(path + ".tmp", path)
    return path
