"""C08: build() of a parametrized sequence against direct construction (implementation vs
implementation) and against the model's BuildResult (conformance), for every assignment of the
configuration; the template must not change; repeated builds are independent."""
import warnings

from .env import assert_tree

assert_tree()
from . import project as P  # noqa: E402
from .replay import Runner, classify  # noqa: E402

SKIP = ("lg", "tb", "bld", "pm")
_probe_done = {"x": False}


def _strip(p):
    """What "the same sequence" compares: everything but the call logs; channels by name (build()
    declares all channels first, so the ORDER of the channel table may differ from the order of a
    direct construction in which a declaration comes after other operations)."""
    q = {k: v for k, v in p.items() if k not in SKIP}
    q["ch"] = sorted(q["ch"], key=lambda c: c["nm"])
    q["rf"] = sorted(q["rf"], key=lambda r: r["b"])      # order of first use of a basis likewise
    return q


def _build(seq, assign):
    try:
        with warnings.catch_warnings():
            warnings.simplefilter("ignore")
            return "ok", seq.build(**assign)
    except Exception as e:  # noqa: BLE001
        return classify(e), None


def check_build(cfg, run, ctx, key, e, proj_template):
    """key: history key of the template state; e: expect tuple (outs, rets, s, v, r, b, modes)."""
    out = []
    calls = [cfg.calls[k - 1] for k in key[1:]]
    outs, modes, B = e[0], e[6], e[5]
    seq = run.seq
    built_first = {}
    n_as = len(cfg.assignments)
    # a1, then the assignment nearly equal to a1 (if any), the others, a1 again
    order = [0] + ([n_as - 1] if n_as >= 4 else []) + list(range(1, n_as - 1 if n_as >= 4 else n_as)) + [0]
    for n, a in enumerate(order):
        assign = cfg.assignments[a]
        res, built = _build(seq, dict(assign))
        # --- direct construction with the evaluated values: the successful calls, in order
        d = Runner(cfg, run.dev_index)
        d.V = None
        dres = "ok"
        for k in cfg.init_calls:
            d.call(cfg.calls[k - 1])
        for c, o, m in zip(calls, outs, modes):
            if o != "ok" or m == "N":
                continue
            cc = c["alt"][a] if c.get("par") else c
            r, _ = d.call(cc)
            if r != "ok":
                dres = r
                break
        if dres == "ok":
            if res != "ok":
                out.append(("C08.BuildEqualsDirect", {"clause": "build_raises", "assignment": a, "build": res}))
                continue
            pb, pd = P.project(built, ctx), P.project(d.seq, ctx)
            why = P.diff(_strip(pb), _strip(pd), cfg.ptol, cfg.phase_mod, "built")
            if why:
                out.append(("C08.BuildEqualsDirect", {"clause": "differs", "assignment": a, "why": why[:200]}))
        # --- model conformance (reported as drift by the caller's machinery if it differs)
        if res == "ok" and B is not None and B[a]["out"] == "ok":
            pb = P.project(built, ctx)
            why = P.diff(_strip(pb), _strip(B[a]["st"]), cfg.ptol, cfg.phase_mod, "built")
            if why:
                out.append(("DRIFT.Build", {"clause": "model_differs", "assignment": a, "why": why[:200]}))
        elif B is not None and (res == "ok") != (B[a]["out"] == "ok"):
            out.append(("DRIFT.Build", {"clause": "model_outcome", "assignment": a, "build": res,
                                        "model": B[a]["out"]}))
        # --- independence of repeated builds
        if res == "ok":
            pb = _strip(P.project(built, ctx))
            if a in built_first:
                why = P.diff(pb, built_first[a], cfg.ptol, cfg.phase_mod, "rebuilt")
                if why:
                    out.append(("C08.BuildsIndependent", {"clause": "rebuild_differs", "assignment": a,
                                                          "why": why[:200]}))
            else:
                built_first[a] = pb
    # --- a stored-type call that the parametrized sequence refuses although direct construction of
    #     the same program (first assignment) accepts it
    if calls and outs[-1] != "ok" and calls[-1]["op"] not in ("declare", "magfield", "getdur", "est") \
            and not proj_template["bld"]:
        d = Runner(cfg, run.dev_index)
        d.V = None
        okd = True
        for k in cfg.init_calls:
            d.call(cfg.calls[k - 1])
        for c, o, m in zip(calls[:-1], outs[:-1], modes[:-1]):
            if o != "ok" or m == "N":
                continue
            r, _ = d.call(c["alt"][0] if c.get("par") else c)
            if r != "ok":
                okd = False
                break
        if okd:
            last = calls[-1]
            r, _ = d.call(last["alt"][0] if last.get("par") else last)
            if r == "ok":
                out.append(("C08.TemplateAcceptsDirectProgram",
                            {"clause": "template_refuses", "template_out": outs[-1], "op": last["op"]}))
    # --- the template is unchanged by building
    after = P.project(seq, ctx)
    why = P.diff(after, proj_template, cfg.ptol, cfg.phase_mod, "template")
    if why:
        out.append(("C08.TemplateUnchanged", {"clause": "template_changed", "why": why[:200]}))
    return out


def check_mappable(cfg, run, ctx, key, e, proj_template):
    """C08, mappable registers: build(qubits=mapping) puts exactly the requested qubits on the
    requested traps, in declared order, equals the direct construction on that concrete register,
    and leaves the template (including the set of ids it knows) unchanged."""
    import numpy as np
    import pulser
    from pulser import Sequence
    out = []
    calls = [cfg.calls[k - 1] for k in key[1:]]
    outs = e[0]
    seq = run.seq
    qids_before = sorted(seq._qids)
    declared = list(seq.get_register(include_mappable=True).qubit_ids)
    # the same program as a PARAMETRIZED mappable template: a variable phase shift (assigned 0, which shifts
    # nothing) right after the declarations makes every later call a stored call that build() replays
    ptw = None
    try:
        from pulser.register.mappable_reg import MappableRegister as _MR
        ptw = Runner.__new__(Runner)
        ptw.cfg, ptw.dev_index, ptw.dev, ptw.device, ptw.V = cfg, run.dev_index, run.dev, run.device, None
        ptw.layout, ptw.ids = run.layout, run.ids
        ptw.seq = Sequence(_MR(run.layout, *declared), run.device)
        for k in cfg.init_calls:
            ptw.call(cfg.calls[k - 1])
        with warnings.catch_warnings():
            warnings.simplefilter("ignore")
            v0 = ptw.seq.declare_variable("zz0", dtype=float)
            ch0 = next(iter(ptw.seq.declared_channels.values()))
            ptw.seq.phase_shift(v0, basis=ch0.basis)
        for c, o in zip(calls, outs):
            if o == "ok" and c["op"] not in ("est", "getdur"):
                ptw.call(c)
    except Exception:  # noqa: BLE001
        ptw = None
    for mi, mapping in enumerate(cfg.mappings):
        res, built = _build(seq, {"qubits": dict(mapping)})
        sub = [q for q in declared if q in mapping]
        # direct construction on the concrete register
        reg = pulser.Register({q: run.layout.traps_dict[mapping[q]] for q in sub})
        d = Runner.__new__(Runner)
        d.cfg, d.dev_index, d.dev, d.device, d.V = cfg, run.dev_index, run.dev, run.device, None
        d.ids = run.ids
        d.seq = Sequence(reg, run.device)
        dres = "ok"
        for k in cfg.init_calls:
            r, _ = d.call(cfg.calls[k - 1])
            if r != "ok":
                dres = r
        for c, o in zip(calls, outs):
            if o != "ok" or c["op"] in ("est", "getdur") or dres != "ok":
                continue
            r, _ = d.call(c)
            if r != "ok":
                dres = r
        if dres.startswith("EX:"):
            raise RuntimeError(f"direct construction of the mappable check failed with {dres}")
        if dres != "ok":
            continue            # the direct construction rejects this mapping (e.g. unmapped target)
        if res != "ok":
            out.append(("C08.MappableBuild", {"clause": "build_raises", "mapping": mi, "build": res}))
            continue
        if list(built.register.qubit_ids) != sub:
            out.append(("C08.MappableBuild", {"clause": "declared_order", "mapping": mi,
                                              "got": list(built.register.qubit_ids), "expected": sub}))
            continue
        for q in sub:
            pos = np.asarray(built.register.qubits[q].as_array() if hasattr(built.register.qubits[q], "as_array")
                             else built.register.qubits[q], dtype=float)
            if not np.allclose(pos, run.layout.traps_dict[mapping[q]], atol=1e-9):
                out.append(("C08.MappableBuild", {"clause": "requested_trap", "mapping": mi, "qubit": q}))
        if sorted(built._qids) != sorted(sub):
            out.append(("C08.MappableBuild", {"clause": "built_knows_other_ids", "mapping": mi,
                                              "got": sorted(built._qids)}))
        c2 = P.Ctx(run.dev_index, {**run.dev, "nq": len(sub)}, ctx.cid_of, ctx.nm_of, cfg.phase_unit, cfg.phase_mod,
                   ctx.sp_lookup)
        c2.qids = sub
        try:
            why = P.diff(_strip(P.project(built, c2)), _strip(P.project(d.seq, c2)), cfg.ptol, cfg.phase_mod, "built")
        except Exception as ex:  # noqa: BLE001
            why = f"projection failed: {ex!r}"
        if why:
            out.append(("C08.BuildEqualsDirect", {"clause": "mappable_differs", "mapping": mi, "why": why[:200]}))
        if ptw is not None and not why:
            res2, built2 = _build(ptw.seq, {"qubits": dict(mapping), "zz0": 0.0})
            if res2 != "ok":
                out.append(("C08.BuildEqualsDirect", {"clause": "mappable_parametrized_build_raises", "mapping": mi,
                                                      "build": res2}))
            else:
                try:
                    why2 = P.diff(_strip(P.project(built2, c2)), _strip(P.project(d.seq, c2)), cfg.ptol,
                                  cfg.phase_mod, "built")
                except Exception as ex:  # noqa: BLE001
                    why2 = f"projection failed: {ex!r}"
                if why2:
                    out.append(("C08.BuildEqualsDirect", {"clause": "mappable_parametrized_differs", "mapping": mi,
                                                          "why": why2[:200]}))
    # declared order that is not the sorted order of the ids, index-based targeting against it
    if not _probe_done["x"]:
        _probe_done["x"] = True
        from pulser.register.mappable_reg import MappableRegister
        names = ["zz", "aa", "mm"]
        mseq = Sequence(MappableRegister(run.layout, *names), run.device)
        loc = next((D_id for D_id, ch in run.device.channels.items() if ch.addressing == "Local"), None)
        if loc is not None:
            mseq.declare_channel("probe", loc, initial_target="aa")
            v = mseq.declare_variable("i", dtype=int)
            mseq.target_index(v, "probe")
            res, b = _build(mseq, {"qubits": {"aa": 1, "zz": 4}, "i": 0})
            if res != "ok" or list(b.register.qubit_ids) != ["zz", "aa"]:
                out.append(("C08.MappableBuild", {"clause": "declared_order_probe", "build": res,
                                                  "got": None if res != "ok" else list(b.register.qubit_ids)}))
            elif b._schedule["probe"].slots[-1].targets != {"zz"}:
                out.append(("C08.MappableBuild", {"clause": "index_resolves_against_declared_order",
                                                  "got": sorted(b._schedule["probe"].slots[-1].targets)}))
    after = P.project(seq, ctx)
    why = P.diff(after, proj_template, cfg.ptol, cfg.phase_mod, "template")
    if why or sorted(seq._qids) != qids_before:
        out.append(("C08.TemplateUnchanged", {"clause": "template_changed_by_mappable_build",
                                              "why": (why or "set of known qubit ids changed")[:200]}))
    return out
