"""Device dictionaries of the configurations <-> real pulser devices and the
channel records (with every derived quantity read from the real objects)."""
from .env import assert_tree

assert_tree()
import numpy as np  # noqa: E402
import pulser  # noqa: E402
from pulser.channels import DMM, Microwave, Raman, Rydberg  # noqa: E402
from pulser.channels.eom import RydbergBeam, RydbergEOM  # noqa: E402
from pulser.devices import VirtualDevice  # noqa: E402

KINDS = {"ryd": Rydberg, "ram": Raman, "mw": Microwave}
MU = 1_000_000


def q(x):
    """rad/us -> integer micro-units (exact for the lattices used); limits beyond +-1000 rad/us are
    clamped (TLC integers are 32 bit; no reachable sample comes near such a limit)."""
    return max(-1_000_000_000, min(1_000_000_000, int(round(float(x) * MU))))


def default_eom(e):
    d = dict(limiting_beam="RED", max_limiting_amp=40 * 2 * np.pi, intermediate_detuning=700 * 2 * np.pi,
             controlled_beams=("BLUE",), bw=40.0, buf=None, multiple_beam_control=True,
             blue_shift_coeff=1.0, red_shift_coeff=1.0)
    d.update(e)
    return d


def make_channel(c):
    if c["kind"] == "dmm":
        return DMM(clock_period=c.get("clock", 1), min_duration=c.get("minDur", 1),
                   max_duration=c.get("maxDur"), mod_bandwidth=c.get("bw"),
                   bottom_detuning=c.get("bottom"), total_bottom_detuning=c.get("totalBottom"))
    cls = KINDS[c["kind"]]
    kw = dict(clock_period=c.get("clock", 1), min_duration=c.get("minDur", 1),
              max_duration=c.get("maxDur"), mod_bandwidth=c.get("bw"),
              min_avg_amp=c.get("minAvg", 0), custom_phase_jump_time=c.get("cpjt"))
    if c.get("eom") is not None:
        e = default_eom(c["eom"])
        kw["eom_config"] = RydbergEOM(
            mod_bandwidth=e["bw"], limiting_beam=RydbergBeam[e["limiting_beam"]],
            max_limiting_amp=e["max_limiting_amp"], intermediate_detuning=e["intermediate_detuning"],
            controlled_beams=tuple(RydbergBeam[b] for b in e["controlled_beams"]),
            custom_buffer_time=e["buf"], multiple_beam_control=e["multiple_beam_control"],
            blue_shift_coeff=e["blue_shift_coeff"], red_shift_coeff=e["red_shift_coeff"])
    if c["addr"] == "G":
        return cls.Global(c.get("maxDet"), c.get("maxAmp"), **kw)
    return cls.Local(c.get("maxDet"), c.get("maxAmp"), min_retarget_interval=c.get("minRet", 0),
                     fixed_retarget_t=c.get("fixRet", 0), max_targets=c.get("maxTg"), **kw)


def chan_id(k):
    return f"c{k}"


def make_device(dev, name="vdev"):
    """Real VirtualDevice for a device dictionary.  DMM entries of dev['chs'] become
    dmm_objects (ids dmm_0, dmm_1, ... in order); the others channel_objects with ids c<k>
    (k = 1-based position in dev['chs'])."""
    chans, ids, dmms = [], [], []
    for k, c in enumerate(dev["chs"], 1):
        obj = make_channel(c)
        if c["kind"] == "dmm":
            dmms.append(obj)
        else:
            chans.append(obj)
            ids.append(chan_id(k))
    has_mw = any(c["kind"] == "mw" for c in dev["chs"])
    return VirtualDevice(
        name=name, dimensions=3, rydberg_level=dev.get("level", 60),
        channel_objects=tuple(chans), channel_ids=tuple(ids), dmm_objects=tuple(dmms),
        max_sequence_duration=None if dev.get("maxSeq", -1) == -1 else dev["maxSeq"],
        reusable_channels=dev.get("reusable", False), supports_slm_mask=dev.get("slm", False),
        interaction_coeff_xy=3700.0 if has_mw else None,
        max_atom_num=None, max_radial_distance=None, min_atom_distance=0.0)


def real_channel(device, dev, k):
    if "ids" in dev:      # device dictionary built FROM a real device (recorded traces)
        i = dev["ids"][k - 1]
        return device.channels[i] if i in device.channels else device.dmm_channels[i]
    c = dev["chs"][k - 1]
    if c["kind"] == "dmm":
        n = sum(1 for x in dev["chs"][:k - 1] if x["kind"] == "dmm")
        return device.dmm_channels[f"dmm_{n}"]
    return device.channels[chan_id(k)]


def real_id(dev, k):
    if "ids" in dev:
        return dev["ids"][k - 1]
    c = dev["chs"][k - 1]
    if c["kind"] == "dmm":
        n = sum(1 for x in dev["chs"][:k - 1] if x["kind"] == "dmm")
        return f"dmm_{n}"
    return chan_id(k)


def chan_record(ch):
    """TLA+ channel record: everything the model needs, read from the real object."""
    local = ch.addressing == "Local"
    eom = ch.supports_eom()
    return {
        "kind": {"Rydberg": "ryd", "Raman": "ram", "Microwave": "mw", "DMM": "dmm"}[ch.name],
        "basis": ch.basis, "addr": "L" if local else "G",
        "clock": int(ch.clock_period), "minDur": int(ch.min_duration),
        "maxDur": -1 if ch.max_duration is None else int(ch.max_duration),
        "rise": int(ch.rise_time), "pjt": int(ch.phase_jump_time),
        "minRet": int(ch.min_retarget_interval or 0) if local else 0,
        "fixRet": int(ch.fixed_retarget_t or 0) if local else 0,
        "maxTg": -1 if (not local or ch.max_targets is None) else int(ch.max_targets),
        "eom": bool(eom),
        "erise": int(ch.eom_config.rise_time) if eom else 0,
        "ebuf": int(ch._eom_buffer_time) if eom else 0,
        "ecustom": bool(eom and ch.eom_config.custom_buffer_time),
        "maxAmp": -1 if ch.max_amp is None else q(ch.max_amp),
        "maxDet": -1 if ch.max_abs_detuning is None else q(ch.max_abs_detuning),
        "minAvg": q(ch.min_avg_amp),
        "bottom": 1 if getattr(ch, "bottom_detuning", None) is None else q(ch.bottom_detuning),
        "tbottom": 1 if getattr(ch, "total_bottom_detuning", None) is None else q(ch.total_bottom_detuning),
    }


def dev_record(device, dev):
    return {
        "nq": dev["nq"],
        "maxSeq": -1 if device.max_sequence_duration is None else int(device.max_sequence_duration),
        "reusable": bool(device.reusable_channels),
        "slm": bool(device.supports_slm_mask),
        "chs": [chan_record(real_channel(device, dev, k))
                for k in range(1, len(dev["ids"] if "ids" in dev else dev["chs"]) + 1)],
    }


def qid(k):
    return f"q{k}"


def reg_ids(dev):
    """Qubit ids by position.  Default q1, q2, ...; with dev["intids"] integers that are NOT their own
    position (1, 2, ..., 0) -- 0 is a falsy id, and an id used as an index lands on another atom."""
    nq = dev["nq"]
    if dev.get("intids"):
        return [k % nq for k in range(1, nq + 1)]
    return [qid(k) for k in range(1, nq + 1)]


def make_register(nq, spacing=6.0, ids=None):
    """q1, q2, ... on a line, deliberately NOT listed in ascending coordinate order (q1 in the
    middle, q2 leftmost, ...), so that anything that confuses the order of the ids with the
    canonical order of the coordinates shows."""
    xs = [1, 0, 2, 4, 3, 5, 7, 6][:nq]
    ids = ids or [qid(k) for k in range(1, nq + 1)]
    return pulser.Register({ids[k - 1]: (spacing * xs[k - 1], 0.0) for k in range(1, nq + 1)})


def mask_to_ids(mask, nq_max=8):
    return [qid(k) for k in range(1, nq_max + 1) if (mask >> (k - 1)) & 1]


def ids_to_mask(ids):
    m = 0
    for i in ids:
        m |= 1 << (int(str(i)[1:]) - 1)
    return m
