"""C18: switch_device.  For every state TLC generated on the base device and every other device
of the configuration: strict=True either raises or returns a sequence whose timeline and samples
are identical; strict=False either raises or returns a sequence that TLC then judges against the
limits of the NEW device (state invariants of PulserProps evaluated on the real result); the
non-strict result is also compared with the model's replay of the recorded calls on that device."""
import warnings

import numpy as np

from .env import assert_tree

assert_tree()
from pulser.sampler import sampler  # noqa: E402

from . import project as P  # noqa: E402
from . import devices as D  # noqa: E402
from .replay import classify, nm_of  # noqa: E402


def _ctx_for(cfg, k):
    dev = cfg.devs[k - 1]

    def cid_of(real_id):
        for j in range(1, len(dev["chs"]) + 1):
            if D.real_id(dev, j) == real_id:
                return j
        return 0
    return P.Ctx(k, dev, cid_of, nm_of, cfg.phase_unit, cfg.phase_mod, cfg.sp_lookup(k))


def _timeline(p):
    """What 'identical timeline' compares: per channel name the instructions (kind, times, targets,
    phase, pulse fingerprint) and EOM blocks; phase references; measurement."""
    chans = {}
    for c in p["ch"]:
        chans[c["nm"]] = {"sl": [[s["k"], s["ti"], s["tf"], s["tg"], s["ph"], s["w"]] for s in c["sl"]],
                          "eb": [[b["ti"], b["tf"], b["amp"], b["don"], b["doff"]] for b in c["eb"]]}
    return {"ch": chans, "rf": sorted([[r["b"], r["q"]] for r in p["rf"]], key=lambda x: x[0]),
            "meas": p["meas"], "mode": p["mode"]}


PARAM_OF = {"bwLocalNone": "mod_bandwidth", "cpjt": "custom_phase_jump_time", "minDur": "min_duration", "locMinDur": "min_duration",
            "maxDur": "max_duration", "clock": "clock_period", "bw": "mod_bandwidth", "minRet": "min_retarget_interval",
            "fixRet": "fixed_retarget_t", "maxAmp": "max_amp", "maxDet": "max_abs_detuning", "minAvg": "min_avg_amp",
            "eom": "eom_config", "maxSeq": "max_sequence_duration", "level": "rydberg_level",
            "reusable": "reusable_channels", "maxTg": "max_targets", "swapped": "channel_order", "base": "none"}


def param_of(tag):
    for k in sorted(PARAM_OF, key=len, reverse=True):
        if tag.startswith(k):
            return PARAM_OF[k]
    return tag


def check_switch(cfg, run, ctx, proj, model_sw):
    out = []
    seq = run.seq
    base = _timeline(proj)
    try:
        s0 = sampler.sample(seq)
        base_samples = {n: (np.asarray(c.amp.as_array(detach=True)), np.asarray(c.det.as_array(detach=True)),
                            np.asarray(c.phase.as_array(detach=True)))
                        for n, c in s0.channel_samples.items()}
    except Exception:  # noqa: BLE001
        base_samples = None
    for k in range(1, len(cfg.devs) + 1):
        if k == run.dev_index:
            continue
        newdev = cfg.real_devices[k - 1]
        tag = cfg.dev_tags[k - 1] if hasattr(cfg, "dev_tags") else str(k)
        for strict in (True, False):
            try:
                with warnings.catch_warnings():
                    warnings.simplefilter("ignore")
                    new = seq.switch_device(newdev, strict=strict)
                res = "ok"
            except Exception as e:  # noqa: BLE001
                res, new = classify(e), None
            if res != "ok":
                continue
            try:
                pn = P.project(new, _ctx_for(cfg, k))
            except Exception as e:  # noqa: BLE001
                out.append(("C18.StrictPreserves" if strict else "C18.NonStrictWithinLimits",
                            {"clause": "unprojectable_result", "variant": tag, "exc": repr(e)[:120]}))
                continue
            if strict:
                why = P.diff(_timeline(pn), base, cfg.ptol, cfg.phase_mod, "timeline")
                if not why and base_samples is not None:
                    sn = sampler.sample(new)
                    for n, c in sn.channel_samples.items():
                        a, d, ph = base_samples.get(n, (None, None, None))
                        if a is None or len(a) != len(c.amp) or not (
                                np.allclose(a, c.amp.as_array(detach=True), atol=1e-9)
                                and np.allclose(d, c.det.as_array(detach=True), atol=1e-9)
                                and np.allclose(ph, c.phase.as_array(detach=True), atol=1e-9)):
                            why = f"samples of {n} differ"
                            break
                if why:
                    out.append(("C18.StrictPreserves", {"clause": "strict_changed_the_program",
                                                        "variant": tag, "differing_param": param_of(tag),
                                                        "why": why[:200]}))
            else:
                # judged by TLC against the limits of the new device (state invariants)
                out.append(("STATE.NonStrict", {"variant": tag, "state": pn}))
                m = model_sw[k - 1] if model_sw else None
                if m is not None and m["out"] == "ok" and not getattr(cfg, "skip_model_switch", {}).get(k):
                    from .template import _strip
                    why = P.diff(_strip(pn), _strip(m["st"]), cfg.ptol, cfg.phase_mod, "switched")
                    if why:
                        out.append(("DRIFT.Switch", {"variant": tag, "why": why[:200]}))
    return out
