"""Projection of a live pulser.Sequence onto the state record of spec/PulserSeq.tla."""
import math

from .env import assert_tree

assert_tree()
import numpy as np  # noqa: E402
from pulser.pulse import Pulse  # noqa: E402
from pulser.sequence._schedule import _ChannelSchedule, _DMMSchedule  # noqa: E402

from .devices import MU, ids_to_mask  # noqa: E402

SENT = -999999999
_fall_cache = {}


def qv(x):
    x = float(x)
    if not math.isfinite(x):
        return SENT
    return int(round(x * MU))


def pulse_facts(pulse):
    """<<dur, a0, a1, amax, aavg, d0, d1, max|det| (rounded 1e-6), min det (rounded), finite,
    max det (rounded)>>"""
    a = np.asarray(pulse.amplitude.samples.as_array(detach=True), dtype=float)
    d = np.asarray(pulse.detuning.samples.as_array(detach=True), dtype=float)
    fin = bool(np.all(np.isfinite(a)) and np.all(np.isfinite(d)))
    with np.errstate(all="ignore"):
        am = np.nanmax(a) if not np.all(np.isnan(a)) else float("nan")
        av = np.average(a)
        rd = np.round(np.abs(d), 6)
        dm = np.nanmax(rd) if not np.all(np.isnan(rd)) else float("nan")
        rn = np.round(d, 6)
        dn = np.nanmin(rn) if not np.all(np.isnan(rn)) else float("nan")
        dx = np.nanmax(rn) if not np.all(np.isnan(rn)) else float("nan")
    return [int(pulse.duration), qv(a[0]), qv(a[-1]), qv(am), qv(av), qv(d[0]), qv(d[-1]),
            qv(dm), qv(dn), 1 if fin else 0, qv(dx)]


def fall_times(pulse, ch_obj):
    key = (id(pulse), id(ch_obj))
    hit = _fall_cache.get(key)
    if hit is not None and hit[0] is pulse:
        return hit[1]
    fs = int(pulse.fall_time(ch_obj, in_eom_mode=False))
    fe = int(pulse.fall_time(ch_obj, in_eom_mode=True)) if ch_obj.supports_eom() else 0
    if len(_fall_cache) > 200000:
        _fall_cache.clear()
    _fall_cache[key] = (pulse, (fs, fe))
    return fs, fe


class Ctx:
    """What the projection needs to know about the configuration."""

    def __init__(self, dev_index, dev, cid_of, nm_of, phase_unit, phase_mod, sp_lookup=None):
        self.dev_index = dev_index
        self.dev = dev
        self.cid_of = cid_of          # real channel id -> index in dev['chs']
        self.nm_of = nm_of            # declared name -> model name (int)
        self.phase_unit = phase_unit  # rad per phase unit
        self.phase_mod = phase_mod
        self.sp_lookup = sp_lookup or (lambda cid, amp, don, doff: 0)

    qids = None    # optional list of the register's qubit ids in register order (default q1, q2, ...)

    def qid(self, k):
        return self.qids[k - 1] if self.qids is not None else f"q{k}"

    def mask(self, ids):
        if self.qids is None:
            return ids_to_mask(ids)
        m = 0
        for i in ids:
            m |= 1 << self.qids.index(i)
        return m

    def ph(self, x):
        v = int(round(float(x) / self.phase_unit))
        return v % self.phase_mod if self.phase_mod else v


def project(seq, ctx):
    chans = []
    for name, cs in seq._schedule.items():
        ch_obj = cs.channel_obj
        cid = ctx.cid_of(cs.channel_id)
        slots = []
        for sl in cs.slots:
            tg = ctx.mask(sl.targets)
            if isinstance(sl.type, Pulse):
                fs, fe = fall_times(sl.type, ch_obj)
                slots.append({"k": "p", "ti": int(sl.ti), "tf": int(sl.tf), "tg": tg,
                              "ph": ctx.ph(sl.type.phase), "fs": fs, "fe": fe,
                              "dd": bool(_ChannelSchedule.is_detuned_delay(sl.type)),
                              "w": pulse_facts(sl.type)})
            else:
                slots.append({"k": "t" if sl.type == "target" else "d", "ti": int(sl.ti),
                              "tf": int(sl.tf), "tg": tg, "ph": 0, "fs": 0, "fe": 0,
                              "dd": False, "w": []})
        blocks = []
        for b in cs.eom_blocks:
            amp, don, doff = float(b.rabi_freq), float(b.detuning_on), float(b.detuning_off)
            blocks.append({"ti": int(b.ti), "tf": -1 if b.tf is None else int(b.tf),
                           "sp": ctx.sp_lookup(cid, amp, don, doff),
                           "amp": qv(amp), "don": qv(don), "doff": qv(doff)})
        if isinstance(cs, _DMMSchedule):
            wts = np.asarray(cs.detuning_map.weights, dtype=float)
            mp = [int(round(2 * float(np.max(wts)))), int(round(2 * float(np.sum(wts))))]
            wt = bool(cs._waiting_for_first_pulse)
            wmap = cs.detuning_map.get_qubit_weight_map(seq.register.qubits)
            wq = [int(round(2 * float(wmap[ctx.qid(k)]))) for k in range(1, ctx.dev["nq"] + 1)]
        else:
            mp, wt, wq = [0, 0], False, []
        ent = {"nm": ctx.nm_of(name), "cid": cid, "sl": slots, "eb": blocks, "wt": wt, "mp": mp,
               "wq": wq,
               "du": int(cs.get_duration()), "df": int(cs.get_duration(include_fall_time=True))}
        chans.append(ent)
    refs = []
    nq = ctx.dev["nq"]
    for basis, d in seq._basis_ref.items():
        qs = []
        for k in range(1, nq + 1):
            r = d[ctx.qid(k)]
            qs.append({"lu": int(r.last_used), "ts": [int(t) for t in r.phase._times],
                       "ps": [ctx.ph(p) for p in r.phase._phases]})
        refs.append({"b": basis, "q": qs})
    slm, slm_nm = 0, 0
    if seq._slm_mask_dmm is not None:
        from pulser.channels.dmm import _dmm_id_from_name
        slm = ctx.cid_of(_dmm_id_from_name(seq._slm_mask_dmm))
        if seq._in_ising and seq._slm_mask_dmm in seq._schedule:
            slm_nm = ctx.nm_of(seq._slm_mask_dmm)
    return {
        "dev": ctx.dev_index,
        "mode": "xy" if seq._in_xy else ("ising" if seq._in_ising else "none"),
        "meas": getattr(seq, "_measurement", ""),
        "empty": bool(seq._empty_sequence),
        "slmDmm": slm, "slmNm": slm_nm, "slmTg": ctx.mask(seq._slm_mask_targets),
        "ch": chans,
        "rf": refs,
        "lg": [c.name for c in seq._calls[1:]],
        "bld": bool(seq._building),
        "tb": [tb_entry(c, ctx) for c in seq._to_build_calls],
        "pm": seq._param_measurement,
    }


TB_OPS = {"target": ("target", 1), "target_index": ("target", 1), "delay": ("delay", 1), "add": ("add", 1),
          "enable_eom_mode": ("eom_on", "channel"), "disable_eom_mode": ("eom_off", 0),
          "modify_eom_setpoint": ("eom_mod", "channel"), "add_eom_pulse": ("eom_add", 0),
          "align": ("align", None), "measure": ("measure", None), "phase_shift": ("pshift", None),
          "phase_shift_index": ("pshift", None), "config_detuning_map": ("detmap", "dmm"),
          "config_slm_mask": ("slm", None), "add_dmm_detuning": ("dmm_add", 1)}


def tb_entry(call, ctx):
    op, pos = TB_OPS[call.name]
    nm = 0
    if pos == "channel":
        nm = ctx.nm_of(call.kwargs["channel"])
    elif pos == "dmm":
        nm = ctx.cid_of(call.args[1] if len(call.args) > 1 else call.kwargs.get("dmm_id", "dmm_0"))
    elif pos is not None:
        nm = ctx.nm_of(call.args[pos])
    return [op, nm]


PHASE_KEYS = ("ph", "ps")


def diff(a, b, ptol=0, pmod=0, path=""):
    """First difference between two projections (None if equal); phases within ptol units
    (on the circle when pmod > 0)."""
    if isinstance(a, dict) and isinstance(b, dict):
        if set(a) != set(b):
            return f"{path}: keys {sorted(a)} vs {sorted(b)}"
        for k in a:
            if k in PHASE_KEYS and (ptol or pmod):
                xs = a[k] if isinstance(a[k], list) else [a[k]]
                ys = b[k] if isinstance(b[k], list) else [b[k]]
                if len(xs) != len(ys):
                    return f"{path}.{k}: {a[k]} vs {b[k]}"
                for x, y in zip(xs, ys):
                    dlt = abs(x - y)
                    if pmod:
                        dlt = min(dlt % pmod, pmod - dlt % pmod)
                    if dlt > ptol:
                        return f"{path}.{k}: {a[k]} vs {b[k]}"
                continue
            r = diff(a[k], b[k], ptol, pmod, f"{path}.{k}")
            if r:
                return r
        return None
    if isinstance(a, list) and isinstance(b, list):
        if len(a) != len(b):
            return f"{path}: len {len(a)} vs {len(b)}: {a} vs {b}"
        for i, (x, y) in enumerate(zip(a, b)):
            r = diff(x, y, ptol, pmod, f"{path}[{i}]")
            if r:
                return r
        return None
    if a != b:
        return f"{path}: {a!r} vs {b!r}"
    return None


def check_readings(seq, proj):
    """Sequence-level readings against the per-channel ones (C02: the sequence duration is the maximum
    over channels, with and without the pending fall time).  Implementation against implementation:
    the per-channel values are the ones of the projection (compared with the model elsewhere)."""
    if not proj.get("bld") or not proj.get("ch"):
        return []
    out = []
    try:
        sd = int(seq.get_duration())
        sf = int(seq.get_duration(include_fall_time=True))
    except Exception as e:  # noqa: BLE001
        return [("C02.SequenceDuration", {"raised": f"{type(e).__name__}: {e}"})]
    du = max(ch["du"] for ch in proj["ch"])
    df = max(ch["df"] for ch in proj["ch"])
    if sd != du or sf != df:
        out.append(("C02.SequenceDuration", {"sequence": [sd, sf], "max_over_channels": [du, df],
                                             "channels": [[ch["nm"], ch["du"], ch["df"]] for ch in proj["ch"]]}))
    return out
