#!/bin/bash
# Offline setup: verify the toolchain and parse every specification with SANY.
set -e
cd "$(dirname "$0")"
command -v java >/dev/null
test -f /opt/veriftools/tla/tla2tools.jar
test -x /venv/bin/python
PYTHONPATH=/repo/pulser-core:/repo/pulser-simulation /venv/bin/python -c "import pulser,sys; sys.exit(0 if pulser.__file__.startswith('/repo/') else 2)"
mkdir -p .work evidence
for f in spec/*.tla; do
  ( cd spec && tla-sany "$(basename "$f")" >/dev/null 2>&1 ) || { echo "SANY failed on $f"; exit 2; }
done
echo setup ok
